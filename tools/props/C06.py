#!/usr/bin/env python3
"""C06 - inheritance, super(), include and import compose templates as specified (DESIGN.md §3 C06).

Every case is a set of templates given as a tree (the fragment of coq/theories/C06/Lang.v).  The tree is
  - printed to template source and rendered by the real engine (harness bin `prog`, debug + release),
  - encoded to integers and run through the extracted MODEL of the VM (C06/Model.v: block stacks, super cursor,
    LoadBlocks / parent switch, loaded_templates, include / import / macro state handling, recursion accounting)
    and through the extracted SPECIFICATION (C06/Spec.v: chain resolution, first definition along the chain,
    super = next definition up the chain, include = render in the current variables).
Engine = model is the correspondence that ties the Coq model to the code; engine = spec on every case of the
specification's fragment is the property (theorem inherit_correct proves model = spec for chains of any length).
A case where the engine differs from the specification is the replay of a violation."""
import os, sys, collections, itertools
sys.path.insert(0, os.path.dirname(os.path.dirname(os.path.abspath(__file__))))
from vlib import *

# ----------------------------------------------------------------------------------------
# the string table: integer -> string (the Coq side sees integers only)
# ----------------------------------------------------------------------------------------
V_LOOP, V_PARAM, TOK_COMMA = 90, 91, 99


class Table:
    """0 = "", 1..19 templates, 20..29 blocks, 30..55 variables (alphabetical = numerical), 90/91 loop variable /
    macro parameter, 99 comma, 100.. numerals, 200.. text."""

    def __init__(self):
        self.text = {}
        self.rev = {}

    def s(self, k):
        if k == 0: return ""
        # identifiers with underscores (their order as strings = their order as numbers: "_" < "__x" < "_x" < "va" .. < "x_")
        if k == -3: return "_"
        if k == -2: return "__x"
        if k == -1: return "_x"
        if k == 92: return "x_"
        if 1 <= k <= 19: return "t%d" % k
        if 20 <= k <= 29: return "abcdefghij"[k - 20]
        if 30 <= k <= 55: return "v" + chr(97 + k - 30)
        if k == V_LOOP: return "w0"
        if k == V_PARAM: return "w1"
        if k == TOK_COMMA: return ","
        if 100 <= k < 200: return str(k - 100)
        return self.text[k]

    def t(self, string):
        """id of a text token"""
        if string not in self.rev:
            k = 200 + len(self.rev)
            self.rev[string] = k
            self.text[k] = string
        return self.rev[string]


TAB = Table()
S = TAB.s
T = TAB.t


def tmpl(k): return k                    # template ids 1..19
BLK = {"a": 20, "b": 21, "c": 22, "d": 23}
VAR = {n: 30 + i for i, n in enumerate("abcdefghijklmnopqrstuvwxyz")}   # VAR["g"] prints as "vg"


# ----------------------------------------------------------------------------------------
# trees -> source, trees -> integers
# ----------------------------------------------------------------------------------------
REL = [False]      # print literal template names relative ("./t2") - for runs with a path join callback


LAYOUT = [None, None]      # ({template id: (directory, base name)}, directory of the template being printed)
WSTYLE = [0]               # how a relative name is written: 0 "./x", 1 "x", 2 "zz/../x", 3 "./zz/.././x"
PJMODE = [None]            # "prefix" / "lower": the join callback is an arbitrary mapping of the written name


def written(rel):
    return ("./" + rel, rel, "zz/../" + rel, "./zz/.././" + rel)[WSTYLE[0]]


def ne_src(e):
    if e[0] == "lit":
        lay, cur = LAYOUT
        if PJMODE[0] == "lower" and e[1] != 0:
            return '"%s"' % S(e[1]).upper()
        if PJMODE[0] == "prefix":
            return '"%s"' % S(e[1])
        if lay is not None and e[1] != 0:
            # the name as written is relative to the directory of the template that contains the tag ("" = top level)
            d, b = lay.get(e[1], (cur, S(e[1])))
            if d == cur: rel = b
            elif cur == "": rel = d + "/" + b
            elif d == "": rel = "../" + b
            else: rel = "../" + d + "/" + b
            return '"%s"' % (rel if rel.startswith("../") and WSTYLE[0] in (0, 1) else written(rel))
        if REL[0] and e[1] != 0:
            return '"%s"' % written(S(e[1]))
        return '"%s"' % S(e[1])
    return S(e[1])


def ne_enc(e):
    return [0 if e[0] == "lit" else 1, e[1]]


def src(items):
    out = []
    for it in items:
        k = it[0]
        if k == "text": out.append(S(it[1]))
        elif k == "print": out.append("{{ %s }}" % S(it[1]))
        elif k == "set": out.append('{%% set %s = "%s" %%}' % (S(it[1]), S(it[2])))
        elif k == "if": out.append("{%% if %s %%}%s{%% endif %%}" % (S(it[1]), src(it[2])))
        elif k == "for": out.append("{%% for %s in range(%d) %%}%s{%% endfor %%}" % (S(V_LOOP), it[1], src(it[2])))
        elif k == "block": out.append("{%% block %s%s %%}%s{%% endblock %%}" % (S(it[1]), " required" if it[2] else "", src(it[3])))
        elif k == "super": out.append("{{ super() }}")
        elif k == "self": out.append("{{ self.%s() }}" % S(it[1]))
        elif k == "extends": out.append("{%% extends %s %%}" % ne_src(it[1]))
        elif k == "condext": out.append("{%% if %s %%}{%% extends %s %%}{%% endif %%}" % (S(it[1]), ne_src(it[2])))
        elif k == "include":
            es, ign, style = it[1], it[2], it[3]
            arg = ne_src(es[0]) if (style == 0 and len(es) == 1) else "[" + ", ".join(ne_src(e) for e in es) + "]"
            out.append("{%% include %s%s %%}" % (arg, " ignore missing" if ign else ""))
        elif k == "macro": out.append("{%% macro %s(%s) %%}%s{%% endmacro %%}" % (S(it[1]), S(V_PARAM), src(it[2])))
        elif k == "call": out.append('{{ %s("%s") }}' % (S(it[1]), S(it[2])))
        elif k == "import": out.append("{%% import %s as %s %%}" % (ne_src(it[1]), S(it[2])))
        elif k == "from":
            out.append("{%% from %s import %s %%}" % (ne_src(it[1]), ", ".join(S(x) if x == a else "%s as %s" % (S(x), S(a)) for x, a in it[2])))
        elif k == "pattr": out.append("{{ %s.%s }}" % (S(it[1]), S(it[2])))
        elif k == "cattr":
            style = it[4] if len(it) > 4 else 0      # spellings of calling something a module exposes
            if style == 0: out.append('{{ %s.%s("%s") }}' % (S(it[1]), S(it[2]), S(it[3])))
            elif style == 1: out.append('{{ %s["%s"]("%s") }}' % (S(it[1]), S(it[2]), S(it[3])))
            elif style == 2: out.append('{%% set zt = %s.%s %%}{{ zt("%s") }}' % (S(it[1]), S(it[2]), S(it[3])))
            else: out.append('{%% set zt = %s["%s"] %%}{{ zt("%s") }}' % (S(it[1]), S(it[2]), S(it[3])))
        elif k == "keys": out.append("{%% for zk in %s %%}{{ zk }},{%% endfor %%}" % S(it[1]))
        elif k == "setblock": out.append("{%% set %s %%}%s{%% endset %%}" % (S(it[1]), src(it[2])))
        else: raise ValueError(k)
    return "".join(out)


def enc_items(items):
    out = [len(items)]
    for it in items:
        out += enc_item(it)
    return out


def enc_item(it):
    k = it[0]
    if k == "text": return [0, it[1]]
    if k == "print": return [1, it[1]]
    if k == "set": return [2, it[1], it[2]]
    if k == "if": return [3, it[1]] + enc_items(it[2])
    if k == "for": return [4, it[1]] + enc_items(it[2])
    if k == "block": return [5, it[1], 1 if it[2] else 0] + enc_items(it[3])
    if k == "super": return [6]
    if k == "self": return [7, it[1]]
    if k == "extends": return [8] + ne_enc(it[1])
    if k == "condext": return [9, it[1]] + ne_enc(it[2])
    if k == "include": return [10, 1 if it[2] else 0, len(it[1])] + [z for e in it[1] for z in ne_enc(e)]
    if k == "macro": return [11, it[1]] + enc_items(it[2])
    if k == "call": return [12, it[1], it[2]]
    if k == "import": return [13] + ne_enc(it[1]) + [it[2]]
    if k == "from": return [14] + ne_enc(it[1]) + [len(it[2])] + [z for x, a in it[2] for z in (x, a)]
    if k == "pattr": return [15, it[1], it[2]]
    if k == "cattr": return [16, it[1], it[2], it[3]]
    if k == "keys": return [17, it[1]]
    if k == "setblock": return [18, it[1]] + enc_items(it[2])
    raise ValueError(k)


DEFAULT_LIMIT = 500


def lit_refs(items, acc):
    """ids of the templates named by literals in a tree"""
    for it in items:
        for x in it[1:]:
            if isinstance(x, tuple) and len(x) == 2 and x[0] == "lit": acc.add(x[1])
            elif isinstance(x, list):
                if x and isinstance(x[0], tuple) and len(x[0]) == 2 and x[0][0] in ("lit", "var"):
                    acc.update(e[1] for e in x if e[0] == "lit")
                elif x and isinstance(x[0], tuple) and isinstance(x[0][0], str):
                    lit_refs(x, acc)
    return acc


BAD_SYNTAX, BAD_LOADER = "syntax", "loader"      # a template that exists but does not load
BAD_SRC = {BAD_SYNTAX: "real content {% if %}", BAD_LOADER: "!!ERR the loader fails"}
BAD_CODE = {BAD_SYNTAX: 4, BAD_LOADER: 3}                # ErrorKind::SyntaxError / InvalidOperation


class Case:
    """templates: {template id: items | BAD_SYNTAX | BAD_LOADER}; ctx: {variable id: token id}; lim: recursion limit;
    loader: templates are served through Environment::set_loader (forced when a template does not load);
    pathjoin: templates are named d/<name>, literal references are relative (./<name>), a path join callback is set"""

    def __init__(self, templates, main, ctx=None, lim=DEFAULT_LIMIT, kind="", note=None, loader=False, pathjoin=False, layout=None,
                 config=None, pjmode=None, wstyle=0, named_str=False, named_as=None):
        self.templates, self.main, self.ctx, self.lim, self.kind, self.note = templates, main, ctx or {}, lim, kind, note
        # layout: {template id: (directory, base name)} - templates live in several directories, literal references are
        # written relative to the referring template (same base name in two directories = same written name)
        self.layout = layout
        # config: environment configuration that must not matter (extra request fields); pjmode: "prefix" / "lower" = the path
        # join callback is an arbitrary mapping; wstyle: spelling of relative names; named_str: the main template is not
        # stored but rendered with Environment::render_named_str
        self.config, self.pjmode, self.wstyle, self.named_str = config or {}, pjmode, wstyle, named_str
        # named_as: the (string) main template is rendered under the NAME of another, stored template - a distinct
        # template that merely shares a name with a member of its own chain
        self.named_as = named_as
        if named_str:
            # a template rendered from a string is not stored: nothing may refer to it by name
            refs = set(self.ctx.values())
            for b in templates.values():
                if not isinstance(b, str): lit_refs(b, refs)
            if main in refs or main not in templates:
                self.named_str = False
        self.pathjoin = pathjoin or layout is not None or pjmode is not None
        self.loader = loader or any(isinstance(b, str) for b in templates.values())

    def fuel(self):
        return 2 * self.lim + 60

    def encode(self, qbits=0):
        out = [qbits, self.lim, self.fuel(), self.main, len(self.ctx)]
        for x in sorted(self.ctx):
            out += [x, self.ctx[x]]
        out.append(len(self.templates))
        for n in sorted(self.templates):
            b = self.templates[n]
            out += [n, -1, BAD_CODE[b]] if isinstance(b, str) else [n] + enc_items(b)
        return out

    def full_name(self, n):
        if self.pjmode == "prefix": return "p/" + S(n)
        if self.pjmode == "lower": return S(n)
        if self.layout is not None:
            d, b = self.layout[n]
            return (d + "/" if d else "") + b
        return ("d/" if self.pathjoin else "") + S(n)

    def request(self):
        REL[0] = self.pathjoin
        WSTYLE[0], PJMODE[0] = self.wstyle, self.pjmode
        srcs = {}
        try:
            for n, b in self.templates.items():
                LAYOUT[0], LAYOUT[1] = self.layout, (self.layout[n][0] if self.layout is not None else None)
                srcs[self.full_name(n)] = BAD_SRC[b] if isinstance(b, str) else src(b)
        finally:
            REL[0] = False
            LAYOUT[0] = LAYOUT[1] = None
            WSTYLE[0], PJMODE[0] = 0, None
        named = None
        if self.named_str and self.main in self.templates and not isinstance(self.templates[self.main], str):
            named = srcs.pop(self.full_name(self.main))
        main_name = self.full_name(self.named_as if (named is not None and self.named_as is not None) else self.main)
        r = {"templates": {} if self.loader else srcs, "main": main_name,
             "ctx": {S(x): S(v) for x, v in self.ctx.items()}, "ops": ["render"]}
        if self.loader: r["loader"] = srcs
        if self.pathjoin: r["path_join"] = self.pjmode or True
        if named is not None: r["named_str"] = named
        r.update(self.config)
        if self.lim != DEFAULT_LIMIT:
            r["recursion_limit"] = self.lim
        return r

    def describe(self):
        r = self.request()
        d = {"kind": self.kind, "templates": r.get("loader") or r["templates"], "render": r["main"], "context": r["ctx"]}
        if self.loader: d["templates_served_by"] = "Environment::set_loader"
        if self.pathjoin: d["path_join_callback"] = self.pjmode or "the callback of the documentation"
        if r.get("named_str") is not None: d["rendered_with_render_named_str"] = {r["main"]: r["named_str"]}
        if self.config: d["environment_configuration"] = self.config
        if self.lim != DEFAULT_LIMIT: d["recursion_limit"] = self.lim
        if self.note: d["note"] = self.note
        return d


def engine_canon(r):
    """engine answer -> ('ok', text) | ('err', kind code) | ('crash', what)"""
    if not isinstance(r, dict): return ("crash", str(r)[:200])
    if r.get("load_errors"): return ("crash", "template does not load: " + json.dumps(r["load_errors"])[:300])
    rr = r.get("render")
    if isinstance(rr, dict):
        if "ok" in rr: return ("ok", rr["ok"])
        if "err" in rr: return ("err", rr["err"])
    if "panic" in r: return ("crash", "panic: " + str(r["panic"])[:200])
    if r.get("hang"): return ("crash", "hang")
    return ("crash", json.dumps(r)[:300])


def model_canon(o):
    """model / spec answer -> same form; ('limit', code) marks an error caused by the recursion limit, ('gas',) out of fuel"""
    if o[:1] == [0]: return ("ok", "".join(S(t) for t in o[2:]))
    if o[:1] == [1]: return ("err", o[1]) if o[2] == 0 else ("limit", o[1])
    if o[:1] == [2]: return ("crash", "panic")
    if o[:1] == [8]: return ("gas",)
    return ("bad", o)


# ----------------------------------------------------------------------------------------
# generators
# ----------------------------------------------------------------------------------------
def text(s): return ("text", T(s))
def lit(n): return ("lit", n)
def nvar(x): return ("var", VAR[x])
def blk(n, body, req=False): return ("block", n, req, body)
def inc(es, ign=False, style=0): return ("include", es, ign, style)
A, B, Cc, D = BLK["a"], BLK["b"], BLK["c"], BLK["d"]
SUPER = ("super",)

# what a template does with a block: absent | override | override + super() before | override + super() after
OPTS = (0, 1, 2, 3)


def body_of(label, opt, nested=None, extra=None):
    core = [text(label)] + ([nested] if nested else []) + (extra or [])
    if opt == 5: return ([nested] if nested else [])          # an EMPTY definition (only the nested block, if any)
    if opt == 1: return core
    if opt == 2: return [SUPER] + core
    if opt == 4: return [SUPER] + core + [SUPER]          # super() twice (sampled grids only)
    return core + [SUPER]


def level_combos():
    """(opt a, opt c, c nested inside a?) of one template: 25 combinations"""
    out = []
    for oa in OPTS:
        for oc in OPTS:
            for nest in ((0, 1) if (oa and oc) else (0,)):
                out.append((oa, oc, nest))
    return out


LEVELS = level_combos()
OPTS5 = (0, 1, 2, 3, 5)
LEVELS5 = [(oa, oc, nest) for oa in OPTS5 for oc in OPTS5 for nest in ((0, 1) if (oa and oc) else (0,))]


def chain_templates(levels, tail=0, ext=None, ob=None, bcalls=None):
    """levels[i] = (oa, oc, nest) of template i+1 (most derived first); the last one is the root.
    ext[i] = how template i+1 names its parent (default: literal).  ob[i] = option of a third block b,
    bcalls[i]: b's body also calls self.c()."""
    n = len(levels)
    ts = {}
    for i, (oa, oc, nest) in enumerate(levels):
        items = []
        root = i == n - 1
        if not root:
            items.append((ext[i] if ext else None) or ("extends", lit(i + 2)))
            items.append(text("x%d" % i))
        else:
            items.append(text("R("))
        cblock = blk(Cc, body_of("C%d" % i, oc)) if oc else None
        if oa:
            items.append(blk(A, body_of("A%d" % i, oa, cblock if nest else None)))
        if not root: items.append(text("y%d" % i))
        if oc and not (oa and nest):
            items.append(blk(Cc, body_of("C%d" % i, oc)))
        if ob and ob[i]:
            items.append(blk(B, body_of("B%d" % i, ob[i], None, [("self", Cc)] if (bcalls and bcalls[i]) else None)))
        if root:
            items.append(text(")"))
            if tail == 1: items += [text("|"), ("self", A)]
            if tail == 2: items += [text("|"), ("self", Cc)]
            if tail == 3: items += [text("|"), ("self", B)]
        else:
            items.append(text("z%d" % i))
        ts[i + 1] = items
    return ts


def gen_chains(chk, cases):
    rng = chk.rng
    # exhaustive: chains of 1..3 templates over the 2-block alphabet (+ nesting); 4 templates: exhaustive in thorough
    for n in (1, 2, 3):
        for combo in itertools.product(LEVELS, repeat=n):
            tails = (0, 1, 2) if n <= 2 else (0,)
            for tail in tails:
                cases.append(Case(chain_templates(combo, tail), 1, kind="chain%d" % n))
    if chk.thorough:
        for combo in itertools.product(LEVELS, repeat=4):
            cases.append(Case(chain_templates(combo, 0), 1, kind="chain4"))
        for _ in range(30000):
            combo = [rng.choice(LEVELS) for _ in range(3)]
            cases.append(Case(chain_templates(combo, 1 + rng.below(2)), 1, kind="chain3"))
    else:
        for _ in range(6000):
            combo = [rng.choice(LEVELS) for _ in range(4)]
            cases.append(Case(chain_templates(combo, rng.below(3)), 1, kind="chain4"))
    # EMPTY definitions at every level: all chains of 2-4 templates over one block with
    # {absent, text, super() before, super() after, empty}; two blocks + nesting sampled
    for n in (2, 3, 4):
        for opts in itertools.product(OPTS5, repeat=n):
            if 5 in opts:
                cases.append(Case(chain_templates([(o, 0, 0) for o in opts], 1), 1, kind="chain%d-empty" % n))
    for _ in range(40000 if chk.thorough else 3000):
        n = 2 + rng.below(3)
        combo = [rng.choice(LEVELS5) for _ in range(n)]
        if any(5 in lv[:2] for lv in combo):
            cases.append(Case(chain_templates(combo, rng.below(3)), 1, kind="chain%d-empty" % n))
    # super() called twice in one definition: all 2- and 3-template chains over one block
    for n in (2, 3):
        for opts in itertools.product((0, 1, 2, 3, 4), repeat=n):
            if 4 in opts:
                cases.append(Case(chain_templates([(o, 0, 0) for o in opts], 1), 1, kind="chain%d-super-twice" % n))
    # 3-block alphabet, sampled (b may call super() twice)
    for _ in range(200000 if chk.thorough else 4000):
        n = 2 + rng.below(3)
        combo = [rng.choice(LEVELS) for _ in range(n)]
        ob = [rng.choice(OPTS + (4, 5)) for _ in range(n)]
        bc = [rng.below(2) for _ in range(n)]
        cases.append(Case(chain_templates(combo, rng.below(4), None, ob, bc), 1, kind="chain%d+b" % n))


def gen_extends_forms(chk, cases):
    """dynamic ({% extends name_var %}) and conditional ({% if flag %}{% extends .. %}{% endif %}) extends"""
    rng = chk.rng
    NV, FL = VAR["n"], VAR["f"]
    def variants(n):
        # per non-root level: literal | variable (right name) | conditional true | conditional false
        return itertools.product(range(4), repeat=n - 1)
    def build(combo, forms, tail):
        n = len(combo)
        ctx = {}
        ext = []
        for i, f in enumerate(forms):
            nv, fl = NV + i, FL + 4 + i           # vn, vo, vp / vj, vk, vl
            if f == 0: ext.append(None)
            elif f == 1: ext.append(("extends", ("var", nv))); ctx[nv] = i + 2
            elif f == 2: ext.append(("condext", fl, lit(i + 2))); ctx[fl] = T("yes")
            else: ext.append(("condext", fl, lit(i + 2)))
        ext.append(None)
        return Case(chain_templates(combo, tail, ext), 1, ctx, kind="extends-forms")
    for combo in itertools.product(LEVELS, repeat=2):
        for forms in variants(2):
            if forms != (0,):
                cases.append(build(combo, forms, 0))
    for _ in range(120000 if chk.thorough else 3000):
        n = 3 + rng.below(2)
        combo = [rng.choice(LEVELS) for _ in range(n)]
        forms = [rng.below(4) for _ in range(n - 1)]
        cases.append(build(combo, forms, rng.below(3)))
    # the variable names nothing / a missing template / is undefined; conditional + unconditional = double extends
    base = [(3, 3, 0), (1, 1, 1)]
    for ctxv in ({}, {NV: 9}, {NV: 0}, {NV: 2}):
        cases.append(Case(chain_templates(base, 1, [("extends", ("var", NV)), None]), 1, dict(ctxv), kind="extends-var"))
    for fl in ({}, {FL: T("yes")}):
        t = chain_templates(base, 1)
        t[1] = [("condext", FL, lit(2)), ("extends", lit(2))] + t[1][1:]
        cases.append(Case(t, 1, dict(fl), kind="double-extends"))
        t = chain_templates(base, 1)
        t[1] = [("extends", lit(2)), ("condext", FL, lit(2))] + t[1][1:]
        cases.append(Case(t, 1, dict(fl), kind="double-extends"))


def gen_errors(chk, cases):
    base3 = [(3, 1, 0), (2, 0, 0), (1, 1, 1)]
    # cycles of length 1..4, entered from every member
    for n in (1, 2, 3, 4):
        for combo in ([(1, 0, 0)] * n, [(3, 3, 0)] * n):
            t = chain_templates(list(combo), 0)
            t[n] = [("extends", lit(1)), text("x")] + t[n][1:]
            for start in range(1, n + 1):
                cases.append(Case(dict(t), start, kind="extends-cycle"))
    # a chain that runs into a cycle further up
    t = chain_templates(base3, 0)
    t[3] = [("extends", lit(2))] + t[3][1:]
    cases.append(Case(t, 1, kind="extends-cycle"))
    # double extends (same and different parents), at every level
    for lvl in (1, 2):
        for second in (lvl + 1, 3 if lvl == 1 else 1):
            t = chain_templates(base3, 0)
            t[lvl] = t[lvl][:1] + [("extends", lit(second))] + t[lvl][1:]
            cases.append(Case(t, 1, kind="double-extends"))
    # missing parent at every level
    for lvl in (1, 2, 3):
        t = chain_templates(base3 + ([(1, 1, 0)] if lvl == 3 else []), 1)
        t[lvl] = [("extends", lit(9))] + t[lvl][1:]
        cases.append(Case(t, 1, kind="missing-parent"))
    cases.append(Case(chain_templates(base3, 0), 9, kind="missing-main"))
    # include cycles (length 1..3): must end in an error through the recursion limit
    for n in (1, 2, 3):
        for lim in (DEFAULT_LIMIT, 37):
            t = {i + 1: [text("i%d" % i), inc([lit((i + 1) % n + 1)])] for i in range(n)}
            cases.append(Case(t, 1, lim=lim, kind="include-cycle"))
            t = {i + 1: [blk(A, [text("i%d" % i), inc([lit((i + 1) % n + 1)])])] for i in range(n)}
            cases.append(Case(t, 1, lim=lim, kind="include-cycle"))
    # an include cycle through an inherited block
    cases.append(Case({1: [("extends", lit(2)), blk(A, [inc([lit(1)])])], 2: [text("P"), blk(A, [])]}, 1, lim=60, kind="include-cycle"))
    # block recursion: self-call, through super(), mutual
    cases.append(Case({1: [blk(A, [text("r"), ("self", A)])]}, 1, lim=50, kind="block-recursion"))
    cases.append(Case({1: [("extends", lit(2)), blk(A, [SUPER])], 2: [blk(A, [("self", A)])]}, 1, lim=50, kind="block-recursion"))
    cases.append(Case({1: [blk(A, [("self", B)]), blk(B, [("self", A)])]}, 1, lim=50, kind="block-recursion"))
    # nesting depth just below / above the limit: k nested includes cost 10 each (+ frames)
    for k in (3, 4, 5):
        for lim in (40, 41, 42, 50, 51, 52):
            t = {i + 1: [text("n%d" % i), inc([lit(i + 2)])] for i in range(k)}
            t[k + 1] = [text("end")]
            cases.append(Case(t, 1, lim=lim, kind="include-depth"))
    # k nested block calls: a block is admitted when its frame fits (1 unit) and costs 5 more while it runs,
    # so the k-th nested call needs 6k - 4 <= limit
    for k in (3, 5, 9):
        for lim in range(6 * k - 7, 6 * k - 1):
            t = {1: [("self", A)] + [("if", VAR["z"], [blk(BLK["a"] + i, [text("d%d" % i)] + ([("self", BLK["a"] + i + 1)] if i + 1 < k else []))]) for i in range(k)]}
            cases.append(Case(t, 1, lim=lim, kind="block-depth"))
    # super() outside of blocks, unknown self block, required blocks
    cases.append(Case({1: [text("a"), SUPER]}, 1, kind="super-outside"))
    cases.append(Case({1: [("extends", lit(2)), blk(A, [text("x")])], 2: [text("p"), SUPER]}, 1, kind="super-outside"))
    cases.append(Case({1: [text("a"), ("self", A)]}, 1, kind="unknown-block"))
    cases.append(Case({1: [("extends", lit(2))], 2: [("self", A)]}, 1, kind="unknown-block"))
    for chain_req in itertools.product((0, 1, 2, 3, 4), repeat=3):      # per level: absent | plain | required | plain + super | empty
        t = {}
        for i, o in enumerate(chain_req):
            items = [("extends", lit(i + 2))] if i < 2 else [text("R(")]
            if o == 1: items.append(blk(A, [text("A%d" % i)]))
            if o == 2: items.append(blk(A, [], True))
            if o == 3: items.append(blk(A, [text("A%d" % i), SUPER]))
            if o == 4: items.append(blk(A, []))
            if i == 2: items += [text(")"), ("self", A)]
            t[i + 1] = items
        cases.append(Case(t, 1, kind="required"))
    # the most derived definition also when a parent definition reached through super() calls the block again
    G = VAR["g"]
    for ctx in ({G: T("1")}, {}):
        cases.append(Case({1: [("extends", lit(2)), blk(A, [text("C"), SUPER])],
                           2: [blk(A, [text("P"), ("if", G, [("set", G, 0), ("self", A)])])]}, 1, dict(ctx), kind="self-in-super"))
        cases.append(Case({1: [("extends", lit(2)), blk(A, [text("C"), SUPER]), blk(Cc, [text("c"), ("if", G, [("set", G, 0), ("self", A)])])],
                           2: [blk(A, [text("P"), blk(Cc, [text("pc")])])]}, 1, dict(ctx), kind="self-in-super"))


def gen_placements(chk, cases):
    """include / import at the top level, inside a for loop, inside a macro, inside a block, inside a block of an
    extending template - times what is included and how it is named"""
    G, Sv, Vv, N, U, M, X, F, K, Q, H, Y, Z_, Tt = (VAR[c] for c in "gsvnumxfkqhyzt")
    TGT, TGT2, LIB, LIBBASE, BASE, BASE2, MISS1, MISS2 = 10, 11, 12, 13, 5, 6, 8, 9
    base = {BASE: [text("B("), blk(A, [text("ba")]), text(")")]}
    targets = {
        "plain": {TGT: [text("<"), ("print", G), ("print", Sv), ("print", V_LOOP), ("print", V_PARAM), text(">")]},
        "setter": {TGT: [text("<"), ("print", Sv), ("set", Vv, T("V")), text(">")]},
        "chain": {TGT: [("extends", lit(BASE2)), blk(A, [text("ta"), SUPER, ("print", Sv)]), blk(Cc, [text("tc")])],
                  BASE2: [text("B2("), blk(A, [text("b2a"), blk(Cc, [text("b2c")])]), text(")")]},
        "samebase": {TGT: [("extends", lit(BASE)), blk(A, [text("ta"), SUPER])]},
        "super-top": {TGT: [text("I"), SUPER]},
        "own-blocks": {TGT: [blk(A, [text("ia"), ("print", Sv)]), text("-"), ("self", A)]},
        "nested": {TGT: [text("n("), inc([lit(TGT2)]), text(")")], TGT2: [text("deep"), ("print", Sv), ("print", V_LOOP)]},
        "failing": {TGT: [text("f"), ("self", D)]},
    }
    includes = {
        "literal": ([inc([lit(TGT)])], {}),
        "variable": ([inc([nvar("n")])], {N: TGT}),
        "list": ([inc([lit(MISS1), lit(MISS2), lit(TGT)], False, 1)], {}),
        "list-var": ([inc([lit(MISS1), nvar("n"), lit(TGT)], False, 1)], {N: MISS2}),
        "list-ignore": ([inc([lit(MISS1), lit(MISS2)], True, 1)], {}),
        "ignore-existing": ([inc([lit(TGT)], True)], {}),
        "ignore-list-existing": ([inc([lit(MISS1), lit(TGT)], True, 1)], {}),
        "missing": ([inc([lit(MISS1)])], {}),
        "missing-list": ([inc([lit(MISS1), lit(MISS2)], False, 1)], {}),
        "undefined-name": ([inc([nvar("u")])], {}),
        "undefined-in-list": ([inc([lit(MISS1), nvar("u"), lit(TGT)], False, 1)], {}),
        "empty-list": ([inc([], False, 1)], {}),
        "empty-name": ([inc([nvar("n")], True)], {N: 0}),
    }
    libs = {
        "simple": {LIB: [("set", X, T("X")), ("macro", F, [text("F"), ("print", V_PARAM), ("print", G)]), text("junk")]},
        "scoped": {LIB: [("set", X, T("X")), ("macro", F, [text("F"), ("print", V_PARAM)]), text("junk"),
                         ("for", 1, [("set", Y, T("Y"))]), blk(B, [("set", Z_, T("Z")), text("QQ")]), ("if", G, [("set", Tt, T("T"))])]},
        "inherited": {LIB: [("extends", lit(LIBBASE)), text("zz")],
                      LIBBASE: [("set", X, T("X2")), ("macro", F, [text("F2"), ("print", V_PARAM)]), text("junk")]},
        "empty": {LIB: [text("nothing")]},
        # {% import %} renders the library's blocks (and fails here), {% from %} does not render any block
        "failing-block": {LIB: [("set", X, T("X")), blk(B, [text("lb"), SUPER]), ("macro", F, [text("F")])]},
        "with-blocks": {LIB: [("set", X, T("X")), blk(A, [text("la"), ("set", Q, T("inner"))]), ("self", A), ("macro", F, [text("F"), ("print", V_PARAM)])]},
    }
    imports = {
        "import-as": ([("import", lit(LIB), M), ("keys", M), text("|"), ("pattr", M, X), ("cattr", M, F, T("arg")), text("["), ("pattr", M, Q), ("pattr", M, G), text("]")], {}),
        "import-var": ([("import", nvar("n"), M), ("keys", M), ("pattr", M, X)], {N: LIB}),
        "from": ([("from", lit(LIB), [(X, X), (F, K), (Q, Q)]), ("print", X), ("call", K, T("arg")), text("["), ("print", Q), text("]")], {}),
        # a name the library does not define must not resolve to a variable of the importing template
        "from-shadow": ([("from", lit(LIB), [(Sv, H), (G, Q), (X, X)]), text("["), ("print", H), ("print", Q), ("print", X), text("]")], {}),
        "import-missing": ([("import", lit(MISS1), M), ("keys", M)], {}),
        "from-missing": ([("from", lit(MISS1), [(X, X)]), ("print", X)], {}),
    }

    def place(where, construct):
        body = [("set", Sv, T("S"))] + construct + [("print", Vv)]
        if where == "top": return {1: [text("M(")] + body + [text(")")]}
        if where == "for": return {1: [text("M("), ("for", 2, [text("(")] + body + [text(")")]), text(")")]}
        if where == "macro": return {1: [("macro", VAR["w"], [text("(")] + body + [text(")")]), text("M("), ("call", VAR["w"], T("P")), text(")")]}
        if where == "block": return {1: [text("M("), blk(A, [text("[")] + body + [text("]")]), text(")")]}
        if where == "child-block": return {1: [("extends", lit(BASE)), text("dropped"), blk(A, [text("[")] + body + [SUPER, text("]")])]}
    for where in ("top", "for", "macro", "block", "child-block"):
        for gctx in ({G: T("G")}, {}):
            for iname, (construct, ictx) in includes.items():
                for tname, tt in targets.items():
                    if gctx == {} and tname not in ("plain", "chain"):
                        continue
                    t = dict(base); t.update(tt); t.update(place(where, construct))
                    ctx = dict(gctx); ctx.update(ictx)
                    cases.append(Case(t, 1, ctx, kind="include/%s/%s/%s" % (where, iname, tname)))
            for iname, (construct, ictx) in imports.items():
                for lname, ll in libs.items():
                    t = dict(base); t.update(ll); t.update(place(where, construct))
                    ctx = dict(gctx); ctx.update(ictx)
                    cases.append(Case(t, 1, ctx, kind="import/%s/%s/%s" % (where, iname, lname)))
    # include / import combined with the chain grid: the most derived override of block a includes a template
    rng = chk.rng
    for _ in range(30000 if chk.thorough else 600):
        n = 2 + rng.below(3)
        combo = [rng.choice(LEVELS) for _ in range(n)]
        t = chain_templates(combo, rng.below(3))
        tname = rng.choice(sorted(targets))
        t.update(base); t.update(targets[tname])
        lvl = 1 + rng.below(n)
        extra = blk(D, [text("d["), rng.choice([inc([lit(TGT)]), inc([lit(MISS1), lit(TGT)], False, 1), inc([lit(MISS1)], True)]), text("]")])
        t[lvl] = t[lvl] + [extra]
        if lvl != n:
            t[n] = t[n] + [blk(D, [text("rootd")])]
        cases.append(Case(t, 1, {G: T("G")}, kind="chain+include/%s" % tname))


def gen_unloadable(chk, cases):
    """templates that EXIST but do not load (syntax error in the source / the loader fails): they are not "missing" -
    include lists do not skip them, `ignore missing` does not apply, extends / import / render fail with the load error"""
    G, Sv, M, X = (VAR[c] for c in "gsmx")
    TGT, BASE, MISS1, MISS2, BROKEN, FLAKY = 10, 5, 8, 9, 14, 15
    world = {BASE: [text("B("), blk(A, [text("ba")]), text(")")], TGT: [text("<fallback"), ("print", Sv), text(">")],
             BROKEN: BAD_SYNTAX, FLAKY: BAD_LOADER}
    constructs = {}
    for bname, bad in (("broken", BROKEN), ("flaky", FLAKY)):
        constructs.update({
            bname + "-single": [inc([lit(bad)])],
            bname + "-ignore": [inc([lit(bad)], True)],
            bname + "-in-list": [inc([lit(MISS1), lit(bad), lit(TGT)], False, 1)],
            bname + "-in-list-ignore": [inc([lit(MISS1), lit(bad), lit(TGT)], True, 1)],
            bname + "-first": [inc([lit(bad), lit(TGT)], False, 1)],
            bname + "-last-ignore": [inc([lit(MISS1), lit(MISS2), lit(bad)], True, 1)],
            bname + "-after-existing": [inc([lit(MISS1), lit(TGT), lit(bad)], False, 1)],      # the first existing one is rendered
            bname + "-by-variable": [inc([lit(MISS1), nvar("n")], True, 1)],
            bname + "-import": [("import", lit(bad), M), ("pattr", M, X)],
            bname + "-from": [("from", lit(bad), [(X, X)]), ("print", X)],
        })
    def place(where, construct):
        body = [("set", Sv, T("S"))] + construct
        if where == "top": return {1: [text("M(")] + body + [text(")")]}
        if where == "for": return {1: [text("M("), ("for", 2, [text("(")] + body + [text(")")]), text(")")]}
        if where == "macro": return {1: [("macro", VAR["w"], [text("(")] + body + [text(")")]), text("M("), ("call", VAR["w"], T("P")), text(")")]}
        if where == "block": return {1: [text("M("), blk(A, [text("[")] + body + [text("]")]), text(")")]}
        if where == "child-block": return {1: [("extends", lit(BASE)), blk(A, [text("[")] + body + [SUPER, text("]")])]}
        if where == "child-block-in-for": return {1: [("extends", lit(BASE)), blk(A, [("for", 2, [text("<")] + body + [text(">")])])]}
    for where in ("top", "for", "macro", "block", "child-block", "child-block-in-for"):
        for cname, construct in constructs.items():
            t = dict(world); t.update(place(where, construct))
            ctx = {VAR["n"]: BROKEN if cname.startswith("broken") else FLAKY}
            cases.append(Case(t, 1, ctx, kind="unloadable/%s/%s" % (where, cname)))
    # extends of an unloadable template at every level of a chain, literal / variable / conditional; rendering one
    base3 = [(3, 1, 0), (2, 0, 0), (1, 1, 1)]
    for bad in (BROKEN, FLAKY):
        for lvl in (1, 2, 3):
            for form in (0, 1, 2):
                t = chain_templates(base3 + [(1, 1, 0)], 1)
                ctx = {}
                if form == 0: head = ("extends", lit(bad))
                elif form == 1: head = ("extends", nvar("n")); ctx[VAR["n"]] = bad
                else: head = ("condext", G, lit(bad)); ctx[G] = T("yes")
                t[lvl] = [head] + t[lvl][1:]
                t.update({BROKEN: BAD_SYNTAX, FLAKY: BAD_LOADER})
                cases.append(Case(t, 1, ctx, kind="unloadable/extends"))
        t = dict(world); t[1] = [text("x")]
        cases.append(Case(t, bad, kind="unloadable/render"))


def gen_miss_history(chk, cases):
    """long histories of lookups that find nothing (include lists with missing candidates, ignore missing) in ONE context,
    followed by legitimate depth-checked work: a missed include must give back what it charged against the recursion limit"""
    MISS1, MISS2, ROW, BASE = 8, 9, 10, 5
    NEST0 = 11                                  # t11 includes t12 includes ... (a legitimate nesting of depth k)
    def nest(k):
        t = {NEST0 + i: [text("n%d(" % i), inc([lit(NEST0 + i + 1)]), text(")")] for i in range(k - 1)}
        t[NEST0 + k - 1] = [text("leaf")]
        return t
    def tails(k):
        return {"include": [inc([lit(ROW)])], "block": [blk(B, [text("blk")])], "for": [("for", 1, [text("it")])],
                "nest%d" % k: [inc([lit(NEST0)])], "list": [inc([lit(MISS2), lit(ROW)], False, 1)]}
    def misses(form, n):
        if form == "loop-ignore": return [("for", n, [inc([lit(MISS1), lit(MISS2)], True, 1)])]
        if form == "loop-fallback": return [("for", n, [inc([lit(MISS1), lit(ROW)], False, 1)])]
        if form == "loop-single-ignore": return [("for", n, [inc([lit(MISS1)], True)])]
        if form == "sequence": return [inc([lit(MISS1)], True) for _ in range(n)]
        if form == "sequence-list": return [inc([lit(MISS1), lit(MISS2), lit(ROW)], False, 1) for _ in range(n)]
    def build(where, body):
        if where == "top": return {1: [text("M(")] + body + [text(")")]}
        if where == "block": return {1: [text("M("), blk(A, body), text(")")]}
        if where == "child-block": return {1: [("extends", lit(BASE)), blk(A, body + [SUPER])], BASE: [text("B("), blk(A, [text("ba")]), text(")")]}
    world = {ROW: [text("r")]}
    # default limit: 49 misses would exhaust it if they leaked
    for n in (3, 10, 48, 49, 50, 60, 120, 200):
        for form in ("loop-ignore", "loop-fallback", "loop-single-ignore", "sequence", "sequence-list"):
            if form.startswith("sequence") and n > 120:
                continue
            for where in ("top", "block", "child-block"):
                for tname, tail in tails(6).items():
                    if where != "top" and tname in ("for", "list"):
                        continue
                    t = dict(world); t.update(nest(6)); t.update(build(where, misses(form, n) + [text("|")] + tail))
                    cases.append(Case(t, 1, kind="miss-history/%s/%s/%d" % (where, form, n)))
    # small limits: a few misses, then a nesting right at the limit (both sides of the boundary)
    for k in (1, 2, 3, 4):
        for lim in (10 * k + 1, 10 * k + 2, 10 * k + 3, 10 * k + 5, 10 * k + 9):
            for n in (0, 1, 2, 5):
                for form in ("loop-ignore", "sequence", "sequence-list"):
                    for where in ("top", "block"):
                        t = dict(world); t.update(nest(k)); t.update(build(where, misses(form, n) + [text("|"), inc([lit(NEST0)])]))
                        cases.append(Case(t, 1, lim=lim, kind="miss-history-limit/%s/%s" % (where, form)))


def gen_cycle_members(chk, cases):
    """inheritance cycles whose members do something at their top level (include, import, from-import, macro, loop, a block
    with an include): the cycle must still be reported - the record of extended templates survives includes"""
    ROW, LIB, MISS = 10, 12, 8
    M, X = VAR["m"], VAR["x"]
    world = {ROW: [text("r")], LIB: [("set", X, T("X")), ("macro", VAR["f"], [text("F")])]}
    extras = {
        "include": [inc([lit(ROW)])],
        "include-list": [inc([lit(MISS), lit(ROW)], False, 1)],
        "include-ignore-missing": [inc([lit(MISS)], True)],
        "import": [("import", lit(LIB), M)],
        "from": [("from", lit(LIB), [(X, X)])],
        "include+import": [inc([lit(ROW)]), ("import", lit(LIB), M), inc([lit(MISS)], True)],
        "include-in-loop": [("for", 2, [inc([lit(ROW)])])],
        "include-in-block": [blk(D, [inc([lit(ROW)])])],
        "macro-call": [("macro", VAR["w"], [inc([lit(ROW)])]), ("call", VAR["w"], T("P"))],
    }
    for n in (2, 3, 4):
        for member in range(1, n + 1):
            for ename, extra in extras.items():
                for pos in ("after", "before"):
                    if n == 4 and (pos == "before" or member not in (1, 3)):
                        continue
                    t = dict(world)
                    for i in range(1, n + 1):
                        t[i] = [("extends", lit(i % n + 1)), text("x%d" % i)]
                    t[member] = (t[member][:1] + extra + t[member][1:]) if pos == "after" else (extra + t[member])
                    for start in sorted({1, member}):
                        cases.append(Case(dict(t), start, kind="cycle-member/%s/%s" % (ename, pos)))
    # a chain that is NOT a cycle, with the same top-level statements: must still render
    for ename, extra in extras.items():
        t = dict(world)
        t[1] = [("extends", lit(2))] + extra + [blk(A, [text("a1"), SUPER])]
        t[2] = [("extends", lit(3))] + extra + [blk(A, [text("a2"), SUPER])]
        t[3] = [text("R(")] + extra + [blk(A, [text("a3")]), text(")")]
        cases.append(Case(t, 1, kind="chain-member/%s" % ename))


def gen_multidir(chk, cases):
    """templates in several directories under a path join callback: the SAME written relative name ("./_part") names a
    different template in each directory; every reference resolves relative to the template whose text contains the tag"""
    M, X, F = VAR["m"], VAR["x"], VAR["f"]
    HOME, IA, IB, PA, PB, BASEA, BASEB, MISSA = 1, 2, 3, 10, 11, 12, 13, 8
    dirs = ("blog", "shop")
    def layout(extra=None):
        lay = {HOME: ("site", "home"), IA: (dirs[0], "index"), IB: (dirs[1], "index"), PA: (dirs[0], "_part"), PB: (dirs[1], "_part"),
               BASEA: (dirs[0], "_base"), BASEB: (dirs[1], "_base")}
        lay.update(extra or {})
        return lay
    parts_plain = {PA: [text("<blog-part>")], PB: [text("<shop-part>")]}
    parts_lib = {PA: [("set", X, T("blog-x")), ("macro", F, [text("blog-f"), ("print", V_PARAM)])],
                 PB: [("set", X, T("shop-x")), ("macro", F, [text("shop-f"), ("print", V_PARAM)])]}
    def use(kind, part):
        """statements that refer to the directory's own _part (written "./_part" in both directories)"""
        if kind == "include": return [inc([lit(part)])]
        if kind == "include-list": return [inc([lit(MISSA), lit(part)], False, 1)]
        if kind == "include-ignore": return [inc([lit(part)], True)]
        if kind == "include-loop": return [("for", 2, [inc([lit(part)])])]
        if kind == "include-macro": return [("macro", VAR["w"], [inc([lit(part)])]), ("call", VAR["w"], T("P"))]
        if kind == "include-block": return [blk(B, [inc([lit(part)])])]
        if kind == "import": return [("import", lit(part), M), ("pattr", M, X), ("cattr", M, F, T("1"))]
        if kind == "from": return [("from", lit(part), [(X, X), (F, F)]), ("print", X), ("call", F, T("1"))]
    kinds = ("include", "include-list", "include-ignore", "include-loop", "include-macro", "include-block", "import", "from")
    for ka in kinds:
        for kb in kinds:
            parts = parts_lib if ("import" in (ka, kb) or "from" in (ka, kb)) else parts_plain
            if (ka in ("import", "from")) != (kb in ("import", "from")) :
                continue
            for order in ((IA, IB), (IB, IA), (IA, IB, IA)):
                t = dict(parts)
                t[IA] = [text("blog[")] + use(ka, PA) + [text("]")]
                t[IB] = [text("shop[")] + use(kb, PB) + [text("]")]
                t[HOME] = [text("H(")] + [z for i in order for z in (inc([lit(i)]), text("|"))] + [text(")")]
                lay = layout()
                cases.append(Case(t, HOME, kind="multidir/siblings/%s/%s" % (ka, kb), layout={k: lay[k] for k in t}, loader=(len(order) == 3)))
            # the home template lives in one of the directories and uses the name itself before including the other
            t = dict(parts)
            t[IA] = [text("blog[")] + use(ka, PA) + [text("|"), inc([lit(IB)]), text("|")] + use("include" if parts is parts_plain else "import", PA)[:2] + [text("]")]
            t[IB] = [text("shop[")] + use(kb, PB) + [text("]")]
            lay = layout()
            cases.append(Case(t, IA, kind="multidir/nested/%s/%s" % (ka, kb), layout={k: lay[k] for k in t}))
    # an inherited block defined in another directory, next to super(): each definition names its own directory's _part
    for k in ("include", "include-list", "include-loop", "import", "from"):
        parts = parts_lib if k in ("import", "from") else parts_plain
        for childfirst in (False, True):
            t = dict(parts)
            t[IA] = [text("L(")] + [blk(A, [text("layout:")] + use(k, PA))] + [text(")")]
            child_body = ([text("page:")] + use(k, PB) + [text("+"), SUPER]) if childfirst else ([SUPER, text("+page:")] + use(k, PB))
            t[IB] = [("extends", lit(IA)), blk(A, child_body)]
            lay = layout()
            cases.append(Case(t, IB, kind="multidir/inherited-block/%s" % k, layout={kk: lay[kk] for kk in t}))
    # the same written name in extends tags: each directory has its own _base
    for order in ((IA, IB), (IB, IA)):
        t = {BASEA: [text("blogbase("), blk(A, [text("ba")]), text(")")], BASEB: [text("shopbase("), blk(A, [text("sa")]), text(")")],
             IA: [("extends", lit(BASEA)), blk(A, [text("blog:"), SUPER])], IB: [("extends", lit(BASEB)), blk(A, [text("shop:"), SUPER])]}
        t[HOME] = [text("H(")] + [z for i in order for z in (inc([lit(i)]), text("|"))] + [text(")")]
        lay = layout()
        cases.append(Case(t, HOME, kind="multidir/extends", layout={k: lay[k] for k in t}))
    # a cycle through two directories with relative names
    t = {IA: [("extends", lit(IB)), inc([lit(PA)])], IB: [("extends", lit(IA)), inc([lit(PB)])]}
    t.update(parts_plain)
    lay = layout()
    cases.append(Case(t, IA, kind="multidir/cycle", layout={k: lay[k] for k in t}))


def gen_captures(chk, cases):
    """modules whose names are defined by every defining construct (set, set-block, macro, re-exporting from-import / import,
    loop-local set) and whose body contains captures; imported with import / from-import at every placement (a from-import
    renders the module under a DISCARDING output: a set-block inside it must still capture), and the same constructs at the
    top level of an extending template, used inside its blocks"""
    G, Sv, M, X, Y, Z_, W, F, F2, Q, U, INNER, K = (VAR[c] for c in "gsmxyzwfhquik")
    LIB, LIB2, BASE = 12, 13, 5
    lib2 = [("set", Z_, T("Z")), text("lib2body"), ("setblock", W, [text("W"), ("print", G)])]
    lib = [text("b1"), ("set", X, T("X")), ("setblock", Y, [text("Y("), ("print", G), ("print", X), text(")")]),
           ("macro", F, [text("F"), ("print", V_PARAM), ("print", G)]), ("macro", F2, [text("F2"), ("print", X), ("print", V_PARAM)]),
           ("from", lit(LIB2), [(Z_, Z_), (W, W)]), ("import", lit(LIB2), INNER), ("for", 1, [("set", U, T("U")), ("setblock", Q, [text("q")])]),
           ("setblock", K, [text("K["), inc([lit(LIB2)]), ("for", 2, [("print", V_LOOP)]), text("]")]), text("b2")]
    world = {LIB: lib, LIB2: lib2, BASE: [text("B("), blk(A, [text("ba")]), text(")")]}
    uses = {
        "import-as": [("import", lit(LIB), M), ("keys", M), text("|"), ("print", M), text("|")] + [z for v in (X, Y, Z_, W, K, U, Q) for z in (("pattr", M, v), text(","))]
                     + [("cattr", M, F, T("a")), ("cattr", M, F2, T("b")), ("pattr", M, INNER)],
        "from": [("from", lit(LIB), [(X, X), (Y, Y), (Z_, Z_), (W, W), (K, K), (F, F), (F2, F2), (INNER, Q), (U, U)])]
                + [z for v in (X, Y, Z_, W, K, U) for z in (("print", v), text(","))] + [("call", F, T("a")), ("call", F2, T("b")), ("print", Q), ("pattr", Q, Z_)],
        "from-aliases": [("from", lit(LIB), [(Y, X), (X, Y)]), ("print", X), text(","), ("print", Y)],
        "setblock-local": [("setblock", Y, [text("local("), ("print", G), inc([lit(LIB2)]), text(")")]), ("print", Y), ("print", Y)],
        "setblock-nested": [("setblock", Y, [text("o("), ("setblock", X, [text("i"), ("print", G)]), ("print", X), ("print", X), text(")")]), ("print", Y)],
    }
    def place(where, body):
        if where == "top": return {1: [text("M(")] + body + [text(")")]}
        if where == "for": return {1: [text("M("), ("for", 2, [text("(")] + body + [text(")")]), text(")")]}
        if where == "macro": return {1: [("macro", VAR["w"], [text("(")] + body + [text(")")]), text("M("), ("call", VAR["w"], T("P")), text(")")]}
        if where == "block": return {1: [text("M("), blk(A, [text("[")] + body + [text("]")]), text(")")]}
        if where == "child-block": return {1: [("extends", lit(BASE)), blk(A, [text("[")] + body + [SUPER, text("]")])]}
        if where == "from-imported": return {1: [("from", lit(2), [(X, X), (Y, Y)]), ("print", X), text("|"), ("print", Y)], 2: body}
        if where == "imported": return {1: [("import", lit(2), VAR["v"]), ("print", VAR["v"]), text("|"), ("pattr", VAR["v"], Y)], 2: body}
    for where in ("top", "for", "macro", "block", "child-block", "from-imported", "imported"):
        for uname, body in uses.items():
            for ctx in ({G: T("G")}, {}):
                t = dict(world); t.update(place(where, body))
                cases.append(Case(t, 1, dict(ctx), kind="captures/%s/%s" % (where, uname)))
    # the top level of an extending template: set-blocks, imports and macros used inside its blocks (the text there is
    # discarded, the values are not) - the specification does not speak about these (wf = 0): engine vs model
    MM = VAR["w"]
    for variant in range(4):
        top = [("setblock", Sv, [text("Hi "), ("print", G)]), ("import", lit(LIB), M), ("from", lit(LIB), [(Y, Y), (K, K)]),
               ("macro", MM, [text("mm"), ("print", V_PARAM)]), ("set", X, T("plain"))]
        if variant == 1: top = top[:1]
        if variant == 2: top = top[1:3]
        if variant == 3: top = [("setblock", Sv, [text("o"), ("setblock", X, [text("i")]), ("print", X)]), ("import", lit(LIB2), M)]
        body = [("print", Sv), text("|")]
        if variant in (0, 2): body += [("print", M), text("|"), ("pattr", M, Y), text("|"), ("print", Y), ("print", K), ("cattr", M, F, T("a"))]
        if variant == 0: body += [("call", MM, T("z")), ("print", X)]
        if variant == 3: body += [("print", M), ("pattr", M, W), ("print", X)]
        t = dict(world); t[1] = [("extends", lit(BASE))] + top + [blk(A, body + [SUPER])]
        for ctx in ({G: T("G")}, {}):
            cases.append(Case(t, 1, dict(ctx), kind="captures/child-top-level/%d" % variant))
        t2 = dict(t); t2[1] = [("extends", lit(2))] + top + [blk(A, body + [SUPER])]; t2[2] = [("extends", lit(BASE)), ("setblock", Sv, [text("mid")]), blk(A, [text("m:"), ("print", Sv), SUPER])]
        cases.append(Case(t2, 1, {G: T("G")}, kind="captures/child-top-level-chain/%d" % variant))


def gen_alias_closures(chk, cases):
    """from-import WITH an alias inside macro bodies, loops, blocks, while the ORIGINAL name is also bound in the importing
    template (variable, macro, loop variable) and read by the same body: the import binds the alias only"""
    G, TI, FL, TT, LF, OT, SHOW = (VAR[c] for c in "gtfalos")
    LIB = 12
    world = {LIB: [("set", TI, T("lib-title")), ("macro", FL, [text("libfield"), ("print", V_PARAM)]), ("set", V_LOOP, T("lib-i")), ("set", OT, T("lib-other"))]}
    bodies = {
        "variable": ([("set", TI, T("page-title"))], [("from", lit(LIB), [(TI, TT)]), ("print", TT), text("/"), ("print", TI)]),
        "variable-after": ([("set", TI, T("page-title"))], [("print", TI), text("/"), ("from", lit(LIB), [(TI, TT)]), ("print", TT), text("/"), ("print", TI)]),
        "macro": ([("macro", FL, [text("pagefield"), ("print", V_PARAM)])], [("from", lit(LIB), [(FL, LF)]), ("call", LF, T("1")), text("/"), ("call", FL, T("2"))]),
        "two-aliases": ([("set", TI, T("page-title")), ("set", OT, T("page-other"))],
                        [("from", lit(LIB), [(TI, TT), (OT, LF)]), ("print", TT), ("print", LF), text("/"), ("print", TI), ("print", OT)]),
        "alias-shadows": ([("set", TI, T("page-title")), ("set", TT, T("page-alias"))], [("from", lit(LIB), [(TI, TT)]), ("print", TT), text("/"), ("print", TI)]),
        "no-alias": ([("set", TI, T("page-title"))], [("from", lit(LIB), [(TI, TI)]), ("print", TI)]),
        "context-name": ([], [("from", lit(LIB), [(TI, TT)]), ("print", TT), text("/"), ("print", TI), ("print", G)]),
        "import-as": ([("set", TI, T("page-title"))], [("import", lit(LIB), TT), ("pattr", TT, TI), text("/"), ("print", TI)]),
    }
    def wrap(where, pre, body):
        call = ("call", SHOW, 0)
        if where == "macro": return pre + [("macro", SHOW, body), text("M("), call, text(")")]
        if where == "macro-in-loop": return pre + [("for", 2, [("macro", SHOW, body), call, text(";")])]
        if where == "macro-in-block": return pre + [blk(A, [("macro", SHOW, body), call])]
        if where == "macro-loop-inside": return pre + [("macro", SHOW, [("for", 2, body + [text(";")])]), call]
        if where == "nested-macro": return pre + [("macro", SHOW, [("macro", VAR["w"], body), ("call", VAR["w"], 0)]), call]
        if where == "loop": return pre + [("for", 2, body + [text(";")])]
        if where == "block": return pre + [blk(A, body)]
        if where == "top": return pre + body
    for where in ("macro", "macro-in-loop", "macro-in-block", "macro-loop-inside", "nested-macro", "loop", "block", "top"):
        for bname, (pre, body) in bodies.items():
            for ctx in ({}, {TI: T("ctx-title"), G: T("G")}):
                t = dict(world); t[1] = wrap(where, pre, body)
                cases.append(Case(t, 1, dict(ctx), kind="alias/%s/%s" % (where, bname)))
    # the original name is the loop variable of the loop the macro is declared in
    body = [("from", lit(LIB), [(V_LOOP, TT)]), ("print", TT), text("/"), ("print", V_LOOP)]
    t = dict(world); t[1] = [("for", 3, [("macro", SHOW, body), ("call", SHOW, 0), text(";")])]
    cases.append(Case(t, 1, kind="alias/loop-variable"))
    t = dict(world); t[1] = [("for", 3, body + [text(";")])]
    cases.append(Case(t, 1, kind="alias/loop-variable"))


CONFIGS = {
    "unknown-method-declines": {"unknown_method": "decline"},
    "unknown-method-handles-other": {"unknown_method": "handle"},
    "formatter": {"formatter": True},
    "auto-escape-callback": {"auto_escape": "none"},
    "whitespace-settings": {"settings": {"trim_blocks": True, "lstrip_blocks": True, "keep_trailing_newline": True}},
    "debug": {"debug": True},
    "all": {"unknown_method": "handle", "formatter": True, "auto_escape": "none", "debug": True,
            "settings": {"trim_blocks": True, "lstrip_blocks": True, "keep_trailing_newline": True}},
}


def gen_import_spellings(chk, cases):
    """every spelling of using what an import exposes (m.f(), m["f"](), via set, from-import, aliases) at every placement,
    under every environment configuration that must not matter"""
    G, M, X, F, F2, K, Q = (VAR[c] for c in "gmxfhkq")
    LIB, BASE = 12, 5
    world = {LIB: [("set", X, T("X")), ("macro", F, [text("hello "), ("print", V_PARAM)]), ("macro", F2, [text("F2"), ("print", X), ("print", V_PARAM)]), text("body")],
             BASE: [text("B("), blk(A, [text("ba")]), text(")")]}
    def uses(style):
        return {"module": [("import", lit(LIB), M), ("cattr", M, F, T("World"), style), text("|"), ("cattr", M, F2, T("b"), style), text("|"), ("pattr", M, X)],
                "from": [("from", lit(LIB), [(F, F), (F2, K)]), ("call", F, T("World")), text("|"), ("call", K, T("b"))],
                "module-from-module": [("import", lit(LIB), M), ("from", lit(LIB), [(F, Q)]), ("cattr", M, F, T("a"), style), ("call", Q, T("b"))]}
    def place(where, body):
        if where == "top": return {1: [text("M(")] + body + [text(")")]}
        if where == "for": return {1: [text("M("), ("for", 2, [text("(")] + body + [text(")")]), text(")")]}
        if where == "macro": return {1: [("macro", VAR["w"], [text("(")] + body + [text(")")]), text("M("), ("call", VAR["w"], T("P")), text(")")]}
        if where == "block": return {1: [text("M("), blk(A, [text("[")] + body + [text("]")]), text(")")]}
        if where == "child-block": return {1: [("extends", lit(BASE)), blk(A, [text("[")] + body + [SUPER, text("]")])]}
        if where == "child-top-level": return {1: [("extends", lit(BASE))] + body[:1] + [blk(A, [text("[")] + body[1:] + [SUPER, text("]")])]}
        if where == "included": return {1: [text("M("), inc([lit(2)]), text(")")], 2: body}
    for style in (0, 1, 2, 3):
        for uname, body in uses(style).items():
            if style and uname == "from":
                continue
            for where in ("top", "for", "macro", "block", "child-block", "child-top-level", "included"):
                for cname, cfg in [("default", {})] + sorted(CONFIGS.items()):
                    t = dict(world); t.update(place(where, body))
                    cases.append(Case(t, 1, {G: T("G")}, kind="import-spelling/%s/%s/%d/%s" % (where, uname, style, cname), config=cfg))


def gen_join_callbacks(chk, cases):
    """the joined name is callback(written name, referring template) ALWAYS: referring templates whose own names have no
    directory part (top-level names, render_named_str templates, names with dots), written names that need normalisation
    ("./x", "x", "zz/../x", "./zz/.././x"), the documented callback and arbitrary mappings (prefixing, lower-casing)"""
    G, M, X, F = (VAR[c] for c in "gmxf")
    MAIN, MID, BASE, PART, LIB, MISS = 1, 2, 3, 10, 12, 8
    def world():
        return {MAIN: [("extends", lit(MID)), blk(A, [text("main:"), inc([lit(PART)]), SUPER])],
                MID: [("extends", lit(BASE)), blk(A, [text("mid:"), SUPER])],
                BASE: [text("B("), blk(A, [text("base")]), text(")"), inc([lit(MISS), lit(PART)], False, 1), inc([lit(MISS)], True)],
                PART: [text("<part>")]}
    extras = {
        "plain": {},
        "import": {MAIN: [("import", lit(LIB), M), ("cattr", M, F, T("a")), ("from", lit(LIB), [(X, X)]), ("print", X), inc([lit(PART)], True)],
                   LIB: [("set", X, T("X")), ("macro", F, [text("F"), ("print", V_PARAM)])]},
        "include-ignore": {MAIN: [text("["), inc([lit(PART)], True), text("]["), inc([lit(MISS), lit(PART)], True, 1), text("]")]},
        "self-cycle": {MAIN: [("extends", lit(MAIN)), text("x")]},
        "two-cycle": {MAIN: [("extends", lit(MID))], MID: [("extends", lit(MAIN))]},
        "loop": {MAIN: [("for", 2, [inc([lit(PART)])])]},
    }
    layouts = {
        "all-top-level": {MAIN: ("", "index.txt"), MID: ("", "mid.txt"), BASE: ("", "base.txt"), PART: ("", "part.txt"), LIB: ("", "lib.txt")},
        "main-top-level": {MAIN: ("", "index.txt"), MID: ("layouts", "mid.txt"), BASE: ("layouts", "base.txt"), PART: ("", "part.txt"), LIB: ("layouts", "lib.txt")},
        "main-in-folder": {MAIN: ("pages", "index.txt"), MID: ("layouts", "mid.txt"), BASE: ("", "base.txt"), PART: ("pages", "part.txt"), LIB: ("", "lib.txt")},
        "dotted-names": {MAIN: ("", "index."), MID: ("", "mid.."), BASE: ("", ".base"), PART: ("", "part.v1.txt"), LIB: ("", "lib.")},
    }
    for lname, lay in layouts.items():
        for ename, extra in extras.items():
            for ws in (0, 1, 2, 3):
                for named in (False, True):
                    for loader in (False, True):
                        if named and loader:
                            continue
                        t = world(); t.update(extra)
                        cases.append(Case(t, MAIN, kind="join/%s/%s" % (lname, ename), layout={k: lay[k] for k in t}, wstyle=ws, named_str=named, loader=loader))
    # arbitrary mappings: every written name is prefixed / lower-cased, whoever refers to it
    for mode in ("prefix", "lower"):
        for ename, extra in extras.items():
            for named in (False, True):
                t = world(); t.update(extra)
                cases.append(Case(t, MAIN, kind="join-mapping/%s/%s" % (mode, ename), pjmode=mode, named_str=named, loader=not named))


def gen_named_roots(chk, cases):
    """a string template rendered under the NAME of a stored template of its own chain (render_named_str("layout", "{% extends
    'layout' %}..")): a distinct template that shares a name - the chain is acyclic; and a guarded self-extends taken once"""
    G, N = VAR["g"], VAR["n"]
    ROOT, P, GP = 4, 1, 2
    for chainlen in (1, 2, 3):
        stored = {}
        for i in range(1, chainlen + 1):
            last = i == chainlen
            stored[i] = ([] if last else [("extends", lit(i + 1))]) + ([text("R(")] if last else [text("x")]) + \
                        [blk(A, [text("s%d:" % i)] + ([] if last else [SUPER]))] + ([text(")"), blk(Cc, [text("c%d" % i)])] if last else [])
        for same_as in range(1, chainlen + 1):
            for form in ("literal", "variable", "conditional"):
                for opt in (1, 2, 3):
                    ctx = {}
                    if form == "literal": head = ("extends", lit(1))
                    elif form == "variable": head = ("extends", nvar("n")); ctx[N] = 1
                    else: head = ("condext", G, lit(1)); ctx[G] = T("yes")
                    t = dict(stored)
                    t[ROOT] = [head, text("dropped"), blk(A, body_of("custom", opt)), blk(Cc, [text("cc"), SUPER])]
                    for loader in (False, True):
                        cases.append(Case(t, ROOT, ctx, kind="named-root/%d/%s" % (chainlen, form), named_str=True, named_as=same_as, loader=loader))
                    cases.append(Case(t, ROOT, ctx, kind="named-root+pathjoin/%d/%s" % (chainlen, form), named_str=True, named_as=same_as, pathjoin=True))
    # a template that uses itself as its layout exactly once (the guard is a variable it switches off)
    for ctx in ({G: T("go")}, {}):
        t = {1: [("condext", G, lit(1)), ("set", G, 0), text("("), blk(A, [text("c")]), text(")")]}
        cases.append(Case(t, 1, dict(ctx), kind="guarded-self-extends"))
        t = {1: [("condext", G, lit(1)), ("set", G, 0), text("("), blk(A, [text("c"), SUPER]), text(")")]}
        cases.append(Case(t, 1, dict(ctx), kind="guarded-self-extends"))
        t = {1: [("condext", G, lit(2)), text("(1)"), blk(A, [text("a1"), SUPER])], 2: [("condext", G, lit(1)), ("set", G, 0), text("(2"), blk(A, [text("a2")]), text(")")]}
        cases.append(Case(t, 1, dict(ctx), kind="guarded-self-extends"))


def gen_underscore_names(chk, cases):
    """identifiers with underscores (_ , __x, _x, x_) as variables, macros, set-blocks, aliases and module names: an import
    exposes them like any other name"""
    U0, UU, UX, XU, G, M, K = -3, -2, -1, 92, VAR["g"], VAR["m"], VAR["k"]
    LIB, BASE = 12, 5
    lib = [("set", U0, T("u")), ("set", UU, T("dx")), ("macro", UX, [text("W"), ("print", V_PARAM), ("print", UU)]), ("setblock", XU, [text("sb"), ("print", U0)]),
           ("set", K, T("plain")), text("body")]
    world = {LIB: lib, BASE: [text("B("), blk(A, [text("ba")]), text(")")]}
    uses = {
        "import-as": [("import", lit(LIB), M), ("keys", M), text("|"), ("pattr", M, U0), ("pattr", M, UU), ("cattr", M, UX, T("2")), ("pattr", M, XU), ("pattr", M, K)],
        "import-as-underscore": [("import", lit(LIB), UX), ("keys", UX), text("|"), ("pattr", UX, U0), ("cattr", UX, UX, T("2"), 1), ("print", UX)],
        "from": [("from", lit(LIB), [(UX, UX), (U0, U0), (UU, UU), (XU, XU)]), ("call", UX, T("3")), ("print", U0), ("print", UU), ("print", XU)],
        "from-aliases": [("from", lit(LIB), [(UX, K), (U0, XU), (K, U0)]), ("call", K, T("3")), ("print", XU), ("print", U0)],
        "local": [("set", U0, T("l")), ("setblock", UU, [text("b"), ("print", U0)]), ("macro", UX, [("print", UU), ("print", V_PARAM)]), ("call", UX, T("4")), ("print", UU)],
    }
    def place(where, body):
        if where == "top": return {1: [text("M(")] + body + [text(")")]}
        if where == "for": return {1: [text("M("), ("for", 2, [text("(")] + body + [text(")")]), text(")")]}
        if where == "macro": return {1: [("macro", VAR["w"], [text("(")] + body + [text(")")]), text("M("), ("call", VAR["w"], T("P")), text(")")]}
        if where == "block": return {1: [text("M("), blk(A, [text("[")] + body + [text("]")]), text(")")]}
        if where == "child-block": return {1: [("extends", lit(BASE)), blk(A, [text("[")] + body + [SUPER, text("]")])]}
        if where == "reexport": return {1: [("import", lit(2), VAR["v"]), ("keys", VAR["v"]), ("print", VAR["v"])], 2: body}
    for where in ("top", "for", "macro", "block", "child-block", "reexport"):
        for uname, body in uses.items():
            t = dict(world); t.update(place(where, body))
            cases.append(Case(t, 1, {G: T("G")}, kind="underscore/%s/%s" % (where, uname)))


def gen_variants(chk, cases):
    """the same configurations served lazily through a loader, and under a path join callback with relative names"""
    rng = chk.rng
    base = [c for c in cases if not c.loader and not c.pathjoin and c.layout is None and not c.config and c.named_as is None]
    extra = []
    for k in range(12000 if chk.thorough else 1500):
        c = rng.choice(base)
        mode = k % 3
        extra.append(Case(c.templates, c.main, c.ctx, c.lim, kind=c.kind.split("/")[0] + ("+loader", "+pathjoin", "+loader+pathjoin")[mode],
                          loader=mode != 1, pathjoin=mode != 0))
    # environment configuration that must not matter, on a sample of everything
    for k in range(20000 if chk.thorough else 2400):
        c = rng.choice(base)
        cname = sorted(CONFIGS)[k % len(CONFIGS)]
        extra.append(Case(c.templates, c.main, c.ctx, c.lim, kind=c.kind.split("/")[0] + "+config:" + cname, config=CONFIGS[cname],
                          named_str=(k % 5 == 0), pjmode=("lower" if k % 7 == 0 else None), wstyle=k % 4, pathjoin=(k % 3 == 0)))
    # inheritance cycles under relative names (the loaded set holds joined names)
    for n in (1, 2, 3):
        t = chain_templates([(1, 0, 0)] * n, 0)
        t[n] = [("extends", lit(1)), text("x")] + t[n][1:]
        extra.append(Case(t, 1, kind="extends-cycle+pathjoin", loader=True, pathjoin=True))
    cases.extend(extra)


def gen_outside_fragment(chk, cases):
    """the model follows the engine here, the specification does not speak about these (wf = 0): correspondence only"""
    G, Sv, Vv, M, X, F = (VAR[c] for c in "gsvmxf")
    base = {5: [text("B("), blk(A, [text("ba")]), text(")")]}
    lib = {12: [("set", X, T("X")), ("macro", F, [text("F"), ("print", V_PARAM)]), text("junk")]}
    t = dict(base); t[1] = [text("before"), ("extends", lit(5)), text("after"), blk(A, [text("ca"), SUPER])]
    cases.append(Case(t, 1, kind="outside/text-before-extends"))
    t = dict(base); t.update(lib); t[1] = [("extends", lit(5)), ("set", Sv, T("S")), ("import", lit(12), M), blk(A, [("print", Sv), ("cattr", M, F, T("q")), ("pattr", M, X)])]
    cases.append(Case(t, 1, kind="outside/import-in-child"))
    t = dict(base); t[10] = [text("<"), ("set", Vv, T("V")), blk(A, [text("never")]), text(">")]; t[1] = [("extends", lit(5)), inc([lit(10)]), blk(A, [("print", Vv)])]
    cases.append(Case(t, 1, kind="outside/include-in-child"))
    t = dict(base); t[1] = [("extends", lit(5)), inc([lit(9)]), blk(A, [text("x")])]
    cases.append(Case(t, 1, kind="outside/failing-include-in-child"))
    t = dict(base); t[1] = [("extends", lit(5)), ("for", 2, [text("loop"), ("self", A)]), ("if", G, [text("cond")]), blk(A, [text("x")])]
    cases.append(Case(t, 1, {G: T("G")}, kind="outside/statements-in-child"))
    t = dict(base); t[1] = [text("M"), ("condext", G, lit(5)), blk(A, [text("x")])]
    for ctx in ({G: T("G")}, {}):
        cases.append(Case(t, 1, dict(ctx), kind="outside/text-before-conditional-extends"))


# ----------------------------------------------------------------------------------------
# the check
# ----------------------------------------------------------------------------------------
QUIRKS = {1: "perform_include passes the includer's current block to the included template",
          2: "loaded_templates is carried into an include",
          4: "call_block renders the definition under the super() cursor",
          8: "from-import looks names up through all scopes"}


def run_engine(reqs, release, jobs=16):
    """the requests through `prog`, split over several processes"""
    from concurrent.futures import ThreadPoolExecutor
    if len(reqs) < 64:
        return run_prog(reqs, release=release, watchdog_ms=4000)
    # round robin, so that a family of hanging cases (4 s watchdog each) spreads over all processes
    idx = [list(range(j, len(reqs), jobs)) for j in range(jobs)]
    with ThreadPoolExecutor(max_workers=jobs) as ex:
        parts = list(ex.map(lambda ix: run_prog([reqs[i] for i in ix], release=release, watchdog_ms=4000), idx))
    out = [None] * len(reqs)
    for ix, part in zip(idx, parts):
        for i, r in zip(ix, part):
            out[i] = r
    return out


def agree(engine, model):
    """engine answer vs model/spec answer (a recursion-limit error of the model is an error of that kind)"""
    if model[0] == "limit": return engine == ("err", model[1])
    return engine == model


def all_cases(chk):
    cases = []
    gen_chains(chk, cases)
    gen_extends_forms(chk, cases)
    gen_errors(chk, cases)
    gen_placements(chk, cases)
    gen_unloadable(chk, cases)
    gen_miss_history(chk, cases)
    gen_cycle_members(chk, cases)
    gen_multidir(chk, cases)
    gen_captures(chk, cases)
    gen_alias_closures(chk, cases)
    gen_import_spellings(chk, cases)
    gen_join_callbacks(chk, cases)
    gen_named_roots(chk, cases)
    gen_underscore_names(chk, cases)
    gen_outside_fragment(chk, cases)
    gen_variants(chk, cases)
    return cases


def replay_payload(c, extra):
    d = c.describe()
    d.update(extra)
    d["tree"] = {"templates": repr(c.templates), "main": c.main, "ctx": repr(c.ctx), "lim": c.lim, "loader": c.loader, "pathjoin": c.pathjoin, "layout": repr(c.layout), "config": c.config, "pjmode": c.pjmode, "wstyle": c.wstyle, "named_str": c.named_str, "named_as": c.named_as,
                 "texts": {str(k): v for k, v in TAB.text.items()}}
    d["how"] = "./check C06 --replay <this file>"
    return d


def load_replay(path):
    rp = json.load(open(path))["replay"]["tree"]
    for k, v in rp["texts"].items():
        TAB.text[int(k)] = v
        TAB.rev[v] = int(k)
    return [Case(eval(rp["templates"]), rp["main"], eval(rp["ctx"]), rp["lim"], kind="replay", loader=rp.get("loader", False), pathjoin=rp.get("pathjoin", False), layout=eval(rp.get("layout", "None")),
                 config=rp.get("config"), pjmode=rp.get("pjmode"), wstyle=rp.get("wstyle", 0), named_str=rp.get("named_str", False), named_as=rp.get("named_as"))]


def main():
    chk = Check("C06", "proof")
    chk.cov["trusted_base"] = TRUSTED_COMMON + [
        "Print Assumptions of the C06 theorems: see coverage.theorems (closed under the global context)",
        "tools/props/C06.py: the template printer / integer encoder of the shared tree and C06/Runner.v (decoder) are unverified glue; the parser and compiler of the engine are covered by rendering the printed source",
        "the model works on the template tree, not on the instruction stream: that each construct compiles to the instructions the model lists is observed through the engine = model comparison, not proved"]
    chk.assumptions = [
        "fragment: text, {{ var }}, set, set-blocks, if, for over range(n), blocks (nested, required), super(), self.block(), extends (literal / variable / conditional) at the head of a template, include (name / variable / list, ignore missing), one-parameter macros with closures (snapshot of the enclosed names at the declaration), import / from-import with aliases, module attribute / call / iteration / body; string values; default (lenient) undefined behaviour; no auto-escaping",
        "inherit_correct speaks about templates whose extends tags come first and which, when they have one, consist of blocks, text, {{ var }} and self.block() besides (Spec.wf_env); statements at the top level of an extending template, text before an extends tag and macro closures are compared engine-vs-model only or excluded by the generator",
        "the theorems are about the code after the four fix commits (Model.fixed_code); the recursion limit is modelled (depth accounting of frames, includes +10, macros +4, blocks / super() +5 while they run), compared with the engine on the recursion / depth-boundary cases, and by limit_only_adds_errors it only turns results into (marked) errors; that every include cycle ends in such an error is observed, not proved"]
    okm, blog = build_models("C06")
    proofs_ok = chk.run_proofs()
    okc, clog = cargo_build(["prog"], release=False)
    okr, clog2 = cargo_build(["prog"], release=True)
    if not (okc and okr):
        chk.violation("harness does not build against the current tree", {"theorem_or_correspondence": "build harness/src/bin/prog.rs", "log": (clog + clog2)[-1500:]}, True)
        chk.finish()
    if not okm:
        chk.violation("model build failed", {"theorem_or_correspondence": "coq/theories/C06 build", "log": blog[-1500:]}, True)
        chk.finish()
    cases = load_replay(chk.replay) if chk.replay else all_cases(chk)
    encs = [c.encode(0) for c in cases]
    model = [model_canon(o) for o in run_model("C06", "c06", encs)]
    spec = [model_canon(o) for o in run_model("C06", "c06-spec", encs)]
    wf = [o == [1] for o in run_model("C06", "c06-wf", encs)]
    reqs = [c.request() for c in cases]
    eng = {rel: [engine_canon(r) for r in run_engine(reqs, rel)] for rel in (False, True)}

    hist = collections.Counter()
    kinds = collections.Counter()
    nontriv = set()
    spec_bad, corr_bad, theorem_bad = [], [], []
    for i, c in enumerate(cases):
        kinds[c.kind.split("/")[0] + ("/" + c.kind.split("/")[1] if c.kind.startswith(("include/", "import/")) else "")] += 1
        m, sp = model[i], spec[i]
        hist["model:" + (m[0] if m[0] != "err" else "err_" + ERR_NAMES.get(m[1], str(m[1])))] += 1
        if not wf[i]: hist["outside_spec_fragment"] += 1
        for rel in (False, True):
            e = eng[rel][i]
            prof = "release" if rel else "debug"
            if e[0] == "crash":
                spec_bad.append((i, prof, e, "the engine crashed or hung"))
                continue
            if wf[i] and m[0] != "limit":
                if sp[0] == "gas":
                    if e[0] != "err":
                        spec_bad.append((i, prof, e, "a render that recurses forever was reported as success"))
                elif e != sp:
                    spec_bad.append((i, prof, e, "engine differs from the specification"))
            if not agree(e, m):
                corr_bad.append((i, prof, e))
        # the theorem, re-observed on the extracted functions: model = spec inside the fragment (limit errors apart)
        if wf[i] and m[0] != "limit" and m != sp:
            theorem_bad.append(i)
        if wf[i] and m[0] == "limit" and sp[0] != "gas":
            hist["limit_hit_on_finite_render"] += 1
        if c.loader: hist["served_by_loader"] += 1
        if c.pathjoin: hist["path_join_callback"] += 1
        ntmpl = len(c.templates)
        if ntmpl >= 2 and (m[0] in ("ok", "err", "limit")) and not (m[0] == "ok" and m[1] == ""):
            nontriv.add(json.dumps([reqs[i]["templates"], reqs[i].get("loader"), reqs[i]["ctx"], reqs[i]["main"]], sort_keys=True))

    # kernel cross-check of the extraction on a few small cases
    small = sorted(range(len(cases)), key=lambda i: (len(encs[i]), i))
    pick = small[:: max(1, len(small) // 10)][:10] if len(small) > 10 else small
    kcases = [[0, 40, 200] + encs[i][3:] for i in pick]          # small limit / fuel: cheap inside Coq
    kern = kernel_eval("run", kcases, "k_C06", imports="Common.Base C06.Runner")
    kmodel = run_model("C06", "c06", kcases)
    kern_ok = kern is not None and all(kern[j] == kmodel[j] for j in range(len(kcases)))

    chk.cov["evaluations"] = 2 * len(cases)
    chk.cov["distinct_nontrivial"] = len(nontriv)
    chk.cov["rule"] = ("exhaustive: every assignment of {absent, override, override + super() before, override + super() after} (+ nesting of c inside a) to blocks a, c for chains of 1-3 templates"
                       + (" and 4 templates" if chk.thorough else "; 4-template chains and the 3-block alphabet are seeded samples")
                       + "; dynamic / conditional extends over all 2-template assignments + samples; EMPTY definitions at every level (exhaustive over one block for 2-4 templates); include / import placements (top level, for loop, macro, block, block of an extending template) x naming forms x targets; templates that exist but do not load (syntax error / failing loader) in include lists, with ignore missing, import, extends, render; a sample of all configurations served through Environment::set_loader and under a path join callback with relative names; histories of 3-200 missed include lookups (loops over include lists with missing candidates, ignore missing, in sequence) followed by includes / blocks / loops / nestings, at the default limit and at small limits right at the boundary; inheritance cycles of 2-4 templates whose members include / import / from-import / call macros / loop at their top level (before or after the extends tag); multi-directory layouts under the path join callback where the same written relative name names a different template per directory (include, list, ignore missing, loop, macro, block, import, from, extends, inherited blocks next to super(), a cross-directory cycle); modules defined through every defining construct (set, set-block incl. nested / with includes and loops, macros with closures, re-exporting from-import / import, loop-local sets) imported by import / from-import at every placement, under a discarding output and at the top level of extending templates; aliased from-imports inside macros / nested macros / loops / blocks while the original name is a template variable, macro, loop variable or context variable read by the same body; every spelling of using an import (m.f(), m["f"](), set f = m.f, from-import, aliases) x placements x environment configurations that must not matter (unknown-method callback declining / handling another name, custom formatter, auto-escape callback, whitespace settings, debug), the same configurations on a sample of all families; path join callbacks (documented one, prefixing, lower-casing) with referring templates at top level / in folders / rendered with render_named_str / with dotted names and four spellings of relative names; string templates rendered under the name of a stored template of their own chain (parent, grandparent; literal / variable / conditional extends, super()), guarded self-extends taken once; identifiers with underscores (_, __x, _x, x_) as variables, macros, set-blocks, aliases and module names; cycles, double extends, missing templates, include cycles, recursion depth boundaries, required blocks. "
                       "Each case is rendered by the engine in a debug and a release build and evaluated by the extracted model and specification. "
                       "non-trivial = distinct (templates, context) with at least two templates whose render is a non-empty text or an error")
    chk.cov["exhaustive"] = False
    step = max(1, len(cases) // 6)
    chk.cov["samples"] = [dict(cases[i].describe(), engine=list(eng[False][i]), specification=list(spec[i])) for i in range(0, len(cases), step)][:7]
    chk.cov["distribution"] = {"kinds": dict(kinds), "outcomes": dict(hist)}
    chk.cov["engine_vs_specification_disagreements"] = len(spec_bad)
    chk.cov["engine_vs_model_disagreements"] = len(corr_bad)
    chk.cov["model_vs_specification_disagreements_in_fragment"] = len(theorem_bad)
    chk.cov["kernel_crosscheck"] = {"cases": len(kcases), "agree": kern_ok}

    # --- verdicts ---
    def legacy_note(i, e):
        """does the engine behave like the code before one of the fix commits?"""
        for q, what in QUIRKS.items():
            lm = model_canon(run_model("C06", "c06", [cases[i].encode(q)])[0])
            if agree(e, lm) or (e[0] == "crash" and lm[0] == "crash"):
                return "engine behaves like the code before the fix: " + what
        return None
    seen = set()
    for i, prof, e, why in spec_bad:
        key = (cases[i].kind.split("/")[0], why, e[0])
        if key in seen or len(seen) >= 6:
            continue
        seen.add(key)
        chk.violation(why, replay_payload(cases[i], {"profile": prof, "engine": list(e), "specification": list(spec[i]), "model": list(model[i]), "diagnosis": legacy_note(i, e)}))
    if not spec_bad:
        if corr_bad:
            i, prof, e = corr_bad[0]
            chk.violation("model and implementation disagree", replay_payload(cases[i], {"theorem_or_correspondence": "correspondence C06/Model.v (Runner.run) vs engine", "profile": prof,
                          "engine": list(e), "model": list(model[i]), "in_spec_fragment": wf[i], "count": len(corr_bad)}), True)
        if theorem_bad:
            i = theorem_bad[0]
            chk.violation("extracted model differs from extracted specification inside the fragment of inherit_correct", replay_payload(cases[i], {"theorem_or_correspondence": "inherit_correct (extraction)",
                          "model": list(model[i]), "specification": list(spec[i])}), True)
        if not kern_ok:
            chk.violation("kernel evaluation disagrees with the extracted model", {"theorem_or_correspondence": "vm_compute cross-check of extraction"}, True)
        if not proofs_ok:
            chk.violation("proof obligations of C06 do not check", {"theorem_or_correspondence": chk.proof["problems"]}, True)
    chk.finish()


if __name__ == "__main__":
    main()
