#!/usr/bin/env python3
"""C07 - value order / equality / hash laws and the collection filters' algebra (DESIGN.md §3 C07)."""
import os, sys, collections, itertools, struct, fractions
sys.path.insert(0, os.path.dirname(os.path.dirname(os.path.abspath(__file__))))
from vlib import *

# ----------------------------------------------------------------------------------------
# value descriptions (nested tuples) <-> integer lists (see harness/src/bin/c07.rs)
# ----------------------------------------------------------------------------------------
U = ('u',)
N = ('n',)
def B(b): return ('b', int(b))
def I(z, w=0): return ('i', w, z)
def F(x): return ('f', struct.unpack('<Q', struct.pack('<d', x))[0]) if isinstance(x, float) else ('f', x)
def S(s, safe=0): return ('s', safe, tuple(ord(c) for c in s))
def Y(bs): return ('y', tuple(bs))
def L(*xs): return ('l', tuple(xs))
def T(*xs): return ('t', tuple(xs))
def IT(sized, *xs): return ('it', sized, tuple(xs))
def M(*kvs): return ('m', tuple(kvs))
def P(s): return ('p', tuple(ord(c) for c in s))
def X(s): return ('x', tuple(ord(c) for c in s))       # invalid value (an InvalidOperation error with this detail)


def flat(v):
    t = v[0]
    if t == 'u': return [0]
    if t == 'n': return [1]
    if t == 'b': return [2, v[1]]
    if t == 'i': return [3, v[1], v[2]]
    if t == 'f': return [4, v[1]]
    if t == 's': return [5, v[1], len(v[2])] + list(v[2])
    if t == 'y': return [6, len(v[1])] + list(v[1])
    if t == 'l': return [7, len(v[1])] + [x for e in v[1] for x in flat(e)]
    if t == 't': return [8, len(v[1])] + [x for e in v[1] for x in flat(e)]
    if t == 'it': return [9, v[1], len(v[2])] + [x for e in v[2] for x in flat(e)]
    if t == 'm': return [10, len(v[1])] + [x for k, e in v[1] for x in flat(k) + flat(e)]
    if t == 'p': return [11, len(v[1])] + list(v[1])
    if t == 'x': return [12, len(v[1])] + list(v[1])
    if t == 'ref': return [14]
    raise ValueError(v)


def parse(tk, i=0):
    t = tk[i]
    if t == 0: return U, i + 1
    if t == 1: return N, i + 1
    if t == 2: return ('b', tk[i + 1]), i + 2
    if t == 3: return ('i', tk[i + 1], tk[i + 2]), i + 3
    if t == 4: return ('f', tk[i + 1]), i + 2
    if t == 5:
        n = tk[i + 2]; return ('s', tk[i + 1], tuple(tk[i + 3:i + 3 + n])), i + 3 + n
    if t == 6:
        n = tk[i + 1]; return ('y', tuple(tk[i + 2:i + 2 + n])), i + 2 + n
    if t in (7, 8):
        n = tk[i + 1]; j = i + 2; xs = []
        for _ in range(n):
            x, j = parse(tk, j); xs.append(x)
        return ('l' if t == 7 else 't', tuple(xs)), j
    if t == 9:
        n = tk[i + 2]; j = i + 3; xs = []
        for _ in range(n):
            x, j = parse(tk, j); xs.append(x)
        return ('it', tk[i + 1], tuple(xs)), j
    if t == 10:
        n = tk[i + 1]; j = i + 2; xs = []
        for _ in range(n):
            k, j = parse(tk, j); x, j = parse(tk, j); xs.append((k, x))
        return ('m', tuple(xs)), j
    if t == 11:
        n = tk[i + 1]; return ('p', tuple(tk[i + 2:i + 2 + n])), i + 2 + n
    if t == 12: return ('x', ()), i + 1
    raise ValueError("bad value encoding %r at %d" % (tk, i))


def show(v):
    t = v[0]
    if t == 'u': return "undefined"
    if t == 'n': return "none"
    if t == 'b': return "true" if v[1] else "false"
    if t == 'i': return "%d%s" % (v[2], ["", "u64", "i128", "u128"][v[1]])
    if t == 'f':
        x = struct.unpack('<d', struct.pack('<Q', v[1]))[0]
        return "f64(%r;bits=%#x)" % (x, v[1])
    if t == 's': return ["", "safe", "heap", "runtime"][v[1]] + repr("".join(chr(c) for c in v[2]))
    if t == 'y': return "b" + repr(bytes(v[1]))[1:]
    if t == 'l': return "[" + ", ".join(show(x) for x in v[1]) + "]"
    if t == 't': return "(" + ", ".join(show(x) for x in v[1]) + ",)"
    if t == 'it': return ["lazy?[", "lazy[", "linkedlist["][v[1]] + ", ".join(show(x) for x in v[2]) + "]"
    if t == 'm': return "{" + ", ".join(show(k) + ": " + show(x) for k, x in v[1]) + "}"
    if t == 'p': return "plain<" + "".join(chr(c) for c in v[1]) + ">"
    if t == 'x': return "invalid<" + "".join(chr(c) for c in v[1]) + ">"


def has_nan(v):
    """contains a NaN or an invalid value: the values that are not == to themselves"""
    t = v[0]
    if t == 'x': return True
    if t == 'f': return (v[1] & 0x7fffffffffffffff) > 0x7ff0000000000000
    if t in ('l', 't'): return any(has_nan(x) for x in v[1])
    if t == 'it': return any(has_nan(x) for x in v[2])
    if t == 'm': return any(has_nan(k) or has_nan(x) for k, x in v[1])
    return False


def items_of(v):
    return v[2] if v[0] == 'it' else v[1]


def cross_classes(a, b):
    """The known-finding pair classes present in (a, b): a bool facing a number ('bool-number') / a list facing a lazy
    iterable ('seq-iterable'), at the top or at corresponding positions of two containers."""
    ta, tb = a[0], b[0]
    num = ('i', 'f')
    out = set()
    if (ta == 'b' and tb in num) or (tb == 'b' and ta in num): out.add('bool-number')
    seqs = ('l', 'it')
    if (ta, tb) in (('l', 'it'), ('it', 'l')): out.add('seq-iterable')
    if (ta in seqs and tb in seqs) or (ta == tb == 't'):
        for x, y in zip(items_of(a), items_of(b)):
            out |= cross_classes(x, y)
    if ta == tb == 'm':
        # positions correspond in iteration order (BTreeMap: ascending keys)
        for (k1, v1), (k2, v2) in zip(sorted_pairs(a), sorted_pairs(b)):
            out |= cross_classes(k1, k2) | cross_classes(v1, v2)
    return out


def cross_class(a, b):
    return bool(cross_classes(a, b))


ORDER = "sorted"      # which ValueMap the current target has: "sorted" (BTreeMap) or "insertion" (IndexMap, feature preserve_order)


def sorted_pairs(m):
    """the pairs of a map description in iteration order (the description lists insertion order).  Only used for the
    small maps of the pools, whose keys are distinct strings / small ints / bool / float of one kind each."""
    if ORDER == "insertion":
        return list(m[1])
    def k(p):
        kk = p[0]
        return (kind_rank(kk), flat(kk)[1:] if kk[0] != 's' else list(kk[2]))
    return sorted(m[1], key=k)


def reordered(a, b):
    """two maps whose keys do not line up in iteration order, at the top or at corresponding positions (mirrors Spec.reordered)"""
    ta, tb = a[0], b[0]
    seqs = ('l', 't', 'it')
    if ta in seqs and tb in seqs:
        return any(reordered(x, y) for x, y in zip(items_of(a), items_of(b)))
    if ta == tb == 'm':
        for (k1, v1), (k2, v2) in zip(sorted_pairs(a), sorted_pairs(b)):
            if not same_key(k1, k2) or reordered(v1, v2):
                return True
    return False


def same_key(k1, k2):
    """cmp = Equal for the scalar keys of the pools (numbers by value, everything else by canonical form)"""
    num = ('i', 'f')
    if k1[0] in num and k2[0] in num and not has_nan(k1) and not has_nan(k2):
        def val(k):
            if k[0] == 'i': return fractions.Fraction(k[2])
            x = struct.unpack('<d', struct.pack('<Q', k[1]))[0]
            return fractions.Fraction(x) if x == x and abs(x) != float('inf') else x
        return val(k1) == val(k2)
    return ckey(k1) == ckey(k2)


def all_keys(v):
    t = v[0]
    if t in ('l', 't'): return [k for x in v[1] for k in all_keys(x)]
    if t == 'it': return [k for x in v[2] for k in all_keys(x)]
    if t == 'm': return [k for kk, x in v[1] for k in [kk] + all_keys(kk) + all_keys(x)]
    return []


def hash_dependent(a, b):
    """IndexMap lookups between two keys that are == but hash differently (bool vs number) depend on the map's random
    hasher state (hashbrown compares 7 hash bits before calling ==): such pairs are left out of the IndexMap target"""
    xs = [a] + all_keys(a); ys = [b] + all_keys(b)
    return any('bool-number' in cross_classes(x, y) for x in xs for y in ys)


def kind_rank(v):
    return {'u': 0, 'n': 1, 'b': 2, 'i': 3, 'f': 3, 's': 4, 'y': 5, 'l': 6, 't': 6, 'm': 7, 'it': 8, 'p': 9, 'x': 10}[v[0]]


# ----------------------------------------------------------------------------------------
# pools
# ----------------------------------------------------------------------------------------
QNAN = 0x7ff8000000000000
LONG = "a" * 25


def pool_a(thorough):
    p = [U, N, B(1), B(0)]
    p += [I(0), I(1), I(-1), I(2), I(1, 1), I(1, 2), I(1, 3), I(0, 3),
          I(2**63 - 1), I(-2**63), I(2**63 - 1, 2), I(2**63, 1), I(2**63, 2), I(2**64 - 1, 1), I(2**64 - 1, 3), I(2**64, 2), I(2**64, 3),
          I(2**127 - 1, 2), I(2**127 - 1, 3), I(-2**127, 2), I(2**127, 3), I(2**128 - 1, 3),
          I(2**53), I(2**53 + 1), I(2**53 + 1, 1), I(-2**53 - 1), I(2**63 + 1, 1), I(2**63 - 512)]
    p += [F(0.0), F(-0.0), F(1.0), F(-1.0), F(0.5), F(1.5), F(2.0), F(float('inf')), F(float('-inf')), F(QNAN), F(QNAN | (1 << 63)),
          F(2.0**53), F(2.0**53 + 2), F(2.0**53 - 1), F(2.0**63), F(-2.0**63), F(2.0**63 - 1024), F(2.0**64), F(2.0**127), F(-2.0**127), F(2.0**128),
          F(1), F(1e300), F(-2.0**53 - 2)]          # F(1): the smallest subnormal
    p += [S(""), S("a"), S("A"), S("b"), S("ab"), S("a", 1), S(LONG), S(LONG, 1), S("é"), S("1")]
    # the same text in every representation the engine has (inline SmallStr / safe heap / Arc<str> heap / made at run time),
    # NUL characters (the inline buffer is zero padded), lengths around the 22-byte inline boundary incl. a 2-byte char across it
    B22, B23, M22, M23 = "a" * 22, "a" * 23, "a" * 20 + "é", "a" * 21 + "é"
    if thorough:
        p += [S(t, f) for t in ("\0", "ab\0", "ab\0\0", "a\0b", "\0\0") for f in (0, 1, 2, 3)] + [S("ab", f) for f in (1, 2, 3)] + [S("", 2)]
        p += [S(t, f) for t in (B22, B23, M22, M23, "a" * 21) for f in (0, 1, 2, 3)]
    else:
        p += [S("\0"), S("ab\0"), S("ab\0\0"), S("a\0b"), S("ab\0", 2), S("ab\0", 3), S("ab", 1), S("ab", 2), S("ab", 3), S("\0", 2),
              S(B22), S(B22, 2), S(B23), S(M22), S(M22, 2), S(M23), S(B22 + "\0"), S("a" * 21 + "\0")]
    p += [Y([]), Y([97]), Y([255]), Y([97, 255])]
    p += [L(), L(I(1)), L(F(1.0)), L(B(1)), L(I(1), I(2)), L(L(I(1))), L(N), L(U), L(S("a")),
          T(), T(I(1)), T(I(1), I(2)), T(B(1)),
          IT(1), IT(0), IT(1, I(1)), IT(0, I(1)), IT(0, I(1), I(2)), IT(1, B(1)), IT(2, I(1)),
          M(), M((S("a"), I(1))), M((S("a"), I(1)), (S("b"), I(2))), M((S("b"), I(2)), (S("a"), I(1))), M((S("a"), B(1))),
          M((I(1), S("x"))), M((F(1.0), S("x"))), M((B(1), S("x"))), M((S("a"), L(I(1)))), M((S("a"), IT(0, I(1)))),
          P("a"), P("b"),
          L(M((S("a"), I(1)))), L(T(I(1))), L(IT(0, I(1))), L(L(I(1)), L(I(2))), T(L(I(1))), L(F(QNAN)), M((S("a"), F(QNAN))),
          X("a"), X("b"), L(X("a")), T(X("b")), IT(0, X("a"))]     # (a map literal cannot hold one: evaluating it raises the error)
    if thorough:
        p += [I(2**53 - 1), I(2**53 + 2), I(2**64 - 1024, 1), I(2**64 - 1025, 1), I(2**127 - 2**73, 2), I(2**127 + 2**74, 3), I(-2**63 + 1),
              F(2.0**53 + 4), F(2.0**64 - 2048), F(2.0**127 - 2.0**74), F(2.0**127 + 2.0**75), F(-1.5), F(3.0), F(1e-300), F(-1e300),
              S("B"), S("aB"), S("€"), S("aé"), Y([0]), Y([97, 98]),
              L(I(2)), L(I(1), I(1)), L(I(2), I(1)), T(I(2)), T(F(1.0)), IT(1, I(2)), IT(1, I(1), I(2)), IT(0, F(1.0)),
              M((S("a"), I(2))), M((S("b"), I(1))), M((I(2), S("x"))), M((S("a"), M((S("b"), I(1))))), P(""),
              L(L()), L(T()), L(M()), T(T(I(1))), L(L(B(1))), L(L(F(1.0)))]
    return p


# ----------------------------------------------------------------------------------------
# pair laws on a table of answers
# ----------------------------------------------------------------------------------------
LT, EQ, GT = 0, 1, 2
OPP = {LT: GT, EQ: EQ, GT: LT}
CMPN = {LT: "Less", EQ: "Equal", GT: "Greater"}


def pair_case(a, b):
    return [0] + flat(a) + flat(b)


class Table:
    """answers[(i, j)] = [eq, cmp, hash_eq, t_lt, t_eq, t_in, t_key] for pool[i], pool[j]"""

    def __init__(self, pool, outs, n):
        self.pool = pool
        self.n = n
        self.a = outs

    def get(self, i, j):
        return self.a[i * self.n + j]


def check_pair_laws(tab, profile, report):
    pool, n = tab.pool, tab.n
    nan = [has_nan(v) for v in pool]
    for i in range(n):
        for j in range(n):
            r = tab.get(i, j)
            a, b = pool[i], pool[j]
            if r == ["skipped"]:
                continue
            if len(r) != 7 or any(not isinstance(x, int) for x in r):
                report("no-panic", "comparison / hashing / template operator crashed or failed: output %r" % (r,), (i, j), profile)
                continue
            eq, cmp_, heq, tlt, teq, tin, tkey = r
            s = tab.get(j, i)
            if len(s) != 7: continue
            nn = not (nan[i] or nan[j])
            if i == j and nn:
                if cmp_ != EQ: report("cmp-reflexive", "cmp(a, a) = %s" % CMPN.get(cmp_), (i, j), profile)
                if eq != 1: report("eq-reflexive", "a == a is false", (i, j), profile)
            if s[1] != OPP.get(cmp_):
                report("cmp-antisymmetric", "cmp(a, b) = %s but cmp(b, a) = %s" % (CMPN.get(cmp_), CMPN.get(s[1])), (i, j), profile)
            if eq != s[0]:
                report("eq-symmetric", "a == b is %d but b == a is %d" % (eq, s[0]), (i, j), profile)
            if nn and (cmp_ == EQ) != (eq == 1):
                report("cmp-agrees-with-eq", "a == b is %s but cmp(a, b) = %s" % (bool(eq), CMPN.get(cmp_)), (i, j), profile)
            if eq == 1 and heq != 1:
                report("eq-implies-hash", "a == b but the hashes differ", (i, j), profile)
            # the template operators give the same answers as the API (loading an invalid value raises its error)
            if max(tlt, teq, tin, tkey) >= 100:
                if not (a[0] == 'x' or b[0] == 'x'):
                    report("template-total", "a template comparison failed with error %s" % ERR_NAMES.get(max(tlt, teq, tin, tkey) - 100), (i, j), profile)
                continue
            if tlt != (1 if cmp_ == LT else 0):
                report("template-lt", "`a < b` renders %d but cmp(a, b) = %s" % (tlt, CMPN.get(cmp_)), (i, j), profile)
            if teq != eq:
                report("template-eq", "`a == b` renders %d but Value::eq gives %d" % (teq, eq), (i, j), profile)
            if tin != eq:
                report("template-in", "`a in [b]` renders %d but a == b is %d" % (tin, eq), (i, j), profile)
            if nn and tkey != eq:
                report("template-key", "`{b: 1}[a] is defined` renders %d but a == b is %d" % (tkey, eq), (i, j), profile)


def check_triple_laws(tab, profile, report, triples):
    n = tab.n
    cmpm = [[(tab.get(i, j)[1] if len(tab.get(i, j)) == 7 else None) for j in range(n)] for i in range(n)]
    eqm = [[(tab.get(i, j)[0] if len(tab.get(i, j)) == 7 else None) for j in range(n)] for i in range(n)]
    cnt = 0
    for (i, j, k) in triples:
        cnt += 1
        ab, bc, ac = cmpm[i][j], cmpm[j][k], cmpm[i][k]
        if ab is None or bc is None or ac is None: continue
        if ab != GT and bc != GT:
            if ac == GT:
                report("cmp-transitive", "a <= b (%s) and b <= c (%s) but cmp(a, c) = Greater" % (CMPN[ab], CMPN[bc]), (i, j, k), profile)
            elif ac == EQ and (ab == LT or bc == LT):
                report("cmp-transitive", "a <= b (%s) and b <= c (%s), one strict, but cmp(a, c) = Equal" % (CMPN[ab], CMPN[bc]), (i, j, k), profile)
        if eqm[i][j] == 1 and eqm[j][k] == 1 and eqm[i][k] != 1:
            report("eq-transitive", "a == b and b == c but a != c", (i, j, k), profile)
    return cnt


# ----------------------------------------------------------------------------------------
# filters: case generation
# ----------------------------------------------------------------------------------------
FID = {"sort": 0, "unique": 1, "groupby": 2, "batch": 3, "slice": 4, "reverse": 5, "min": 6, "max": 7, "reverse2": 8, "last": 9,
       "dictsort": 10, "items": 11, "map": 12, "select": 13, "reject": 14, "sum": 15, "join": 16}
FNAME = {v: k for k, v in FID.items()}


def fcase(name, x, rev=2, cs=2, count=0, attr=None, fill=None):
    c = [1, FID[name], rev, cs, count]
    c += [0] if attr is None else [1, len(attr)] + [ord(ch) for ch in attr]
    c += [0] if fill is None else [1] + flat(fill)
    return c + flat(x)


def fdecode(c):
    """(name, rev, cs, count, attr, fill, container) of a filter case"""
    name = FNAME[c[1]]; rev, cs, count = c[2], c[3], c[4]
    i = 5
    attr = None
    if c[i] == 1:
        n = c[i + 1]; attr = "".join(chr(x) for x in c[i + 2:i + 2 + n]); i += 2 + n
    else:
        i += 1
    fill = None
    if c[i] == 1:
        fill, i = parse(c, i + 1)
    else:
        i += 1
    x, i = parse(c, i)
    return name, rev, cs, count, attr, fill, x


def fdescribe(c):
    name, rev, cs, count, attr, fill, x = fdecode(c)
    opts = []
    if name in ("batch", "slice"): opts.append(str(count))
    if name == "dictsort" and count: opts.append("by='value'")
    if name == "join" and attr is not None:
        opts.append(repr(attr)); attr = None
    if rev != 2: opts.append("reverse=%s" % bool(rev))
    if cs != 2: opts.append("case_sensitive=%s" % bool(cs))
    if attr is not None: opts.append("attribute=%r" % attr)
    if fill is not None: opts.append(("default=" if name == "groupby" else "fill_with=") + show(fill))
    return {"input": show(x), "filter": name + ("(" + ", ".join(opts) + ")" if opts else "")}


def amap(k, ident):
    return M((S("a"), k), (S("i"), I(ident))) if k is not None else M((S("i"), I(ident)))


SCAL = [I(1), F(1.0), S("a"), S("A"), S("b"), I(2)]                       # 1 / 1.0 and "a" / "A": Equal keys, distinguishable items
MAPS = [amap(I(1), 0), amap(F(1.0), 1), amap(S("a"), 2), amap(S("A"), 3), amap(S("b"), 4), amap(None, 5)]
NULS = [S("ab\0"), S("ab", 2), S("ab\0", 2), S("ab\0\0"), S("a\0b"), S("AB\0")]
WIDE = SCAL + [I(0), I(-3), F(0.5), F(-0.0), I(0), S(""), S("B"), S("ab"), S("a", 1), S("€"), B(1), B(0), N, L(I(1)), L(), T(I(1)), M((S("a"), I(1))),
               F(float('inf')), I(2**62), S("Ab"), S("aB")]
BYTES = [Y([97]), Y([66]), Y([0, 255]), Y([99, 255]), Y([100])]
ZZ = S("zz")
DKEYS = [S("a"), S("B"), S("b"), S("A"), I(1), I(2)]
TRUTH = [I(0), I(2), S(""), S("a"), L(), L(I(0)), IT(0), IT(0, N), IT(1), IT(2), B(0), B(1), N, U, F(0.0), F(-0.0), F(0x7ff8000000000000), F(0.5),
         M(), M((S("a"), I(0))), T(), Y([]), Y([0]), P("x")]
SUMS = [I(1), I(-3), I(2**62), I(0), U]
JOINS = [S("a"), S(""), I(-12), I(7), S("b", 1), S("€"), I(0), S("a\0")]


def containers(rng, items):
    """the same items as list / tuple / sized lazy / unsized lazy / LinkedList"""
    return [L(*items), T(*items), IT(1, *items), IT(0, *items), IT(2, *items)]


def gen_filters(chk):
    rng = chk.rng
    cases = []
    maxlen = 5 if chk.thorough else 4
    small = [()]
    for n in range(1, maxlen + 1):
        small += list(itertools.product(range(6), repeat=n))
    # exhaustive: every list of length <= maxlen over the 6-value pools, every keyword option
    for idx in small:
        xs = [SCAL[i] for i in idx]
        ms = [MAPS[i] for i in idx]
        lx = L(*xs)
        for rev in (2, 0, 1):
            for cs in (2, 1):
                cases.append(fcase("sort", lx, rev=rev, cs=cs))
                cases.append(fcase("sort", L(*ms), rev=rev, cs=cs, attr="a"))
        for cs in (2, 0, 1):
            cases.append(fcase("unique", lx, cs=cs))
            cases.append(fcase("unique", L(*ms), cs=cs, attr="a"))
            for d in (None, ZZ):
                cases.append(fcase("groupby", L(*ms), cs=cs, attr="a", fill=d))
        for count in (1, 2, 3, 5):
            for fill in (None, ZZ):
                cases.append(fcase("batch", lx, count=count, fill=fill))
                cases.append(fcase("slice", lx, count=count, fill=fill))
        for f in ("reverse", "reverse2", "min", "max", "last"):
            cases.append(fcase(f, lx))
    exhaustive_n = len(cases)
    # every enumerator shape for the order-insensitive part
    for n in range(0, 5):
        xs = [SCAL[(n + i) % 6] for i in range(n)]
        for cont in containers(rng, xs) + [S("abA"[:n]), S("bA"[:n], 1), Y([1, 2, 255][:n]), M(*[(S("k%d" % i), I(i)) for i in range(n)]), N, U]:
            for f in ("reverse", "reverse2", "last", "min", "max", "sort", "unique"):
                cases.append(fcase(f, cont))
            cases.append(fcase("batch", cont, count=2))
            cases.append(fcase("slice", cont, count=2))
    for cont in (I(1), B(1), P("x"), F(1.5)):
        for f in ("reverse", "last", "min", "max", "sort", "unique"):
            cases.append(fcase(f, cont))
        cases.append(fcase("batch", cont, count=2))
        cases.append(fcase("slice", cont, count=2))
        cases.append(fcase("groupby", cont, attr="a"))
    # dictsort / items: maps over every ordered choice of up to 3 distinct keys ("a"/"A"/"b"/"B": Equal when case is ignored)
    vi = 0
    for nk in range(0, 4):
        for ks in itertools.permutations(range(len(DKEYS)), nk):
            for rep_ in range(2):
                m = M(*[(DKEYS[k], SCAL[(vi + 5 * j + rep_) % 6]) for j, k in enumerate(ks)]); vi += 1
                for by in (0, 1):
                    for cs in (2, 1):
                        for rev in (2, 1):
                            cases.append(fcase("dictsort", m, rev=rev, cs=cs, count=by))
                if rep_ == 0:
                    cases.append(fcase("items", m))
    for cont in (L(I(1)), N, U, S("ab"), I(3)):
        cases.append(fcase("dictsort", cont)); cases.append(fcase("items", cont))
    # strings that differ only in trailing NUL characters / in their representation: every list of length <= 3, and as map keys
    for nn in range(0, 4):
        for idx in itertools.product(range(len(NULS)), repeat=nn):
            xs = L(*[NULS[i] for i in idx])
            for cs in (2, 1):
                cases.append(fcase("sort", xs, cs=cs)); cases.append(fcase("unique", xs, cs=cs))
            cases.append(fcase("sort", xs, rev=1))
            for f in ("min", "max", "select"):
                cases.append(fcase(f, xs))
            cases.append(fcase("join", xs, attr="-"))
    for ks in itertools.permutations([S("k"), S("k\0", 2), S("k\0\0"), S("j\0")], 2):
        m = M((ks[0], I(1)), (ks[1], I(2)))
        for by in (0, 1):
            cases.append(fcase("dictsort", m, count=by)); cases.append(fcase("dictsort", m, count=by, cs=1, rev=1))
        cases.append(fcase("items", m))
    # map(attribute=..), select / reject, sum, join: every list of length <= 2 or 3 over small pools
    for nn in range(0, 4):
        for idx in itertools.product(range(len(MAPS) + 2), repeat=nn):
            ms = [(MAPS + [U, I(7)])[i] for i in idx]
            for d in (None, ZZ):
                cases.append(fcase("map", L(*ms), attr="a", fill=d))
    for nn in range(0, 3):
        for idx in itertools.product(range(len(TRUTH)), repeat=nn):
            xs = [TRUTH[i] for i in idx]
            cases.append(fcase("select", L(*xs))); cases.append(fcase("reject", L(*xs)))
    for nn in range(0, 4):
        for idx in itertools.product(range(len(SUMS)), repeat=nn):
            cases.append(fcase("sum", L(*[SUMS[i] for i in idx])))
        for idx in itertools.product(range(len(JOINS)), repeat=nn):
            for joiner in (None, ", ", ""):
                cases.append(fcase("join", L(*[JOINS[i] for i in idx]), attr=joiner))
    for cont in (T(I(1), I(2)), IT(0, I(1), I(2)), IT(2, I(1), I(2)), S("ab"), M((S("k0"), I(0)), (S("k1"), I(1))), N, U, I(3), P("x")):
        for f in ("select", "reject", "sum", "join"):
            cases.append(fcase(f, cont))
        cases.append(fcase("map", cont, attr="a", fill=ZZ))
    cases.append(fcase("sum", L(I(1), S("a")))); cases.append(fcase("sum", L(S("a")))); cases.append(fcase("sum", L(N)))
    # counts: zero, huge (an untrusted count must not become an allocation size)
    for count in (0, 2**62, 2**63 - 1, 2**64 - 1):
        cases.append(fcase("batch", L(I(1)), count=count))
        cases.append(fcase("batch", L(), count=count))
    cases.append(fcase("slice", L(I(1)), count=0))
    # the limits: at most 100000 slices / 100000 fill items
    for count in (100001, 2**62, 2**64 - 1):
        cases.append(fcase("slice", L(I(1)), count=count)); cases.append(fcase("slice", L(), count=count, fill=ZZ))
        cases.append(fcase("batch", L(I(1)), count=count + 1, fill=ZZ))
    cases.append(fcase("batch", L(I(1), I(2)), count=1002, fill=ZZ))        # 1000 fill items (the boundary itself, 100000, makes a 1.4 MB line)
    cases.append(fcase("batch", L(), count=2**62, fill=ZZ))                 # nothing to fill
    cases.append(fcase("slice", L(I(1), I(2)), count=1000))
    # random longer lists (long enough for the merge phases of slice::sort_by)
    nrand = 6000 if chk.thorough else 1500
    for t in range(nrand):
        r = rng.below(10)
        n = 5 + rng.below(12) if rng.chance(2, 3) else 30 + rng.below(120)
        if r < 4:
            pool = (WIDE if rng.chance(3, 4) else WIDE + BYTES) + (NULS if rng.chance(1, 2) else [])
            xs = [rng.choice(pool) for _ in range(n)]
            cont = rng.choice(containers(rng, xs))
            f = rng.choice(["sort", "sort", "unique", "min", "max", "reverse", "reverse2", "last"])
            cases.append(fcase(f, cont, rev=rng.choice([2, 0, 1]) if f == "sort" else 2, cs=rng.choice([2, 0, 1]) if f in ("sort", "unique") else 2))
        elif r < 7:
            keys = [rng.choice(WIDE[:17] + [None] + (NULS if rng.chance(1, 3) else [])) for _ in range(n)]
            ms = [amap(k, i) for i, k in enumerate(keys)]
            if rng.chance(1, 4):
                ms = [rng.choice([U, N, I(7)]) if rng.chance(1, 4) else m for m in ms]
            f = rng.choice(["sort", "unique", "groupby"])
            cases.append(fcase(f, L(*ms), rev=rng.choice([2, 0, 1]) if f == "sort" else 2, cs=rng.choice([2, 0, 1]), attr="a",
                               fill=rng.choice([None, ZZ, I(1)]) if f == "groupby" else None))
        elif r < 8:
            f = rng.choice(["dictsort", "select", "reject", "sum", "join", "map"])
            if f == "dictsort":
                ks = list(DKEYS + [S("k%d" % i) for i in range(4)] + [S("ab"), S("Ab"), S("aB"), I(0), I(-3)])
                m = []
                for _ in range(min(n, 14)):
                    if not ks: break
                    m.append((ks.pop(rng.below(len(ks))), rng.choice(WIDE[:17])))
                cases.append(fcase("dictsort", M(*m), rev=rng.choice([2, 0, 1]), cs=rng.choice([2, 0, 1]), count=rng.below(2)))
            elif f in ("select", "reject"):
                cases.append(fcase(f, rng.choice(containers(rng, [rng.choice(TRUTH + WIDE) for _ in range(n)]))))
            elif f == "sum":
                cases.append(fcase(f, rng.choice(containers(rng, [rng.choice(SUMS + [I(2**63 - 1), I(-2**63), I(17)]) for _ in range(n)]))))
            elif f == "join":
                cases.append(fcase(f, rng.choice(containers(rng, [rng.choice(JOINS + [I(2**63 - 1), I(-2**63), S("ab")]) for _ in range(n)])), attr=rng.choice([None, ", ", "-", ""])))
            else:
                ms = [amap(rng.choice(WIDE[:17] + [None]), i) for i in range(n)]
                cases.append(fcase("map", L(*ms), attr="a", fill=rng.choice([None, ZZ, N])))
        else:
            xs = [rng.choice(WIDE) for _ in range(n)]
            f = rng.choice(["batch", "slice"])
            cases.append(fcase(f, rng.choice(containers(rng, xs)), count=1 + rng.below(n + 3), fill=rng.choice([None, ZZ, I(0)])))
    return cases, exhaustive_n


# ----------------------------------------------------------------------------------------
# filters: the laws, evaluated on the implementation's output with the implementation's own cmp / ==
# ----------------------------------------------------------------------------------------
def lower(v):
    if v[0] == 's':
        return ('s', 0, tuple(c + 32 if 65 <= c <= 90 else c for c in v[2]))
    return v


def canon(v):
    t = v[0]
    if t == 'i': return ('i', 0, v[2])
    if t == 's': return ('s', 1 if v[1] == 1 else 0, v[2])       # representations 0 / 2 / 3 are one and the same string
    if t == 'l' or t == 't': return (t, tuple(canon(x) for x in v[1]))
    if t == 'it': return ('it', 0, tuple(canon(x) for x in v[2]))
    if t == 'm': return ('m', tuple((canon(k), canon(x)) for k, x in v[1]))
    return v


def ckey(v):
    """table key: strings without the safe flag (==, cmp ignore it)"""
    v = canon(v)
    return ('s', 0, v[2]) if v[0] == 's' else v


def iter_items(x):
    """what the filters iterate over (lenient undefined behaviour); None = not iterable"""
    t = x[0]
    if t in ('u', 'n'): return []
    if t == 's': return [('s', 0, (c,)) for c in x[2]]
    if t in ('l', 't'): return list(x[1])
    if t == 'it': return list(x[2])
    if t == 'm': return [k for k, _ in sorted_pairs(x)]
    return None


def truthy(v):
    """Value::is_true per the documentation: empty containers / strings, zero, none, undefined and false are false"""
    t = v[0]
    if t == 'b': return bool(v[1])
    if t == 'i': return v[2] != 0
    if t == 'f': return (v[1] & 0x7fffffffffffffff) != 0
    if t in ('s', 'y', 'l', 't', 'm'): return len(v[-1]) > 0
    if t == 'it': return len(v[2]) > 0
    if t in ('n', 'u'): return False
    return True


def attr_of(item, attr, default=U):
    if item[0] == 'm':
        for k, v in item[1]:
            if k[0] == 's' and "".join(chr(c) for c in k[2]) == attr:
                return default if v == U else v
    return default


class Oracle:
    def __init__(self, cmp_tab, eq_tab):
        self.cmp_tab, self.eq_tab = cmp_tab, eq_tab
        self.missing = set()

    def cmp(self, a, b):
        k = (ckey(a), ckey(b))
        if k not in self.cmp_tab:
            self.missing.add(k); return None
        return self.cmp_tab[k]

    def eq(self, a, b):
        k = (ckey(a), ckey(b))
        if k not in self.eq_tab:
            self.missing.add(k); return None
        return self.eq_tab[k]


def key_fn(name, cs, attr, default=U):
    fold = (cs != 1)
    def k(item):
        v = item if attr is None else attr_of(item, attr, default)
        return lower(v) if fold else v
    return k


def check_filter(c, out, orc):
    """Returns a list of (law, message, known_class_or_None)."""
    name, rev, cs, count, attr, fill, x = fdecode(c)
    bad = []
    if out == [2] or (out and out[0] == "CRASH"):
        return [("no-panic", "the filter panicked / crashed the process (%r)" % (out[:2],), None)]
    if name in ("batch", "slice", "groupby") and fill is not None and fill in (U, N): fill = None
    if name in ("dictsort", "items"):
        if x[0] != 'm':
            return [] if out[0] == 1 else [("total", "%s of a value that is not a map must be an error" % name, None)]
        if out[0] != 0:
            return [("total", "%s of a map failed with error %s" % (name, ERR_NAMES.get(out[1], out[1])), None)]
        res, _ = parse(out, 1)
        pairs = [(canon(k), canon(v)) for k, v in sorted_pairs(x)]
        if res[0] != ('l' if name == "dictsort" else 'it') or any(p[0] != 't' or len(p[1]) != 2 for p in items_of(res)):
            return [("shape", "%s result is not a %s of pairs: %s" % (name, "list" if name == "dictsort" else "lazy iterable", show(res)), None)]
        got = [(canon(p[1][0]), canon(p[1][1])) for p in items_of(res)]
        if name == "items":
            return [] if got == pairs else [("items", "items %s, the pairs in iteration order are %s" % (show(res), pairs), None)]
        proj = (lambda p: p[1]) if count else (lambda p: p[0])
        kf = (lambda p: lower(proj(p))) if cs != 1 else proj
        if sorted(map(repr, got)) != sorted(map(repr, pairs)):
            return [("dictsort-permutation", "output is not a permutation of the pairs of the map", None)]
        for i in range(len(got) - 1):
            cc = orc.cmp(kf(got[i]), kf(got[i + 1]))
            if cc is None: continue
            if (cc == GT and rev != 1) or (cc == LT and rev == 1):
                return [("dictsort-ordered", "keys %s, %s at positions %d, %d are out of order (cmp = %s, reverse = %s, by = %s)" % (show(kf(got[i])), show(kf(got[i + 1])), i, i + 1, CMPN[cc], rev == 1, "value" if count else "key"), None)]
        return stability(pairs, got, kf, orc, "dictsort-stable", lambda p: "(%s, %s)" % (show(p[0]), show(p[1])))
    if name in ("map", "select", "reject", "sum", "join"):
        its = iter_items(x)
        if its is None:
            return [] if out[0] == 1 else [("total", "%s of a value that is not iterable must be an error" % name, None)]
        its = [canon(i) for i in its]
        if name == "map":
            dflt = canon(fill) if fill is not None else U
            want, err = [], False
            for it in its:
                if it == U and dflt == U: err = True; break
                want.append(attr_of(it, attr, dflt))
            if err:
                return [] if out[0] == 1 else [("map", "an undefined item without a default must be an error", None)]
            want = ('l', tuple(want))
        elif name in ("select", "reject"):
            want = ('l', tuple(i for i in its if truthy(i) == (name == "select")))
        elif name == "sum":
            if any(i[0] not in ('i', 'u') for i in its):
                return [] if out[0] == 1 else [("sum", "summing a value that is not a number must be an error", None)]
            want = ('i', 0, sum(i[2] for i in its if i[0] == 'i'))
        else:
            if any(i[0] not in ('i', 's') for i in its): return []
            want = ('s', 0, tuple(ord(ch) for ch in (attr or "").join(str(i[2]) if i[0] == 'i' else "".join(chr(c) for c in i[2]) for i in its)))
        if out[0] != 0:
            return [("total", "%s failed with error %s on an input it is defined for" % (name, ERR_NAMES.get(out[1], out[1])), None)]
        res, _ = parse(out, 1)
        if canon(res) != want:
            return [(name, "result %s, expected %s" % (show(res), show(want)), None)]
        return []
    items = iter_items(x)
    if name in ("reverse", "reverse2") and x[0] in ('s', 'y', 'u', 'n'):
        items = None
    if name == "last" and x[0] in ('u', 'n', 'm'):
        items = None
    if out[0] == 1:
        ok_err = (items is None and x[0] not in ('s', 'y', 'u', 'n')) or (name in ("batch", "slice") and count == 0) or \
                 (name == "slice" and count > 100000) or \
                 (name == "batch" and fill is not None and items and len(items) % count and count - len(items) % count > 100000) or \
                 (name not in ("reverse", "reverse2") and x[0] == 'y') or (name in ("reverse", "reverse2") and x[0] == 'p') or \
                 (name in ("reverse", "reverse2") and x[0] in ('i', 'f', 'b')) or (name == "last" and x[0] in ('u', 'n', 'm'))
        if not ok_err:
            bad.append(("total", "the filter failed with error %s on an input it is defined for" % ERR_NAMES.get(out[1], out[1]), None))
        return bad
    if out[0] != 0:
        return [("no-panic", "unexpected output %r" % (out[:3],), None)]
    try:
        res, _ = parse(out, 1)
    except Exception as ex:
        return [("shape", "unparsable result %r" % (ex,), None)]
    if name in ("batch", "slice") and count == 0:
        return [("total", "count 0 must be rejected", None)]
    if name == "slice" and count > 100000:
        return [("total", "more than 100000 slices must be rejected", None)]
    if name == "batch" and fill is not None and items and len(items) % count and count - len(items) % count > 100000:
        return [("total", "more than 100000 fill items must be rejected", None)]
    if name == "last":
        if iter_items(x) is None:
            return [] if x[0] == 'y' else [("total", "a result for a value that has no last item", None)]
        its = [canon(i) for i in iter_items(x)]
        want = its[-1] if its else U
        if x[0] == 's' and its: want = ('s', x[1], its[-1][2])
        if canon(res) != want:
            kn = {"reverse-reviter"} if (x[0] == 'it' and x[1] == 2 and its and canon(res) == its[0]) else None
            bad.append(("last", "result %s, the last item is %s" % (show(res), show(want)), kn))
        return bad
    if name in ("reverse", "reverse2"):
        if x[0] in ('s', 'y'):
            want = (x[0],) + ((x[1],) if x[0] == 's' else ()) + (tuple(reversed(x[-1])) if name == "reverse" else x[-1],)
            if res != want: bad.append(("reverse", "reverse of a string / bytes is not the reversed string", None))
        elif x[0] in ('u', 'n'):
            if res != x: bad.append(("reverse", "reverse of none / undefined must be unchanged", None))
        else:
            its = [canon(i) for i in iter_items(x)]
            got = [canon(i) for i in (iter_items(res) or [])] if res[0] in ('l', 't', 'it') else None
            want = list(reversed(its)) if name == "reverse" else its
            if got != want:
                kn = {"reverse-reviter"} if (x[0] == 'it' and x[1] == 2 and got == list(reversed(want))) else None
                bad.append(("reverse-involutive" if name == "reverse2" else "reverse", "items %s, expected %s" % (show(res), "[" + ", ".join(show(i) for i in want) + "]"), kn))
        return bad
    if items is None:
        return [("total", "a result for a value that is not iterable", None)]
    citems = [canon(i) for i in items]
    if name in ("min", "max"):
        if not items:
            if res != U: bad.append((name, "empty input must give undefined", None))
            return bad
        r = canon(res)
        if r not in citems:
            bad.append((name, "result %s is not a member of the input" % show(res), None)); return bad
        for y in items:
            cc = orc.cmp(r, y)
            if cc is None: continue
            if (name == "min" and cc == GT) or (name == "max" and cc == LT):
                bad.append((name, "result %s does not bound %s (cmp = %s)" % (show(res), show(y), CMPN[cc]), None)); break
        return bad
    if res[0] != 'l':
        return [("shape", "result is not a list: %s" % show(res), None)]
    outl = [canon(i) for i in res[1]]
    if name == "sort":
        k = key_fn(name, cs, attr)
        if sorted(map(repr, outl)) != sorted(map(repr, citems)):
            return [("sort-permutation", "output is not a permutation of the input", None)]
        keys = [k(i) for i in outl]
        for i in range(len(keys) - 1):
            cc = orc.cmp(keys[i], keys[i + 1])
            if cc is None: continue
            if (cc == GT and rev != 1) or (cc == LT and rev == 1):
                bad.append(("sort-ordered", "keys %s, %s at positions %d, %d are out of order (cmp = %s, reverse = %s)" % (show(keys[i]), show(keys[i + 1]), i, i + 1, CMPN[cc], rev == 1), None))
                return bad
        bad += stability(citems, outl, k, orc, "sort-stable")
        return bad
    if name == "unique":
        k = key_fn(name, cs, attr)
        # subsequence
        j = 0
        for o in outl:
            while j < len(citems) and citems[j] != o: j += 1
            if j == len(citems):
                return [("unique-subsequence", "output is not a subsequence of the input", None)]
            j += 1
        for i in range(len(outl)):
            for j in range(i + 1, len(outl)):
                if orc.eq(k(outl[i]), k(outl[j])) == 1:
                    bad.append(("unique-no-duplicates", "output keeps %s and %s whose keys are ==" % (show(outl[i]), show(outl[j])), cross_classes(k(outl[i]), k(outl[j]))))
                    return bad
        # greedy: every input element is kept unless an == key was seen before
        seen, want = [], []
        for it in citems:
            if not any(orc.eq(k(it), s) == 1 for s in seen):
                want.append(it); seen.append(k(it))
        if want != outl:
            bad.append(("unique-first-occurrences", "output %s, expected the first occurrence of every key: %s" % (show(res), "[" + ", ".join(show(i) for i in want) + "]"),
                        None))
        return bad
    if name == "groupby":
        default = fill if fill is not None else U
        k = key_fn(name, cs, attr, default)
        raw = key_fn(name, 1, attr, default)
        groups = []
        for g in res[1]:
            if g[0] != 'l' or len(g[1]) != 2 or g[1][1][0] != 'it':
                return [("shape", "group is not a (grouper, items) pair: %s" % show(g), None)]
            groups.append((canon(g[1][0]), [canon(i) for i in g[1][1][2]]))
        flatl = [i for _, its in groups for i in its]
        if sorted(map(repr, flatl)) != sorted(map(repr, citems)):
            return [("groupby-partition", "the groups are not a partition of the input", None)]
        for gi, (gk, its) in enumerate(groups):
            if not its:
                bad.append(("groupby-partition", "empty group", None)); return bad
            for it in its[1:]:
                if orc.cmp(k(its[0]), k(it)) not in (EQ, None):
                    bad.append(("groupby-partition", "group %d mixes keys %s and %s" % (gi, show(k(its[0])), show(k(it))), None)); return bad
            for gj in range(gi + 1, len(groups)):
                if orc.cmp(k(its[0]), k(groups[gj][1][0])) == EQ:
                    bad.append(("groupby-partition", "groups %d and %d have Equal keys" % (gi, gj), None)); return bad
            if gi + 1 < len(groups) and orc.cmp(k(its[0]), k(groups[gi + 1][1][0])) == GT:
                bad.append(("groupby-ordered", "groups %d, %d are not in ascending key order" % (gi, gi + 1), None)); return bad
            if ckey(gk) != ckey(raw(its[0])):
                kn = {"groupby-grouper-last"} if ckey(gk) == ckey(raw(its[-1])) and orc.cmp(lower(gk), lower(raw(its[0]))) == EQ else None
                bad.append(("groupby-grouper", "group %d is labelled %s, the key of its first item is %s" % (gi, show(gk), show(raw(its[0]))), kn))
        bad += stability(citems, flatl, k, orc, "groupby-stable")
        return bad
    if name in ("batch", "slice"):
        runs = []
        for r in res[1]:
            if r[0] != 'l': return [("shape", "run is not a list: %s" % show(r), None)]
            runs.append([canon(i) for i in r[1]])
        n = len(citems)
        cf = canon(fill) if fill is not None else None
        if name == "batch":
            want = [citems[i:i + count] for i in range(0, n, count)]
            if cf is not None and want and len(want[-1]) < count:
                want[-1] = want[-1] + [cf] * (count - len(want[-1]))
        else:
            per, extra = n // count, n % count
            want, pos = [], 0
            for s in range(count):
                ln = per + (1 if s < extra else 0)
                run = citems[pos:pos + ln]; pos += ln
                if cf is not None and s >= extra: run = run + [cf]
                want.append(run)
        if runs != want:
            # say which law fails
            stripped = [i for r in runs for i in r]
            if cf is None and stripped != citems:
                bad.append((name + "-concatenation", "the concatenation of the runs is not the input", None))
            else:
                bad.append((name + "-runs", "runs %s, expected %s" % (show(res), "[" + ", ".join("[" + ", ".join(show(i) for i in r) + "]" for r in want) + "]"), None))
        return bad
    return bad


def stability(citems, outl, k, orc, law, show_item=None):
    """for every class of Equal keys: the output lists its members in input order"""
    reps = []
    for it in citems:
        if not any(orc.cmp(k(it), k(r)) == EQ for r in reps):
            reps.append(it)
    for r in reps:
        a = [i for i in citems if orc.cmp(k(r), k(i)) == EQ]
        b = [i for i in outl if orc.cmp(k(r), k(i)) == EQ]
        if a != b:
            sh_ = show_item or show
            return [(law, "items with key Equal to %s come out as %s, input order is %s" % (show(k(r)), "[" + ", ".join(map(sh_, b)) + "]", "[" + ", ".join(map(sh_, a)) + "]"), None)]
    return []


# ----------------------------------------------------------------------------------------
# containment: `v in c` agrees with == on the elements (keys for maps), with `v in (c|list)`, with c[v], `not in`, the `in` test
# ----------------------------------------------------------------------------------------
CELEMS = [S("abc"), Y(b"abc"), S("abc", 1), S("abc", 2), S("a"), Y([97]), Y([97, 255]), S(""), I(1), F(1.0), B(1), N, U, L(I(1)), IT(0, I(1)),
          S("1"), Y([49]), S("k3"), Y(b"k3"), T(I(1)), S("ab\0"), Y([97, 98, 0])]
CBIG = [(S("k%d" % i), I(i)) for i in range(13)]


def contain_cases(thorough):
    conts = []
    for e in CELEMS:
        conts += [L(e), T(e), IT(0, e), IT(1, e), IT(2, e), L(I(7), e), M((e, I(1))), M((S("zz"), I(0)), (e, I(1)))]
    conts += [L(), IT(0), M(), L(S("abc"), Y(b"abc")), L(Y(b"abc"), S("abc")), M((Y(b"abc"), I(1)), (S("abc"), I(2))), M((S("abc"), I(2)), (Y(b"abc"), I(1))),
              M((S("abc"), I(1)), (S("a"), I(2))), M(*(CBIG + [(S("abc"), I(99))])), M(*(CBIG + [(Y(b"abc"), I(99))])), M(*([(Y(b"abc"), I(99)), (S("abc"), I(98))] + CBIG)),
              M(*(CBIG + [(I(1), I(99))])), M(*(CBIG + [(B(1), I(99))])),
              S("abc"), S("a1"), S(""), S("abc", 1), S("ab\0c"), Y(b"abc"), Y([97, 255]), Y([]),
              I(1), N, U, B(1), F(1.0), P("x"), X("e")]
    needles = CELEMS + [X("e"), I(7), S("zz")]
    cases = []
    for c in conts:
        for v in needles:
            if (c[0] == 's' or (c[0] == 'y' and all(b < 128 for b in c[1]))) and \
               not (v[0] in ('s', 'i', 'x') or (v[0] == 'y' and all(b < 128 for b in v[1]))):
                continue     # a needle that is not a string is searched by its rendering: modelled for integers only
            cases.append((c, v))
    return cases


def contain_eq_pool():
    vals = []
    for v in CELEMS + [I(7), S("zz"), X("e")] + [k for k, _ in CBIG]:
        if v not in vals: vals.append(v)
    return vals


def check_contain(c, v, out, eqt, order):
    """laws on the implementation's answers [v in c, v not in c, v is in(c), v in (c|list), c[v] is defined]; eqt[(x, y)] = x == y"""
    bad = []
    if len(out) != 5 or any(not isinstance(x, int) for x in out):
        return [("no-panic", "containment crashed or failed: %r" % (out,), None)]
    tin, tnot, tis, tlist, tlook = out
    if c[0] == 'x' or v[0] == 'x':
        return []
    def eq(x, y):
        return eqt.get((ckeyc(x), ckeyc(y)))
    if tin >= 100:
        if c[0] in ('l', 't', 'it', 'm', 's', 'u', 'p'):
            bad.append(("in-total", "`v in c` failed with error %s for a container" % ERR_NAMES.get(tin - 100, tin), None))
        if tnot != tin: bad.append(("not-in", "`v not in c` gives %d while `v in c` fails" % tnot, None))
        if tis != 0: bad.append(("in-test", "`v is in(c)` must be false when `v in c` fails", None))
        return bad
    if tnot != 1 - tin: bad.append(("not-in", "`v not in c` is %d while `v in c` is %d" % (tnot, tin), None))
    if tis != tin: bad.append(("in-test", "`v is in(c)` is %d while `v in c` is %d" % (tis, tin), None))
    if has_nan(v): return bad
    if c[0] in ('l', 't', 'it'):
        want = 1 if any(eq(e, v) == 1 for e in items_of(c)) else 0
        if tin != want: bad.append(("in-agrees-with-eq", "`v in c` is %d but %s element of c is == v" % (tin, "an" if want else "no"), None))
        if tlist != tin: bad.append(("in-agrees-with-list", "`v in (c|list)` is %d while `v in c` is %d" % (tlist, tin), None))
    elif c[0] == 'm':
        keys = [k for k, _ in sorted_pairs(c)]
        classes = set()
        for k in keys:
            classes |= set(cross_classes(v, k))
            if order == "insertion" and reordered(v, k): classes.add("map-insertion-order")
        want = 1 if any(eq(v, k) == 1 for k in keys) else 0
        if tin != want: bad.append(("in-agrees-with-eq", "`v in c` is %d but %s key of c is == v" % (tin, "a" if want else "no"), classes))
        if tlook != tin: bad.append(("in-agrees-with-lookup", "`c[v] is defined` is %d while `v in c` is %d" % (tlook, tin), classes))
        if tlist != tin: bad.append(("in-agrees-with-list", "`v in (c|list)` is %d while `v in c` is %d" % (tlist, tin), classes))
    elif c[0] == 's' and v[0] == 's':
        hay, nd = "".join(chr(x) for x in c[2]), "".join(chr(x) for x in v[2])
        if tin != (1 if nd in hay else 0): bad.append(("in-substring", "`v in c` is %d for strings but v is%s a substring of c" % (tin, "" if nd in hay else " not"), None))
    return bad


def ckeyc(v):
    """table key for the containment laws: strings without representation / safe flag"""
    return ckey(v)


# ----------------------------------------------------------------------------------------
# chains: comparison / containment chains over three operands, as context variables and spelled as literals
# ----------------------------------------------------------------------------------------
CHAINS = ["A in B", "A not in B", "A not in B != C", "A in B != C", "A in B == C", "A not in B == C",
          "C != A not in B", "C == A in B", "A < C in B", "A <= C not in B",
          "A == C", "A != C", "A < C", "A <= C", "A > C", "A >= C",
          "A < C < A", "A <= C <= A", "A == C == A", "A != C != A", "A < C != A", "A >= C > A"]
CH_A = [I(1), I(2), F(1.0), S("a"), S("abc"), B(1), N, L(I(1)), S(""), I(5)]
CH_B = [L(I(1), I(2)), L(), L(S("a"), F(1.0)), T(I(1), I(2)), M((S("a"), I(1))), M((I(1), S("x")), (S("abc"), N)), S("abc"), L(L(I(1)), N), I(1), N, L(B(1))]
CH_C = [I(5), I(1), F(1.0), S("a"), B(1), B(0), N, L(I(1), I(2)), S("abc"), M((S("a"), I(1)))]


def literal(v):
    """the template literal of a value, or None when it has none"""
    t = v[0]
    if t == 'n': return "none"
    if t == 'b': return "true" if v[1] else "false"
    if t == 'i' and 0 <= v[2] < 2**63: return str(v[2])
    if t == 'f':
        x = struct.unpack('<d', struct.pack('<Q', v[1]))[0]
        return repr(x) if x == x and abs(x) != float('inf') and x >= 0 and 1e-4 < abs(x) + 1 < 1e15 else None
    if t == 's' and v[1] == 0 and all(32 <= c < 127 and c not in (34, 39, 92) for c in v[2]):
        return '"' + "".join(chr(c) for c in v[2]) + '"'
    if t in ('l', 't'):
        parts = [literal(x) for x in v[1]]
        if any(p is None for p in parts): return None
        if t == 'l': return "[" + ", ".join(parts) + "]"
        return "(" + ", ".join(parts) + ("," if len(parts) == 1 else "") + ")" if parts else None
    if t == 'm':
        parts = [(literal(k), literal(x)) for k, x in v[1]]
        if any(a is None or b is None for a, b in parts): return None
        return "{" + ", ".join(a + ": " + b for a, b in parts) + "}"
    return None


def chain_cases(thorough):
    out = []
    def rendered_only(x): return x[0] in ('s', 'i')
    for a in CH_A:
        for b in CH_B:
            for c in CH_C:
                if b[0] == 's' and not (rendered_only(a) and rendered_only(c)):
                    continue     # a needle of a string container that is not a string is searched by its rendering (modelled for integers)
                out.append((a, b, c))
    return out


def chain_case(a, b, c):
    ls = [literal(a), literal(b), literal(c)]
    line = [3] + flat(a) + flat(b) + flat(c)
    if all(l is not None for l in ls):
        line.append(1)
        for l in ls:
            line += [len(l)] + [ord(ch) for ch in l]
    else:
        line.append(0)
    return line, (ls if all(l is not None for l in ls) else None)


def check_chain(a, b, c, lits, out):
    n = len(CHAINS)
    if len(out) not in (n, 2 * n) or any(not isinstance(x, int) for x in out):
        return [("no-panic", "a comparison chain crashed or failed: %r" % (out[:4],), None)]
    bad = []
    var = out[:n]
    # chains are conjunctions of their links: the single-link answers determine the two-link ones that reuse them
    if var[0] < 100 and var[1] < 100 and var[1] != 1 - var[0]:
        bad.append(("not-in", "`a not in b` is %d while `a in b` is %d" % (var[1], var[0]), None))
    if lits is not None and len(out) == 2 * n:
        lit = out[n:]
        for i in range(n):
            if lit[i] != var[i]:
                src = CHAINS[i].replace("A", lits[0]).replace("B", lits[1]).replace("C", lits[2])
                bad.append(("literal-equals-variable", "`%s` gives %s with literal operands but %s with the same values as variables (`%s`)" % (src, lit[i], var[i], CHAINS[i].lower()), None))
                break
    return bad


# ----------------------------------------------------------------------------------------
# aliasing: one object shared inside both operands of a comparison -- the laws must not depend on identity
# ----------------------------------------------------------------------------------------
REF = ('ref',)
AL_X = [L(L(I(1))), L(I(1)), M((S("me"), I(1))), L(), T(L(I(1)), I(2)), M((S("me"), M((S("me"), I(1)))))]
AL_BODIES = [REF, L(REF), L(L(REF)), L(REF, REF), T(REF), M((S("k"), REF)), L(L(L(REF))), L(I(0), REF), M((S("me"), REF))]


def expand(body, x):
    """the aliased description as an ordinary (structural) one"""
    t = body[0]
    if t == 'ref': return x
    if t in ('l', 't'): return (t, tuple(expand(e, x) for e in body[1]))
    if t == 'it': return ('it', body[1], tuple(expand(e, x) for e in body[2]))
    if t == 'm': return ('m', tuple((expand(k, x), expand(e, x)) for k, e in body[1]))
    return body


def alias_cases(thorough):
    out = []
    for x in AL_X:
        bodies = AL_BODIES + [expand(b, x) for b in AL_BODIES]      # aliased, and freshly built copies of the same structure
        for a in bodies:
            for b in bodies:
                out.append((x, a, b))
    return out


# ----------------------------------------------------------------------------------------
# enumeration is repeatable: the result of an operation, kept and enumerated several times, lists the same items
# ----------------------------------------------------------------------------------------
ENUM_OPS = {0: "reverse", 1: "items", 2: "dictsort", 3: "slice(2)", 4: "batch(2)", 5: "map(attribute='a', default=none)", 6: "select", 7: "reject",
            8: "sort", 9: "unique", 10: "list", 11: "reverse|reverse", 12: "(the value itself)", 100: "chain(x)", 101: "zip(x)", 102: "range(3)"}
OBSERVATIONS = ["r|list", "r|list", "r|length", "r|list", "r|reverse|list", "r|list"]


def enum_cases(thorough):
    xs3 = [I(1), S("b"), I(0)]
    conts = []
    for n in (0, 1, 3):
        its = xs3[:n]
        conts += containers(None, its)
    conts += [M(), M((S("a"), I(1))), M((S("c"), I(3)), (S("a"), I(1)), (S("b"), I(2))), M((I(2), S("x")), (I(1), S("y"))),
              S("abc"), S(""), S("ab", 1), N, U, L(M((S("a"), I(1))), M((S("b"), I(2))), M((S("a"), I(0)))), L(L(I(1)), L(), I(0)), I(1), Y([97]), P("x")]
    return [(op, c) for c in conts for op in ENUM_OPS]


def parse_obs(out):
    """[list1, list2, length, list3, reversed list, list4] as parsed values / ('err', code); None when the operation itself failed"""
    if not out or out[0] != 0: return None
    i, res = 1, []
    while i < len(out):
        if out[i] == 0:
            v, i = parse(out, i + 1); res.append(v)
        else:
            res.append(('err', out[i + 1])); i += 2
    return res


def check_enum(op, c, out):
    if not out or out == [2] or out[0] == "CRASH" or any(not isinstance(x, int) for x in out):
        return [("no-panic", "the operation or an enumeration of its result crashed (%r)" % (out[:3],), None)]
    obs = parse_obs(out)
    if obs is None or len(obs) != len(OBSERVATIONS):
        return []
    l1, l2, ln, l3, rv, l4 = obs
    who = "r = x|%s" % ENUM_OPS[op]
    bad = []
    for name, l in (("a second `r|list`", l2), ("`r|list` after `r|length`", l3), ("`r|list` after `r|reverse|list`", l4)):
        if l != l1:
            bad.append(("enumeration-repeatable", "%s: %s gives %s, the first `r|list` gave %s" % (who, name, show(l) if l[0] != 'err' else l, show(l1) if l1[0] != 'err' else l1), None))
            return bad
    if l1[0] == 'l':
        if ln[0] == 'i' and ln[2] != len(l1[1]):
            bad.append(("enumeration-length", "%s: `r|length` is %d but `r|list` has %d items" % (who, ln[2], len(l1[1])), None))
        if rv[0] == 'l' and list(rv[1]) != list(reversed(l1[1])):
            kn = {"reverse-reviter"} if (list(rv[1]) == list(l1[1]) and ((c[0] == 'it' and c[1] == 2 and op == 12))) else None
            bad.append(("enumeration-reverse", "%s: `r|reverse|list` gives %s, `r|list` gives %s" % (who, show(rv), show(l1)), kn))
    return bad


def filter_key_pool():
    """every value the filter laws compare: items, attribute values, case-folded keys, defaults"""
    vals = []
    def add(v):
        v = ckey(v)
        if v not in vals: vals.append(v)
    for v in WIDE + NULS + BYTES + MAPS + DKEYS + [ZZ, U, N, I(7), I(0), I(1)] + [S("k%d" % i) for i in range(4)] + [S("k"), S("k\0"), S("k\0\0"), S("j\0")]:
        add(v); add(lower(v))
    return vals


# ----------------------------------------------------------------------------------------
# targets: the default build (BTreeMap maps) and the `preserve_order` build (IndexMap maps)
# ----------------------------------------------------------------------------------------
import vlib as _vlib


class Target:
    def __init__(self, name, order, runner, coq_run, bins):
        self.name, self.order, self.runner, self.coq_run, self.bins = name, order, runner, coq_run, bins


def po_target_dir():
    return os.path.join(_vlib.CACHE, "target-po" + _vlib._TAG)


def cargo_build_po(release):
    """harness bin c07 with feature preserve_order, in its own cargo target dir (it would thrash the shared one)"""
    h = _vlib.harness_dir()
    env = dict(_vlib.ENV); env["CARGO_TARGET_DIR"] = po_target_dir()
    with _vlib.Lock("cargo" + _vlib._TAG):
        lock_dst = os.path.join(h, "Cargo.lock")
        if not os.path.exists(lock_dst):
            sh(["cp", os.path.join(_vlib.REPO, "Cargo.lock"), lock_dst])
        cmd = ["cargo", "build", "--offline", "--quiet", "--bin", "c07", "--features", "preserve_order"] + (["--release"] if release else [])
        rc, o, e = sh(cmd, cwd=h, timeout=3000, env=env)
        return rc == 0, o + e


def corr_t(chk, tgt, cases, kernel_sample, profiles=(False, True)):
    """impl (the given profiles of this target) vs extracted model vs (sample) kernel"""
    res = {"model": run_model("C07", tgt.runner, cases) if cases else [], "impl": {}, "mismatches": [], "kernel_ok": True, "kernel_checked": 0}
    for rel in profiles:
        res["impl"][rel] = run_lines([tgt.bins[rel]], cases) if cases else []
    if kernel_sample and cases:
        step = max(1, len(cases) // kernel_sample)
        idx = list(range(0, len(cases), step))[:kernel_sample]
        kern = kernel_eval(tgt.coq_run, [cases[i] for i in idx], "k_C07_" + tgt.runner.replace("-", "_"), imports="Common.Base C07.Model C07.Runner")
        if kern is None:
            res["kernel_ok"] = False
        else:
            bad = [idx[j] for j in range(len(idx)) if j >= len(kern) or kern[j] != res["model"][idx[j]]]
            res["kernel_ok"] = not bad
            res["kernel_bad"] = bad
            res["kernel_checked"] = len(idx)
    return res


def main():
    global ORDER
    chk = Check("C07", "proof")
    chk.cov["trusted_base"] = TRUSTED_COMMON + ["Print Assumptions: every theorem of Props/C07.v closed under the global context (no axioms)"]
    chk.assumptions = [
        "values: machine integers in range of their representation, floats = IEEE binary64 bit patterns; maps satisfy the invariant of their implementation (BTreeMap: keys strictly ascending; IndexMap: no two equal keys); `unicode` feature off (ASCII case folding)",
        "modelled: impl PartialEq/Ord/Hash for Value, ops.rs::{as_f64,coerce}, TryFrom<Value> for i64/i128, Hash for DynObject, BTreeMap and IndexMap get/insert, filters.rs::{cmp_helper,sort,unique,groupby,batch,slice,reverse,min,max,last,dictsort,items,map(attribute),select,reject,sum,join}; slice::sort_by is modelled as a stable insertion sort, the hasher as a function of the byte stream it is fed (IndexMap lookups with full hashes)",
        "object identity (is_same_object), custom_cmp objects and maps of unknown length are outside the model and the pools; sum is modelled for integers, join for strings and integers without auto-escaping",
        "IndexMap target: pairs in which a bool and a number that are == meet as keys / probes are left out (the lookup then depends on the map's random hasher state, a consequence of the bool-number known finding)",
        "byte strings in the filter pools are pure ASCII or contain 0xFF (Value::as_str's UTF-8 validation, used by `last`, is modelled for these only); slice with a huge count is not exercised (its output has `count` runs by definition)"]
    ok_models, blog = build_models("C07")
    proofs_ok = chk.run_proofs()
    builds = [cargo_build(["c07"], release=False), cargo_build(["c07"], release=True), cargo_build_po(False), cargo_build_po(True)]
    if not all(b[0] for b in builds):
        chk.violation("harness does not build against the current /repo tree", {"theorem_or_correspondence": "build of harness/src/bin/c07.rs (default and preserve_order)", "log": "".join(b[1] for b in builds)[-1500:]}, True)
        chk.finish()
    if not ok_models:
        chk.violation("model build failed", {"theorem_or_correspondence": "coq/theories/C07/Model.v build", "log": blog[-1500:]}, True)
        chk.finish()
    targets = [Target("btreemap", "sorted", "c07", "run", {rel: bin_path("c07", rel) for rel in (False, True)}),
               Target("indexmap", "insertion", "c07-po", "(run_o Insertion)",
                      {rel: os.path.join(po_target_dir(), "release" if rel else "debug", "c07") for rel in (False, True)})]

    found = collections.OrderedDict()     # law -> first replay
    counts = collections.Counter()

    def register(law, msg, replay, classes):
        """a failed law: known finding when one of the pair classes present is listed and explains this law"""
        for cls in sorted(classes or ()):
            k = chk.match_known(lambda k: k["match"].get("class") == cls and law in k["match"].get("laws", []))
            if k:
                counts["known:" + k["id"]] += 1
                chk.known_finding(k["id"], k["what"])
                return
        counts["violation:" + law] += 1
        if law not in found:
            found[law] = (msg, replay)

    rp = None
    if chk.replay:
        rp = json.load(open(chk.replay))["replay"]
        pool = [tuple_deep(v) for v in rp["values"]] if "values" in rp else []
        fcases = [rp["case"]] if "case" in rp else []
        exn = 0
        if rp.get("target"):
            targets = [t for t in targets if t.name == rp["target"]]
    else:
        pool = pool_a(chk.thorough)
        fcases, exn = gen_filters(chk)
    n = len(pool)
    hist = collections.Counter()
    nontriv = set()
    missing = set()
    failures = []          # (what, payload) machinery problems without a failing input
    evaluations = 0
    ntriples = 0
    skipped_hash_dependent = 0
    disagreements = 0
    kernel_cases, kernel_ok = 0, True
    samples = []
    for tgt in targets:
        ORDER = tgt.order
        # ---------------- mode A: pairs and triples ----------------
        keep = [(i, j) for i in range(n) for j in range(n) if not (tgt.order == "insertion" and hash_dependent(pool[i], pool[j]))]
        skipped_hash_dependent += n * n - len(keep)
        pcases = [pair_case(pool[i], pool[j]) for (i, j) in keep]
        r = corr_t(chk, tgt, pcases, 30 if tgt.order == "sorted" else 10)
        cls = run_model("C07", tgt.runner + "-classify", pcases) if pcases else []
        for idx, (i, j) in enumerate(keep):
            py = [1 if cross_class(pool[i], pool[j]) else 0, 0 if (has_nan(pool[i]) or has_nan(pool[j])) else 1, 1 if reordered(pool[i], pool[j]) else 0]
            if cls[idx] != py:
                failures.append(("known-finding classification differs between Coq (cross_kind / nan_free / reordered) and the check",
                                 {"theorem_or_correspondence": "C07.Spec.cross_kind vs tools/props/C07.py::cross_class", "target": tgt.name, "case": pcases[idx], "coq": cls[idx], "python": py}))
                break
        pos = {ij: idx for idx, ij in enumerate(keep)}
        for rel in (False, True):
            prof = "release" if rel else "debug"
            outs = r["impl"][rel]
            tab = Table(pool, [outs[pos[(i, j)]] if (i, j) in pos else ["skipped"] for i in range(n) for j in range(n)], n)

            def report(law, msg, idxs, profile):
                vals = [pool[i] for i in idxs]
                cls_ = None
                if len(vals) == 2:
                    cls_ = set(cross_classes(vals[0], vals[1]))
                    if tgt.order == "insertion" and reordered(vals[0], vals[1]): cls_.add("map-insertion-order")
                register(law, msg, {"values": vals, "shown": [show(v) for v in vals], "law": law, "observed": msg, "profile": profile, "target": tgt.name,
                                    "how": "./check C07 --replay <this file>"}, cls_)
            if n:
                check_pair_laws(tab, prof, report)
                if chk.thorough or n <= 140:
                    triples = ((i, j, k) for i in range(n) for j in range(n) for k in range(n))
                else:
                    triples = ((chk.rng.below(n), chk.rng.below(n), chk.rng.below(n)) for _ in range(20000))
                ntriples += check_triple_laws(tab, prof, report, triples)
        # ---------------- mode B: filters ----------------
        fk = filter_key_pool()
        fkc = [pair_case(a, b) for a in fk for b in fk]
        # the quick tier runs the filters of the IndexMap target in the release build only
        fprof = (False, True) if (tgt.order == "sorted" or chk.thorough or chk.replay) else (True,)
        fr = {rel: run_lines([tgt.bins[rel]], fkc) for rel in fprof}
        rf = corr_t(chk, tgt, fcases, 20 if tgt.order == "sorted" else 6, fprof)
        for rel in fprof:
            prof = "release" if rel else "debug"
            ct, et = {}, {}
            for idx, o in enumerate(fr[rel]):
                i, j = divmod(idx, len(fk))
                if len(o) == 7:
                    ct[(fk[i], fk[j])] = o[1]; et[(fk[i], fk[j])] = o[0]
            orc = Oracle(ct, et)
            for ci, c in enumerate(fcases):
                out = rf["impl"][rel][ci]
                for law, msg, kcls in check_filter(c, out, orc):
                    register(law, msg, {"case": c, "describe": fdescribe(c), "law": law, "observed": msg, "profile": prof, "target": tgt.name,
                                        "implementation": out[:60], "how": "./check C07 --replay <this file>"}, kcls)
                if not rel and tgt.order == "sorted":
                    hist["filter=" + FNAME[c[1]]] += 1
                    if out and out[0] == 0 and len(out) > 6: nontriv.add(tuple(c))
            missing |= orc.missing
        # ---------------- mode C: containment ----------------
        if chk.replay:
            ccs = [(tuple_deep(rp["container"]), tuple_deep(rp["needle"]))] if (rp and "container" in rp) else []
        else:
            ccs = contain_cases(chk.thorough)
        ccs = [(c, v) for (c, v) in ccs if not (tgt.order == "insertion" and hash_dependent(c, v))]
        ccases = [[2] + flat(c) + flat(v) for (c, v) in ccs]
        rc = corr_t(chk, tgt, ccases, 6, fprof)
        ep = contain_eq_pool()
        epc = [pair_case(a, b) for a in ep for b in ep]
        for rel in fprof:
            prof = "release" if rel else "debug"
            eo = run_lines([tgt.bins[rel]], epc) if ccases else []
            eqt = {}
            for idx, o in enumerate(eo):
                i, j = divmod(idx, len(ep))
                if len(o) == 7: eqt[(ckeyc(ep[i]), ckeyc(ep[j]))] = o[0]
            for ci, (c, v) in enumerate(ccs):
                for law, msg, kcls in check_contain(c, v, rc["impl"][rel][ci], eqt, tgt.order):
                    register(law, msg, {"container": c, "needle": v, "shown": {"container": show(c), "needle": show(v)}, "law": law, "observed": msg, "profile": prof,
                                        "target": tgt.name, "implementation [v in c, v not in c, v is in(c), v in (c|list), c[v] is defined]": rc["impl"][rel][ci],
                                        "how": "./check C07 --replay <this file>"}, kcls)
        # ---------------- mode D: comparison chains, operands as variables and as literals ----------------
        if chk.replay:
            chs = [tuple(tuple_deep(x) for x in rp["chain"])] if (rp and "chain" in rp) else []
        else:
            chs = chain_cases(chk.thorough)
        chs = [t for t in chs if not (tgt.order == "insertion" and (hash_dependent(t[1], t[0]) or hash_dependent(t[1], t[2]) or hash_dependent(t[0], t[2])))]
        built = [chain_case(*t) for t in chs]
        chcases = [x[0] for x in built]
        rch = corr_t(chk, tgt, chcases, 6, fprof)
        for rel in fprof:
            prof = "release" if rel else "debug"
            for ci, t in enumerate(chs):
                for law, msg, kcls in check_chain(t[0], t[1], t[2], built[ci][1], rch["impl"][rel][ci]):
                    register(law, msg, {"chain": list(t), "shown": {"a": show(t[0]), "b": show(t[1]), "c": show(t[2]), "literals": built[ci][1]}, "law": law, "observed": msg,
                                        "profile": prof, "target": tgt.name, "templates": CHAINS, "implementation (variables, then literals)": rch["impl"][rel][ci],
                                        "how": "./check C07 --replay <this file>"}, kcls)
        # ---------------- mode E: aliased operands; mode F: repeatable enumeration ----------------
        if chk.replay:
            als = [tuple(tuple_deep(x) for x in rp["alias"])] if (rp and "alias" in rp) else []
            ens = [(rp["enum"][0], tuple_deep(rp["enum"][1]))] if (rp and "enum" in rp) else []
        else:
            als = alias_cases(chk.thorough)
            ens = enum_cases(chk.thorough)
        alcases = [[4] + flat(x) + flat(a) + flat(b) for (x, a, b) in als]
        frcases = [pair_case(expand(a, x), expand(b, x)) for (x, a, b) in als]
        ral = corr_t(chk, tgt, alcases, 6, fprof)
        ens_m = [(op, c) for (op, c) in ens if op < 100]
        ens_i = [(op, c) for (op, c) in ens if op >= 100]
        encases = [[5, op] + flat(c) for (op, c) in ens_m]
        ren = corr_t(chk, tgt, encases, 6, fprof)
        for rel in fprof:
            prof = "release" if rel else "debug"
            fresh = run_lines([tgt.bins[rel]], frcases) if frcases else []
            for ci, (x, a, b) in enumerate(als):
                got = ral["impl"][rel][ci]
                if got != fresh[ci]:
                    register("identity-independent", "with one object shared inside both operands the answers [eq, cmp, hash_eq, a<b, a==b, a in [b], {b:1}[a]] are %s, for freshly built equal values they are %s" % (got, fresh[ci]),
                             {"alias": [x, a, b], "shown": {"shared x": show(x), "a": show(expand(a, x)).replace(show(x), "x") if a != REF else "x", "b": show(expand(b, x)).replace(show(x), "x") if b != REF else "x",
                                                            "a (structure)": show(expand(a, x)), "b (structure)": show(expand(b, x))},
                              "law": "identity-independent", "profile": prof, "target": tgt.name, "aliased": got, "fresh": fresh[ci], "how": "./check C07 --replay <this file>"}, None)
            extra = run_lines([tgt.bins[rel]], [[5, op] + flat(c) for (op, c) in ens_i]) if ens_i else []
            for (op, c), out in list(zip(ens_m, ren["impl"][rel])) + list(zip(ens_i, extra)):
                for law, msg, kcls in check_enum(op, c, out):
                    register(law, msg, {"enum": [op, c], "shown": {"x": show(c), "operation": ENUM_OPS[op], "observations": OBSERVATIONS}, "law": law, "observed": msg,
                                        "profile": prof, "target": tgt.name, "implementation": out[:80], "how": "./check C07 --replay <this file>"}, kcls)
        if tgt.order == "sorted":
            hist["aliasing"] += len(alcases); hist["enumeration"] += len(ens)
        evaluations += (2 * len(alcases) + len(ens)) * len(fprof)
        if tgt.order == "sorted":
            hist["chains"] += len(chcases)
        evaluations += len(chcases) * len(fprof)
        if tgt.order == "sorted":
            hist["containment"] += len(ccases)
        evaluations += (len(ccases) + len(epc)) * len(fprof)
        for what, rr, cs in (("pair", r, pcases), ("filter", rf, fcases), ("containment", rc, ccases), ("chain", rch, chcases), ("aliasing", ral, alcases), ("enumeration", ren, encases)):
            mm = [(i, rel) for i in range(len(cs)) for rel in sorted(rr["impl"]) if rr["impl"][rel][i] != rr["model"][i]]
            disagreements += len(mm)
            if mm:
                i, rel = mm[0]
                failures.append(("model and implementation disagree (%s, %s target)" % (what, tgt.name),
                                 {"theorem_or_correspondence": "correspondence C07.Runner.%s vs harness c07" % tgt.coq_run, "target": tgt.name, "case": cs[i],
                                  "describe": fdescribe(cs[i]) if what == "filter" else ([show(pool[k]) for k in keep[i]] if what == "pair" else [show(x) if isinstance(x, tuple) else x for x in (ccs[i] if what == "containment" else chs[i] if what == "chain" else [expand(y, als[i][0]) for y in als[i][1:]] if what == "aliasing" else ens_m[i])]),
                                  "implementation": rr["impl"][rel][i][:80], "model": rr["model"][i][:80], "profile": "release" if rel else "debug"}))
            kernel_cases += rr.get("kernel_checked", 0)
            if not rr.get("kernel_ok", False):
                kernel_ok = False
                failures.append(("kernel evaluation disagrees with extracted model", {"theorem_or_correspondence": "vm_compute cross-check of extraction", "target": tgt.name, "cases": rr.get("kernel_bad")}))
        evaluations += len(pcases) * 2 + (len(fkc) + len(fcases)) * len(fprof)
        if n and tgt.order == "sorted":
            samples += [{"a": show(pool[i]), "b": show(pool[j]), "answers [eq,cmp,hash_eq,a<b,a==b,a in [b],{b:1}[a] defined]": r["impl"][False][pos[(i, j)]]}
                        for (i, j) in ((2, 5), (n // 2, n // 3), (n - 1, n - 2)) if (i, j) in pos]
            samples += [dict(fdescribe(fcases[i]), output=rf["impl"][False][i][:40]) for i in (0, len(fcases) // 2, len(fcases) - 1) if fcases]
    ORDER = "sorted"

    # ---------------- coverage ----------------
    kinds = collections.Counter("pair-kinds:" + "/".join(sorted((a[0], b[0]))) for a in pool for b in pool)
    nt_pairs = sum(1 for i in range(n) for j in range(n) if i != j)
    chk.cov["evaluations"] = evaluations
    chk.cov["distinct_nontrivial"] = nt_pairs + len(nontriv)
    chk.cov["rule"] = ("two targets (default build with BTreeMap maps; `preserve_order` build with IndexMap maps), each in a debug and a release build (quick tier: filters, containment and chains of the IndexMap target in the release build only). "
                       "pairs: all %d ordered pairs of a %d-value pool (every kind, integer widths at their boundaries, floats by bit pattern incl. +-0/inf/NaN/2^53/2^63/2^64/2^127/2^128, "
                       "strings small/heap/safe, bytes, lists, tuples, sized+unsized lazy iterables, maps in both insertion orders, plain objects, nestings), all laws incl. %d triples per target and profile; "
                       "filters (17): exhaustive lists of length <= %d over 6-value pools x all keyword options (first %d cases) + maps over every ordered choice of <= 3 keys + container shapes + seeded long lists (up to 150 items); "
                       "containment: `v in c` / `not in` / the `in` test / `v in (c|list)` / `c[v] is defined` for every needle of a 25-value pool (strings, UTF-8 and other bytes spelling the same text, numbers, bool, none, containers) in lists / tuples / lazy iterables / maps (1, 2 and 14 entries, string and bytes keys) / strings / bytes / scalars, against == on the elements resp. keys; "
                       "chains: 22 comparison / containment chains (`a not in b != c`, `a < c in b`, `a == c == a` ...) over 10 x 11 x 10 operand triples, with the operands as context variables and - where all three have a literal - spelled as literals (constant-folded at compile time): literal form = variable form = model; "
                       "aliasing: all pairs of 18 shapes around one shared object x (x, [x], [[x]], [x, x], (x,), {'k': x} ... as clones of the same object and as fresh copies) for 6 x: answers must equal those for independently built values (= the structural model); "
                       "enumeration: 16 iterable-producing operations x 27 containers, the one result value listed / measured / reversed / listed again: every listing gives the same items; "
                       "non-trivial = ordered pair of two different pool values + distinct filter case with a non-empty result (counted once, not per target)"
                       % (n * n, n, ntriples // max(1, 2 * len(targets)), 5 if chk.thorough else 4, exn))
    chk.cov["exhaustive"] = False
    chk.cov["exhaustive_subbox_cases"] = exn
    chk.cov["samples"] = samples
    chk.cov["distribution"] = dict(collections.Counter({k: v for k, v in hist.items() if k.startswith("filter=") or k in ("containment", "chains", "aliasing", "enumeration")}) + collections.Counter(dict(kinds.most_common(25))))
    chk.cov["law_outcomes"] = dict(counts)
    chk.cov["impl_vs_model_disagreements"] = disagreements
    chk.cov["indexmap_pairs_left_out_as_hash_dependent"] = skipped_hash_dependent
    chk.cov["kernel_crosscheck"] = {"cases": kernel_cases, "agree": kernel_ok}
    if missing:
        chk.notes["oracle_pairs_without_table_entry"] = len(missing)
        failures.append(("oracle lacks comparison answers for some keys", {"theorem_or_correspondence": "tools/props/C07.py::filter_key_pool", "pairs": [list(map(show, k)) for k in list(missing)[:5]]}))
    if not proofs_ok:
        failures.append(("proof obligations of C07 do not check", {"theorem_or_correspondence": chk.proof["problems"]}))

    # ---------------- verdicts ----------------
    for law, (msg, replay) in list(found.items())[:8]:
        chk.violation("%s: %s" % (law, msg), replay)
    if not found:
        for what, payload in failures[:3]:
            chk.violation(what, payload, True)
    chk.finish()


def tuple_deep(v):
    return tuple(tuple_deep(x) for x in v) if isinstance(v, (list, tuple)) else v


if __name__ == "__main__":
    main()
