#!/usr/bin/env python3
"""C08 - numeric operators are exact or fail; they never wrap or lose the sign (DESIGN.md §3 C08).

case = [op, fa, a, fb, b]
  op   0 +   1 -   2 *   3 //   4 %   5 **   6 unary minus (b unused)   7 comparison (<, ==, >)
  form 0 integer literal in the expression text | 1 i64 | 2 u64 | 3 i128 | 4 u128 value
       5 f64 value (a/b = bit pattern) | 6 float literal in the text (bit pattern, finite)
       100*route + type: the same integer supplied by another ROUTE at another Rust width
         route 1 Value::from(x) | 2 Value::from(Serde(x)) | 3 field of a serialized struct | 4 element of a serialized Vec
               5 value of a serialized map | 6 round trip Value::from(x) -> T::deserialize -> Serde(t) | 7 Serde(Some(x))
         type  0 i8 1 i16 2 i32 3 i64 4 i128 5 isize 6 u8 7 u16 8 u32 9 u64 10 u128 11 usize
impl/model output: [0,z] integer | [4,bits] float | [1,code] error | [2] panic | [5,lt,eq,gt] | [9] n/a
"""
import os, sys, re, collections, struct, math
from concurrent.futures import ThreadPoolExecutor
from fractions import Fraction
sys.path.insert(0, os.path.dirname(os.path.dirname(os.path.abspath(__file__))))
from vlib import *

OPS = ["+", "-", "*", "//", "%", "**", "neg", "cmp"]
FORMS = ["literal", "i64", "u64", "i128", "u128", "f64", "float-literal"]
P127, P128, P63, P64 = 2**127, 2**128, 2**63, 2**64
NANB = 0x7ff8000000000000
ROUTES = {1: "From", 2: "Serde", 3: "struct-field", 4: "vec-element", 5: "map-value", 6: "deserialize-roundtrip", 7: "Serde(Some)"}
RTYPES = ["i8", "i16", "i32", "i64", "i128", "isize", "u8", "u16", "u32", "u64", "u128", "usize"]
RRANGE = [(-2**7, 2**7 - 1), (-2**15, 2**15 - 1), (-2**31, 2**31 - 1), (-2**63, 2**63 - 1), (-2**127, 2**127 - 1), (-2**63, 2**63 - 1),
          (0, 2**8 - 1), (0, 2**16 - 1), (0, 2**32 - 1), (0, 2**64 - 1), (0, 2**128 - 1), (0, 2**64 - 1)]


def form_name(f):
    if f >= 100:
        return "%s<%s>" % (ROUTES.get(f // 100, "?"), RTYPES[f % 100] if f % 100 < len(RTYPES) else "?")
    return FORMS[f]


def route_forms(z, dense):
    """every (route, Rust type) able to deliver z.  Sparse mode keeps all routes for the 128-bit types and for the
    narrowest signed / unsigned type, and the two serde routes (2, 6) for the wider ones."""
    fits = [t for t, (lo, hi) in enumerate(RRANGE) if lo <= z <= hi]
    narrow = set()
    for group in ((0, 1, 2, 3), (6, 7, 8, 9)):
        g = [t for t in group if t in fits]
        if g: narrow.add(g[0])
    out = []
    for t in fits:
        full = dense or t in (4, 10) or t in narrow
        for r in (ROUTES if full else (2, 6)):
            out.append(100 * r + t)
    return out



# the property's boundary pool (plus exponent boundaries for **)
POOL = sorted(set([0, 1, -1, 2, -2, 3, -3, 7, -7, 10, 63, 64, 127, 128,
                   2**31 - 1, 2**31 + 1, -(2**31) - 1, 2**32 - 1, 2**32, 2**32 + 1,
                   2**53 - 1, 2**53 + 1, -(2**53) - 1,
                   P63, -P63, P63 - 1, P63 + 1, -(P63 - 1), -(P63 + 1),
                   P64 - 1, P64 + 1, -(P64 + 1),
                   P127, -P127, P127 - 1, P127 + 1, -(P127 - 1), P128 - 1]))
QUICK_EXTRA_DROP = []  # the whole pool is cheap enough for the quick tier
# outside the property's range: literal-only, correspondence only (model: error)
OUTSIDE = [-(P127 + 1), P128, P128 + 1, -(P128 - 1), -P128]


def f2b(x):
    return struct.unpack("<Q", struct.pack("<d", x))[0]


def b2f(b):
    return struct.unpack("<d", struct.pack("<Q", b))[0]


FPOOL = [0.0, -0.0, 1.0, -1.0, 0.5, -0.5, 2.0, -2.0, 7.0, -7.0, 7.5, -7.5, 1.5, 3.0, -3.0, 0.1, 0.3, -0.3, 0.7, 1e-7,
         5e-324, 2.2250738585072014e-308, 1e300, -1e300, 1.7976931348623157e308,
         2.0**52 + 0.5, 2.0**53, 2.0**53 + 2, -(2.0**53), 2.0**63, -(2.0**63), 2.0**64, 2.0**127, -(2.0**127), 2.0**128,
         9007199254740993.0, 1e19, 6.0, 1e22]
FSPECIAL = [float("inf"), float("-inf"), float("nan")]


def int_forms(z):
    f = [0]
    if -P63 <= z < P63: f.append(1)
    if 0 <= z < P64: f.append(2)
    if -P127 <= z < P127: f.append(3)
    if 0 <= z < P128: f.append(4)
    return f


def is_float_form(f):
    return f in (5, 6)


def operand_value(f, v):
    """exact value of an operand: int, or float"""
    return b2f(v) if is_float_form(f) else v


def describe(c):
    def opnd(f, v):
        if is_float_form(f):
            return "%r as %s (bits %d)" % (b2f(v), form_name(f), v)
        return "%d as %s" % (v, form_name(f))
    d = {"op": OPS[c[0]], "a": opnd(c[1], c[2])}
    if c[0] != 6:
        d["b"] = opnd(c[3], c[4])
    def txt(f, v, name):
        if f == 0: return str(v)
        if f == 6: return repr(b2f(v))
        if f >= 100: return name + {3: ".v", 4: "[0]", 5: ".k"}.get(f // 100, "")
        return name
    if c[0] == 6:
        t = txt(c[1], c[2], "a")
        d["expr"] = "-(%s)" % t if t.startswith("-") else "-%s" % t
    elif c[0] == 7: d["expr"] = "%s < | == | > %s" % (txt(c[1], c[2], "a"), txt(c[3], c[4], "b"))
    else: d["expr"] = "%s %s %s" % (txt(c[1], c[2], "a"), OPS[c[0]], txt(c[3], c[4], "b"))
    return d


# ---------------------------------------------------------------------------------------
# generation
# ---------------------------------------------------------------------------------------
def all_ops_for(fa, a, fb, b, ops=(0, 1, 2, 3, 4, 5, 7)):
    return [[o, fa, a, fb, b] for o in ops]


def rand_int(rng):
    k = rng.below(6)
    if k == 0:
        return rng.choice(POOL)
    if k == 1:  # near a power of two
        e = rng.choice([7, 8, 15, 16, 31, 32, 53, 62, 63, 64, 65, 96, 126, 127, 128])
        z = 2**e + rng.below(5) - 2
        z = -z if rng.chance(1, 2) else z
    else:
        bits = rng.below(129)
        z = rng.next() | (rng.next() << 64)
        z &= (1 << bits) - 1
        z = -z if rng.chance(1, 2) else z
    return max(-P127, min(P128 - 1, z))


def gen_int(chk):
    rng = chk.rng
    cases = []
    pool = POOL
    # boundary box: pool^2 x all operators x every form pair that can hold the operands
    for a in pool:
        for f in int_forms(a):
            cases.append([6, f, a, 0, 0])
        for b in pool:
            for fa in int_forms(a):
                for fb in int_forms(b):
                    cases += all_ops_for(fa, a, fb, b)
    box_n = len(cases)
    for z in OUTSIDE:
        cases.append([6, 0, z, 0, 0])
        cases += all_ops_for(0, z, 0, 1, ops=(0, 3, 7)) + all_ops_for(1, 1, 0, z, ops=(0, 4, 5))
    # seeded random 128-bit pairs
    npairs = 100000 if chk.thorough else 3000
    for i in range(npairs):
        a = rand_int(rng); b = rand_int(rng)
        sel = rng.below(4)
        if sel == 0 and b != 0:       # exact multiples and near-multiples for // and %
            q = rng.below(1001) - 500
            a = max(-P127, min(P128 - 1, q * b + rng.below(3) - 1))
        elif sel == 1:                # exponents that keep ** in range sometimes
            b = rng.below(140); a = rng.below(2**(1 + rng.below(20))) - rng.below(2**(1 + rng.below(20)))
        fas, fbs = int_forms(a), int_forms(b)
        if chk.thorough and i % 10 != 0:
            pairs = [(rng.choice(fas), rng.choice(fbs))]
        else:
            pairs = [(x, y) for x in fas for y in fbs]       # all widths: width independence on the impl
        for fa, fb in pairs:
            cases += all_ops_for(fa, a, fb, b)
        for fa in fas:
            cases.append([6, fa, a, 0, 0])
    return cases, box_n


# values at which a supply route could go wrong: the edges of every Rust integer type and of the 64/128 bit representations
RPOOL = sorted(set(POOL + [P128 - P63, P128 - P63 - 1, P128 - P63 + 1, P128 - 2, P64, P64 - 2, P63 - 2,
                           127, 128, -128, -129, 255, 256, 32767, 32768, -32768, -32769, 65535, 65536,
                           2**31 - 1, 2**31, -(2**31), -(2**31) - 1, 2**32 - 1, 2**32, -P63 + 1, -P127 + 1, 5, -5]))


def gen_routes(chk):
    """the supply route as an input dimension: every pool value through every route/width, all operators, both positions"""
    rng = chk.rng
    cases = []
    for a in RPOOL:
        rf = route_forms(a, chk.thorough)
        for fa in rf:
            cases.append([6, fa, a, 0, 0])
            partners = [(1, 1), (0, 10), (1, -1)] if chk.thorough else [(1, 1), (0, 10)]
            for fb, b in partners:
                cases += all_ops_for(fa, a, fb, b) + all_ops_for(fb, b, fa, a)
            # the same number on both sides through two different routes
            fa2 = rng.choice(rf)
            cases += all_ops_for(fa, a, fa2, a, ops=(0, 1, 3, 4, 7))
        # base forms of the same pairs, so that every group has a reference answer
        for fa in int_forms(a):
            for fb, b in [(1, 1), (0, 10), (1, -1)]:
                cases += all_ops_for(fa, a, fb, b) + all_ops_for(fb, b, fa, a)
            for fa2 in int_forms(a):
                cases += all_ops_for(fa, a, fa2, a, ops=(0, 1, 3, 4, 7))
    return cases


def gen_routes_float(chk):
    cases = []
    floats = [2.5, -1.0, 0.0, 1e19, 2.0**64, 2.0**127, 2.0**128, -(2.0**63)]
    for z in RPOOL:
        forms = [f for f in route_forms(z, chk.thorough) if chk.thorough or f % 100 in (4, 10) or f // 100 in (2, 3)]
        near = float(z) if abs(z) < 2**1000 else None
        for f in forms:
            for y in floats + ([near] if near is not None else []):
                for o in (3, 4, 7):
                    cases.append([o, f, z, 5, f2b(y)]); cases.append([o, 5, f2b(y), f, z])
    return cases


# ---------------------------------------------------------------------------------------
# the literal family: integer literals by their source text (radix prefixes, separators, any width)
# ---------------------------------------------------------------------------------------
def T(text):
    return [len(text)] + [ord(ch) for ch in text]


def lit_text(c):
    return "".join(chr(x) for x in c[6:6 + c[5]])


def py_literal(text):
    """the number an integer literal denotes, by the documented grammar (written independently of the model):
    optional 0b/0o/0x prefix in either case, digits of that radix, `_` separators anywhere but at the end;
    'err' = a syntax error (trailing `_`, no digit, a digit the radix does not have, 2^128 or more)"""
    radix, body = 10, text
    if len(text) >= 2 and text[0] == "0" and text[1] in "bBoOxX":
        radix, body = {"b": 2, "o": 8, "x": 16}[text[1].lower()], text[2:]
    if body.endswith("_"):
        return "err"
    digits = body.replace("_", "")
    if not digits:
        return "err"
    alphabet = "0123456789abcdef"[:radix]
    if any(ch.lower() not in alphabet for ch in digits):
        return "err"
    v = int(digits, radix)
    return v if v < P128 else "err"


def to_radix(v, radix, upper=False):
    if v == 0: return "0"
    ds = ""
    while v:
        ds = "0123456789abcdef"[v % radix] + ds
        v //= radix
    return ds.upper() if upper else ds


def gen_literal_texts(chk):
    rng = chk.rng
    texts = []
    values = [0, 1, 7, 10**16, 2 * 10**21, P63 - 1, P63, P63 + 1, P64 - 1, P64, P64 + 1, P127 - 1, P127, P127 + 1, P128 - 1, P128, P128 + 1, 2**130]
    if chk.thorough:
        values += [rng.next() | (rng.next() << 64) >> rng.below(70) for _ in range(60)]
    for v in values:
        for radix, pl in ((10, ""), (2, "0b"), (8, "0o"), (16, "0x")):
            ds = to_radix(v, radix)
            variants = [pl + ds, pl.upper() + ds, pl + "000" + ds]
            if radix == 16:
                variants += [pl + ds.upper(), pl.upper() + ds.upper()]
            # separators: groups of four from the right, after the prefix, doubled, and one random place
            grouped = "_".join(ds[max(0, i - 4):i] for i in range(len(ds), 0, -4))[::1]
            grouped = "_".join(reversed([ds[max(0, i - 4):i] for i in range(len(ds), 0, -4)]))
            variants += [pl + grouped, pl + ds + "_"]
            if pl:
                variants += [pl + "_" + ds]
            if len(ds) > 2:
                k = 1 + rng.below(len(ds) - 1)
                variants += [pl + ds[:k] + "__" + ds[k:]]
            texts += variants
    # radix literals made of decimal digits only, around 64 and 128 bits (a decimal parser would accept them)
    for pl, alphabet, lens in (("0x", "0123456789", (15, 16, 17, 18, 31, 32, 33)), ("0o", "01234567", (21, 22, 23, 42, 43, 44)),
                               ("0X", "0123456789", (17, 32)), ("0O", "01234567", (22, 43))):
        for n in lens:
            texts.append(pl + "1" + "0" * (n - 1))
            texts.append(pl + alphabet[-1] * n)
            for _ in range(3 if chk.thorough else 1):
                body = str(1 + rng.below(len(alphabet) - 1)) + "".join(rng.choice(alphabet) for _ in range(n - 1))
                texts.append(pl + body)
                texts.append(pl + body[:n // 2] + "_" + body[n // 2:])
    # errors: digits the radix does not have, no digits at all, far too wide
    texts += ["0b102", "0b2", "0o78", "0o8", "0b" + "1" * 64 + "2", "0o" + "7" * 22 + "8", "0x", "0b", "0o", "0X", "0x_", "0b_",
              "0b" + "1" * 129, "0o" + "7" * 43, "0x" + "f" * 33, "9" * 39, "1_", "1__", "0_0"]
    seen, out = set(), []
    for t in texts:
        if t not in seen:
            seen.add(t); out.append(t)
    return out


def gen_literals(chk):
    cases = []
    for t in gen_literal_texts(chk):
        tt = T(t)
        cases.append([20, 8, 0, 0, 0] + tt)
        cases.append([20, 6, 0, 0, 0] + tt)
        for pos in (0, 1):
            for o in (0, 1, 2, 3, 4, 7):
                cases.append([20, o, pos, 1, 1] + tt)
            cases.append([20, 3, pos, 0, 10] + tt)
            cases.append([20, 7, pos, 0, 18446744073709551616] + tt)
        cases.append([20, 5, 0, 1, 1] + tt)
    return cases


def literal_equivalent(c, v, value_form):
    """the same case with the text literal replaced by its number: as a decimal literal (value_form False) or as a value"""
    o, pos, fb, b = c[1], c[2], c[3], c[4]
    f = (2 if v < P64 else 4) if value_form else 0
    if o == 8: return None
    if o == 6: return [6, f, v, 0, 0]
    return [o, f, v, fb, b] if pos == 0 else [o, fb, b, f, v]


def describe_literal(c):
    o, t = c[1], lit_text(c)
    other = "%d as %s" % (c[4], form_name(c[3]))
    b = str(c[4]) if c[3] == 0 else "b"
    if o == 8: e = t
    elif o == 6: e = "-" + t
    elif o == 7: e = ("%s < | == | > %s" % ((t, b) if c[2] == 0 else (b, t)))
    else: e = "%s %s %s" % ((t, OPS[o], b) if c[2] == 0 else (b, OPS[o], t))
    return {"literal": t, "denotes": py_literal(t), "expr": e, "other_operand": None if o in (6, 8) else other}


def rand_float(rng, nice):
    if nice:   # small dyadic rationals: everything about them is exact in f64
        k = rng.below(2**rng.below(21) + 1); j = rng.below(11)
        x = k / 2.0**j
        return -x if rng.chance(1, 2) else x
    while True:
        x = b2f(rng.next())
        if math.isfinite(x):
            return x


def gen_float(chk):
    rng = chk.rng
    cases = []
    fbits = [f2b(x) for x in FPOOL]
    sbits = [f2b(x) for x in FSPECIAL]
    # float x float
    for x in fbits + sbits:
        for form in (5, 6):
            if form == 6 and x in sbits: continue
            cases.append([6, form, x, 0, 0])
        for y in fbits + sbits:
            for o in (0, 1, 2, 3, 4):
                cases.append([o, 5, x, 5, y])
                if x not in sbits and y not in sbits and o in (3, 4):
                    cases.append([o, 6, x, 6, y])
    # integer x float, both orders, every integer form
    ipool = [z for z in POOL if z not in (63, 64, 127, 128, 10)]
    for z in ipool:
        for fz in int_forms(z):
            if fz == 0 and z == -P127: continue          # the literal of the known finding
            for y in fbits + (sbits if fz == 1 else []):
                for o in (3, 4, 7):
                    cases.append([o, fz, z, 5, y]); cases.append([o, 5, y, fz, z])
    # floats next to the pool integers (comparison must tell them apart)
    for z in ipool:
        fz = float(z)
        for y in set([fz, math.nextafter(fz, math.inf), math.nextafter(fz, -math.inf)]):
            if not math.isfinite(y): continue
            for f in int_forms(z):
                if f == 0 and z == -P127: continue
                cases.append([7, f, z, 5, f2b(y)]); cases.append([7, 5, f2b(y), f, z])
    n = 40000 if chk.thorough else 3000
    for i in range(n):
        nice = i % 2 == 0
        x, y = rand_float(rng, nice), rand_float(rng, nice)
        form = 6 if i % 5 == 0 else 5
        for o in (3, 4):
            cases.append([o, form, f2b(x), form, f2b(y)])
        if i % 3 == 0:
            z = rand_int(rng)
            f = rng.choice([g for g in int_forms(z) if not (g == 0 and z == -P127)])
            for o in (3, 4, 7):
                cases.append([o, f, z, 5, f2b(x)])
            near = float(z)
            if math.isfinite(near):
                cases.append([7, f, z, 5, f2b(near)])
                cases.append([7, 5, f2b(math.nextafter(near, math.inf)), f, z])
    return cases


# ---------------------------------------------------------------------------------------
# running (parallel chunks; vlib.run_lines is sequential)
# ---------------------------------------------------------------------------------------
def prun(fn, cases, nchunk=16):
    if len(cases) < 2000:
        return fn(cases)
    size = (len(cases) + nchunk - 1) // nchunk
    chunks = [cases[i:i + size] for i in range(0, len(cases), size)]
    with ThreadPoolExecutor(max_workers=nchunk) as ex:
        parts = list(ex.map(fn, chunks))
    out = []
    for p in parts:
        out.extend(p)
    return out


def run_all(cases, with_model=True):
    res = {"impl": {}}
    for rel in (False, True):
        res["impl"][rel] = prun(lambda cs, rel=rel: run_impl("c08", cs, release=rel), cases)
    if with_model:
        res["model"] = prun(lambda cs: run_model("C08", "c08", cs), cases)
    return res


# ---------------------------------------------------------------------------------------
# the float oracle (exact rationals); integers are judged by the extracted Coq oracle
# ---------------------------------------------------------------------------------------
def as_float_operand(f, v):
    """the f64 the engine calculates with (integers are converted with `as f64`: round to nearest even)"""
    if is_float_form(f):
        return b2f(v)
    try:
        return float(v)       # correctly rounded, like Rust's `as f64`
    except OverflowError:
        return None


def float_euclid_expect(a, b):
    """exact Euclidean quotient and remainder of two finite floats, b != 0"""
    A, B = Fraction(a), Fraction(b)
    R = A % abs(B)                 # in [0, |B|)
    Q = (A - R) / B
    assert Q.denominator == 1
    return Q.numerator, R


def ulp_of(x):
    return math.ulp(x)


def judge_float(c, out):
    """-> None (not judged) | (True, None) | (False, reason)"""
    o = c[0]
    if out == [2] or (out and out[0] == "CRASH"):
        return (False, "crash")
    if o == 7:
        x, y = operand_value(c[1], c[2]), operand_value(c[3], c[4])
        if any(isinstance(t, float) and not math.isfinite(t) for t in (x, y)):
            return None
        if isinstance(x, float) and isinstance(y, float):
            return None
        exp = [5, int(x < y), int(x == y), int(x > y)]     # Python compares int with float exactly
        return (True, None) if out == exp else (False, "int/float comparison is not exact: expected %s" % exp[1:])
    if o in (3, 4):
        a, b = as_float_operand(c[1], c[2]), as_float_operand(c[3], c[4])
        if a is None or b is None or not (math.isfinite(a) and math.isfinite(b)) or b == 0.0:
            return None
        if out[0] != 4:
            return (False, "answer is not a float")
        got = b2f(out[1])
        Q, R = float_euclid_expect(a, b)
        if o == 4:
            exp = float(R)        # correctly rounded
            if got == exp:
                return (True, None)
            return (False, "remainder is not the Euclidean one: exact %s (%r), 0 <= r < |b| violated or different" % (R, exp))
        if not math.isfinite(got):
            try:
                float(Q)
            except OverflowError:
                return None                      # the exact quotient is beyond f64
            return (False, "quotient is not finite although the exact Euclidean quotient %d is representable" % Q)
        if got != math.trunc(got):
            return (False, "quotient is not integral")
        A, B, q = Fraction(a), Fraction(b), Fraction(got)
        # (a // b) * b + a % b == a up to the rounding of the operations involved (4 ulps of the magnitudes)
        if abs(q * B + R - A) <= (abs(q * B) + R + abs(A)) / 2**50:
            return (True, None)
        return (False, "(a // b) * b + a %% b differs from a by far more than rounding: exact Euclidean quotient is %d" % Q)
    return None


def ieee_expect(c):
    """informational: IEEE result for + - * and unary minus on floats"""
    o = c[0]
    if o == 6:
        if not is_float_form(c[1]): return None
        r = -b2f(c[2])
    elif o in (0, 1, 2):
        a, b = as_float_operand(c[1], c[2]), as_float_operand(c[3], c[4])
        if a is None or b is None: return None
        r = a + b if o == 0 else a - b if o == 1 else a * b
    else:
        return None
    return [4, NANB if math.isnan(r) else f2b(r)]


# ---------------------------------------------------------------------------------------
def magnitude_bucket(z):
    s = "-" if z < 0 else "+"
    z = abs(z)
    if z == 0: return "0"
    if z <= 2: return s + "1..2"
    for name, lim in (("<2^31", 2**31), ("<2^53", 2**53), ("<2^63", P63), ("<2^64", P64), ("<2^127", P127)):
        if z < lim: return s + name
    if z == P127: return s + "=2^127"
    return s + ">2^127"


def int_outcome_class(c, out, jv):
    """why the engine answered what it answered, by the exact arithmetic"""
    if jv[:1] == [3]: return "known-finding class"
    if jv[:1] == [9]: return "outside [-2^127,2^128) (literal only)"
    if not out: return "other"
    if out[0] == 5: return "comparison"
    if out[0] == 0: return "exact integer" + (" (beyond i64)" if not -P63 <= out[1] < P63 else "")
    if out[0] == 1:
        o, a, b = c[0], c[2], c[4]
        if not -P127 <= a < P127 or (o != 6 and not -P127 <= b < P127): return "error: operand beyond i128"
        if o in (3, 4) and b == 0: return "error: zero divisor"
        if o == 5 and b < 0: return "error: negative exponent"
        return "error: exact result beyond i128"
    return "other"


def float_class(x):
    if isinstance(x, int): return "integer " + magnitude_bucket(x)
    if math.isnan(x): return "nan"
    if math.isinf(x): return "inf"
    if x == 0: return "zero"
    a = abs(x)
    if a < 2.2250738585072014e-308: return "subnormal"
    if a != math.floor(a): return "fractional" + (" <1" if a < 1 else "")
    return "integral" + (" >=2^53" if a >= 2.0**53 else "")


def main():
    chk = Check("C08", "proof")
    chk.cov["trusted_base"] = TRUSTED_COMMON + [
        "Print Assumptions: the twelve integer / comparison theorems are closed under the global context (no axioms); the three float theorems "
        "(euclid_float_remainder, euclid_float_quotient, euclid_float_convention) depend on exactly the four classical axioms of Coq's Reals / Flocq: "
        "ClassicalDedekindReals.sig_not_dec, ClassicalDedekindReals.sig_forall_dec, FunctionalExtensionality.functional_extensionality_dep, Classical_Prop.classic "
        "(named in tools/axiom_allowlist.txt; the check fails if any other theorem uses an axiom)",
        "Flocq 4.1.0 (IEEE754.BinarySingleNaN: Bplus, Bminus, Bdiv, Bnearbyint, binary_normalize and their correctness theorems) as the definition of IEEE-754 binary64 arithmetic; "
        "the hardware's f64 + - / round and fmod are assumed to be these correctly rounded operations (checked bit-for-bit by the correspondence run only)",
        "float leg: int/float comparison proved exact in pure Z (int_float_cmp_exact); for all finite a, b != 0 float % proved to be the correctly rounded exact Euclidean remainder and float // the exact Euclidean quotient Q "
        "below 2^51 - 1 and within 2^-50 |Q| beyond (Flocq model); as a second opinion an exact-rational oracle in tools/props/C08.py (Python fractions; float(int) and float(Fraction) are correctly rounded) judges the implementation"]
    chk.assumptions = [
        "integers held by values lie in [-2^127, 2^128) (value representation); operands are literals or i64/u64/i128/u128 values",
        "modelled: ops.rs::{coerce,add,sub,mul,int_div,rem,pow,neg,int_as_value,float_div_euclid}, i128::try_from(Value), Value eq/cmp on integers and integer/float, lexer eat_number integer branch, literal negation in codegen; "
        "i128::checked_{add,sub,mul,div_euclid,pow}, wrapping_rem_euclid, f64::{rem_euclid,div_euclid,round,trunc}, `%` on f64 and `as f64` are modelled from core's documented definitions",
        "float results are judged after the final rounding: a % b must equal the correctly rounded exact Euclidean remainder (so r == |b| can appear when r + |b| rounds up), a // b must be integral and satisfy |(a//b)*b + R - a| <= 2^-50 (|(a//b)*b| + R + |a|) in exact rationals with R the exact Euclidean remainder (this forces the exact quotient whenever it is below 2^48); the sign of a zero result is not judged by the oracle (it is compared bit-for-bit with the model)",
        "float + - * ** and unary minus are outside the property's claims (IEEE agreement of + - * neg is recorded in coverage.notes only)"]
    ok_models, blog = build_models("C08")
    proofs_ok = chk.run_proofs()
    # only the float-leg theorems (real numbers, Flocq) may depend on the allow-listed classical axioms;
    # Print Assumptions of Props/C08.v is re-read here because axioms with long types span several lines
    FLOAT_THEOREMS = {"euclid_float_remainder", "euclid_float_quotient", "euclid_float_convention"}
    REAL_AXIOMS = {"ClassicalDedekindReals.sig_not_dec", "ClassicalDedekindReals.sig_forall_dec",
                   "FunctionalExtensionality.functional_extensionality_dep", "Classical_Prop.classic"}
    blocks = re.split(r"^(?=Closed under the global context|Axioms:)", chk.proof.get("log", ""), flags=re.M)
    blocks = [b for b in blocks if b.startswith("Closed under") or b.startswith("Axioms:")]
    names = [t["name"] for t in chk.proof.get("theorems", [])]
    axioms_used = {}
    if len(blocks) == len(names):
        for n, b in zip(names, blocks):
            ax = set(re.findall(r"^([A-Za-z_][A-Za-z0-9_'.]*)\s*(?::|$)", b, flags=re.M)) - {"Axioms", "Closed"}
            axioms_used[n] = sorted(ax)
            if n not in FLOAT_THEOREMS and ax:
                proofs_ok = False
                chk.proof.setdefault("problems", []).append("theorem %s must be closed under the global context but uses %s" % (n, sorted(ax)))
            if n in FLOAT_THEOREMS and not ax <= REAL_AXIOMS:
                proofs_ok = False
                chk.proof.setdefault("problems", []).append("theorem %s uses axioms beyond the four of Coq's Reals/Flocq: %s" % (n, sorted(ax - REAL_AXIOMS)))
        chk.cov["axioms_by_theorem"] = axioms_used
    elif chk.proof.get("ok"):
        proofs_ok = False
        chk.proof.setdefault("problems", []).append("cannot match Print Assumptions blocks to theorems")
    if not proofs_ok:
        chk.cov["discharged"] = 0
        chk.cov["proof_problems"] = chk.proof.get("problems", [])
    okc, clog = cargo_build(["c08"], release=False)
    okr, clog2 = cargo_build(["c08"], release=True)
    if not (okc and okr):
        chk.violation("harness does not build against the current /repo tree", {"theorem_or_correspondence": "build of harness/src/bin/c08.rs", "log": (clog + clog2)[-1500:]}, True)
        chk.finish()
    if not ok_models:
        chk.violation("model build failed", {"theorem_or_correspondence": "coq/theories/C08/{Model,Spec,Runner}.v build", "log": blog[-1500:]}, True)
        chk.finish()
    box_n = 0
    if chk.replay:
        rp = json.load(open(chk.replay))["replay"]
        cases = rp.get("cases") or ([rp["case"]] if "case" in rp else [])
        if not cases:
            log("replay file names no input (a proof / correspondence finding): running the whole check instead")
            chk.replay = None
    lcases = []
    if chk.replay:
        lcases = [c for c in cases if c[0] == 20]
        cases = [c for c in cases if c[0] != 20]
        icases = [c for c in cases if not (is_float_form(c[1]) or (c[0] != 6 and is_float_form(c[3])))]
        fcases = [c for c in cases if c not in icases]
        route_cases = []
    else:
        lcases = gen_literals(chk)
        icases, box_n = gen_int(chk)
        route_cases = gen_routes(chk)
        icases += route_cases
        fcases = gen_float(chk) + gen_routes_float(chk)

    known_by_jid = {}
    for k in chk.known:
        jid = k.get("match", {}).get("judge_known_id")
        if jid is not None:
            known_by_jid[jid] = k

    # ---------------- integer leg ----------------
    r = run_all(icases)
    model = r["model"]
    mism = [(i, rel) for i in range(len(icases)) for rel in (False, True) if r["impl"][rel][i] != model[i]]
    bad = collections.OrderedDict()       # index -> (profile, out, reason)
    known_seen = collections.defaultdict(list)
    REASON = {2: "crash (panic)", 4: "wrong integer (not the exact result)", 5: "error although operands and exact result fit the 128-bit signed range", 6: "answer of an unexpected kind"}
    judged = {}
    for rel in (False, True):
        outs = r["impl"][rel]
        # judge only distinct (case, output) pairs once per profile
        if rel and outs == r["impl"][False]:
            judged[rel] = judged[False]
            continue
        judged[rel] = prun(lambda cs: run_model("C08", "c08-judge", cs), [c + o for c, o in zip(icases, outs)])
    raw_needed = []
    for rel in (False, True):
        for i, v in enumerate(judged[rel]):
            out = r["impl"][rel][i]
            if out and out[0] == "CRASH":
                bad.setdefault(i, ("release" if rel else "debug", out, "process died"))
            elif v[:1] == [0]:
                why = REASON.get(v[1], str(v))
                if out == [9] and max(icases[i][1], icases[i][3]) >= 100:
                    why = "the supply route failed to deliver the operand"
                elif max(icases[i][1], icases[i][3]) >= 100:
                    why += " (operand supplied through %s)" % ", ".join(form_name(f) for f in (icases[i][1], icases[i][3]) if f >= 100)
                bad.setdefault(i, ("release" if rel else "debug", out, why))
            elif v[:1] == [3]:
                raw_needed.append((i, rel, v[1]))
    if raw_needed:
        raw = run_model("C08", "c08-judge-raw", [icases[i] + r["impl"][rel][i] for i, rel, _ in raw_needed])
        for (i, rel, jid), v in zip(raw_needed, raw):
            out = r["impl"][rel][i]
            if v == [1]:
                continue                          # acceptable as it is (e.g. -(-2^127) = 2^127)
            k = known_by_jid.get(jid)
            if k is not None and out == model[i]:
                known_seen[jid].append(i)         # the listed behaviour, exactly as modelled
            else:
                bad.setdefault(i, ("release" if rel else "debug", out, REASON.get(v[1] if len(v) > 1 else 0, str(v)) +
                                   (" (inside the class of known finding %s but not the listed behaviour)" % k["id"] if k else "")))
    for jid, idxs in known_seen.items():
        k = known_by_jid[jid]
        chk.known_finding(k["id"], k["what"])
    # Euclid law and width independence on the implementation's own answers
    groups = collections.defaultdict(dict)
    byforms = collections.defaultdict(dict)
    law_bad, width_bad = [], []
    for rel in (False, True):
        groups.clear(); byforms.clear()
        for i, c in enumerate(icases):
            jv = judged[rel][i]
            if jv[:1] in ([3], [9]):
                continue
            key = (c[0], c[2], c[4] if c[0] != 6 else 0)
            groups[key][(c[1], c[3] if c[0] != 6 else 0)] = (tuple(r["impl"][rel][i]), i)
            if c[0] in (3, 4):
                byforms[(c[1], c[2], c[3], c[4])][c[0]] = (r["impl"][rel][i], i)
        for key, d in groups.items():
            outs = set(o for o, _ in d.values())
            if len(outs) > 1:
                idx = sorted(i for _, i in d.values())
                width_bad.append((rel, key, idx))
        for key, d in byforms.items():
            if 3 in d and 4 in d and d[3][0][0] == 0 and d[4][0][0] == 0:
                q, rr = d[3][0][1], d[4][0][1]
                a, b = key[1], key[3]
                if not (q * b + rr == a and 0 <= rr < abs(b)):
                    law_bad.append((rel, d[3][1], d[4][1], q, rr))

    # ---------------- literal family ----------------
    lbad = collections.OrderedDict()
    lmism = []
    lhist = collections.Counter()
    if lcases:
        rl = run_all(lcases)
        eq_lit = [literal_equivalent(c, py_literal(lit_text(c)), False) if py_literal(lit_text(c)) != "err" else None for c in lcases]
        eq_val = [literal_equivalent(c, py_literal(lit_text(c)), True) if py_literal(lit_text(c)) != "err" else None for c in lcases]
        eq_idx = [i for i, e in enumerate(eq_val) if e is not None]
        for rel in (False, True):
            out_val = dict(zip(eq_idx, prun(lambda cs: run_impl("c08", cs, release=rel), [eq_val[i] for i in eq_idx])))
            jl = dict(zip(eq_idx, prun(lambda cs: run_model("C08", "c08-judge", cs), [eq_lit[i] + rl["impl"][rel][i] for i in eq_idx])))
            for i, c in enumerate(lcases):
                out = rl["impl"][rel][i]
                v = py_literal(lit_text(c))
                prof = "release" if rel else "debug"
                if rel is False:
                    lhist["error literal" if v == "err" else "radix %d, %s" % (10 if not (len(lit_text(c)) > 1 and lit_text(c)[1] in "bBoOxX") else {"b": 2, "o": 8, "x": 16}[lit_text(c)[1].lower()],
                                                                             "< 2^64" if v < P64 else "< 2^128")] += 1
                if rl["model"][i] not in ([7], [9]) and rl["model"][i] != out:
                    lmism.append((i, rel))
                if out == [2] or (out and out[0] == "CRASH"):
                    lbad.setdefault(i, (prof, out, "crash")); continue
                if v == "err":
                    exp = [5, 104, 104, 104] if c[1] == 7 else [1, 4]
                    if out != exp:
                        lbad.setdefault(i, (prof, out, "literal accepted although it is malformed or denotes 2^128 or more: expected a syntax error"))
                elif c[1] == 8:
                    if out != [0, v]:
                        lbad.setdefault(i, (prof, out, "literal does not denote the number its digits spell in its radix: expected %d" % v))
                else:
                    if jl[i][:1] == [0]:
                        lbad.setdefault(i, (prof, out, "literal operand: " + REASON.get(jl[i][1], str(jl[i])) + " (the literal denotes %d)" % v))
                    elif jl[i][:1] not in ([3], [9]) and out != out_val[i]:
                        lbad.setdefault(i, (prof, out, "literal form differs from variable form: the same number as a value gives %s" % out_val[i]))

    # ---------------- float leg ----------------
    rf = run_all(fcases, with_model=False)
    fbad = collections.OrderedDict()
    fjudged = 0
    ieee_mismatch = 0
    fpairs = collections.defaultdict(dict)
    fwidth = collections.defaultdict(dict)
    for rel in (False, True):
        for i, c in enumerate(fcases):
            out = rf["impl"][rel][i]
            v = judge_float(c, out)
            if v is not None:
                fjudged += 1
                if not v[0]:
                    fbad.setdefault(i, ("release" if rel else "debug", out, v[1]))
            e = ieee_expect(c)
            if e is not None and out != e:
                ieee_mismatch += 1
            if rel is False and c[0] in (3, 4, 7):
                # same numbers in another integer width / literal vs value form must give the same answer
                va, vb = operand_value(c[1], c[2]), operand_value(c[3], c[4])
                fwidth[(c[0], repr(va), repr(vb), is_float_form(c[1]), is_float_form(c[3]))][(c[1], c[3])] = (tuple(out), i)
    # int/float comparison: also through the Coq model (correspondence) and the extracted exact oracle
    # float // and %: through the Flocq binary64 model (bit-for-bit correspondence, zero signs included)
    cmp_idx = [i for i, c in enumerate(fcases) if c[0] in (3, 4, 7)]
    cmp_model = prun(lambda cs: run_model("C08", "c08", cs), [fcases[i] for i in cmp_idx])
    fmism = []
    fmodelled = 0
    feuclid_modelled = 0
    for rel in (False, True):
        jc = prun(lambda cs: run_model("C08", "c08-judge", cs), [fcases[i] + rf["impl"][rel][i] for i in cmp_idx])
        for i, mo, v in zip(cmp_idx, cmp_model, jc):
            out = rf["impl"][rel][i]
            if mo not in ([7], [9]):
                if fcases[i][0] == 7: fmodelled += 1
                else: feuclid_modelled += 1
                if mo != out:
                    fmism.append((i, rel, mo))
            if fcases[i][0] == 7 and v[:1] == [0]:
                fbad.setdefault(i, ("release" if rel else "debug", out, "int/float comparison is not exact (Coq oracle exact_cmp_rat)"))
    for key, d in fwidth.items():
        if len(set(o for o, _ in d.values())) > 1:
            idx = sorted(i for _, i in d.values())
            fbad.setdefault(idx[0], ("debug", rf["impl"][False][idx[0]], "answer depends on the form/width of an operand: " +
                                     "; ".join("%s/%s -> %s" % (form_name(k[0]), form_name(k[1]), list(o)) for k, (o, _) in sorted(d.items()))))

    # ---------------- coverage ----------------
    H = collections.defaultdict(collections.Counter)     # histogram name -> bucket -> count (per case, debug profile)
    nontriv = set()
    for i, c in enumerate(icases):
        out = r["impl"][False][i]
        jv = judged[False][i]
        unary = c[0] == 6
        oc = int_outcome_class(c, out, jv)
        H["integer leg: operator"][OPS[c[0]]] += 1
        H["integer leg: supply route"][" , ".join(sorted(set(ROUTES[f // 100] if f >= 100 else "literal" if f == 0 else "From (i64/u64/i128/u128)" for f in ((c[1],) if unary else (c[1], c[3])))))] += 1
        H["integer leg: operand forms"][form_name(c[1]) + ("" if unary else " , " + form_name(c[3]))] += 1
        H["integer leg: magnitude of a"][magnitude_bucket(c[2])] += 1
        if not unary:
            H["integer leg: magnitude of b"][magnitude_bucket(c[4])] += 1
        H["integer leg: outcome class"][oc] += 1
        H["integer leg: outcome class by operator"][OPS[c[0]] + " -> " + oc] += 1
        H["integer leg: part"]["exhaustive boundary box" if i < box_n else "seeded random / outside-range"] += 1
        if jv == [1]:
            big = max(abs(c[2]), abs(c[4]) if c[0] != 6 else 0) >= 2**31 or (out[0] == 0 and abs(out[1]) >= P63)
            if big or (c[0] in (3, 4) and (c[2] < 0 or c[4] < 0) and out[0] == 0):
                nontriv.add((c[0], c[2], c[4] if c[0] != 6 else 0))
    for i, c in enumerate(fcases):
        out = rf["impl"][False][i]
        v = judge_float(c, out)
        unary = c[0] == 6
        x = operand_value(c[1], c[2]); y = None if unary else operand_value(c[3], c[4])
        H["float leg: operator"][OPS[c[0]]] += 1
        H["float leg: operand forms"][form_name(c[1]) + ("" if unary else " , " + form_name(c[3]))] += 1
        H["float leg: operand a"][float_class(x)] += 1
        if not unary:
            H["float leg: operand b"][float_class(y)] += 1
        H["float leg: answer"][{4: "float", 5: "comparison", 1: "error", 0: "integer", 2: "panic"}.get(out[0] if out else -1, "other")] += 1
        H["float leg: oracle"]["not judged (outside the property's claims: + - * neg, non-finite, zero divisor, float/float comparison)" if v is None
                               else "judged: accepted" if v[0] else "judged: rejected"] += 1
        if c[0] in (3, 4) and v is not None:
            a_, b_ = as_float_operand(c[1], c[2]), as_float_operand(c[3], c[4])
            Q_, _ = float_euclid_expect(a_, b_)
            H["float leg: exact Euclidean quotient"]["|Q| < 2^51-1 (theorem: exact)" if abs(Q_) < 2**51 - 1 else
                                                     "|Q| >= 2^51-1 (theorem: within 2^-50 |Q| when finite)"] += 1
        if v is not None and v[0]:
            if c[0] == 7 or x < 0 or y < 0 or x != int(x) or y != int(y):
                nontriv.add((c[0], repr(x), repr(y)))
    hist = {k: dict(sorted(v.items(), key=lambda kv: -kv[1])) for k, v in H.items()}
    chk.cov["literal_family_cases"] = len(lcases)
    chk.cov["literal_family_texts"] = len(set(lit_text(c) for c in lcases))
    H["literal family: literal"].update(lhist)
    hist = {k: dict(sorted(v.items(), key=lambda kv: -kv[1])) for k, v in H.items()}
    chk.cov["evaluations"] = 2 * (len(icases) + len(fcases) + len(lcases))
    chk.cov["distinct_nontrivial"] = len(nontriv)
    chk.cov["rule"] = ("integer leg: boundary pool (%d values: 0, +-1, +-2, 2^31+-1, 2^32+-1, 2^53+-1, +-2^63, +-(2^63+-1), 2^64+-1, +-2^127, +-(2^127+-1), 2^128-1, small exponents) squared x "
                       "{+,-,*,//,%%,**,cmp} + unary minus x every pair of operand forms able to hold the numbers (first %d cases, exhaustive), "
                       "plus seeded random 128-bit pairs (all widths), plus the literal family (integer literals by their source text: every radix prefix in either case x values around 2^63, 2^64, 2^127, 2^128 x "
                       "upper/lower digits, leading zeros, `_` separators, decimal-digit-only hex/octal strings around 64 and 128 bits, malformed and too-large literals; alone, negated and as either operand of every operator; "
                       "must denote the number its digits spell, equal the variable form, or be a syntax error), plus the supply-route leg: every value of the route pool (type edges i8..u128, 2^128-2^63+-1, 2^128-1, ...) delivered through "
                       "Value::from / Serde / struct field / Vec element / map value / deserialize round trip / Serde(Some) at every Rust integer type able to hold it, x all operators, both operand positions; float leg: float pool^2, pool integers x floats in every integer form and both orders, "
                       "floats adjacent to the pool integers, seeded random floats (dyadic and raw bit patterns); every case runs in a debug and a release build. "
                       "non-trivial = distinct (operator, a, b) number triple (forms merged) that the oracle judged and accepted and where an operand is >= 2^31 in magnitude or the "
                       "result >= 2^63, or a // or %% with a negative operand; for the float leg: a judged comparison, or a // %% with a negative or non-integral operand" % (len(POOL), box_n))
    chk.cov["exhaustive"] = False
    chk.cov["exhaustive_subbox_cases"] = box_n
    chk.cov["integer_cases"] = len(icases)
    chk.cov["supply_route_cases"] = (len(route_cases) + len([c for c in fcases if max(c[1], c[3]) >= 100])) if not chk.replay else 0
    chk.cov["float_cases"] = len(fcases)
    chk.cov["float_cases_judged"] = fjudged
    pick = sorted(set(i for i in (0, len(icases) // 3, len(icases) // 2, len(icases) - 1) if 0 <= i < len(icases)))
    fpick = sorted(set(i for i in (len(fcases) // 4, len(fcases) - 1) if 0 <= i < len(fcases)))
    chk.cov["samples"] = [dict(describe_literal(lcases[i]), answer=rl["impl"][False][i]) for i in sorted(set((len(lcases) // 3, len(lcases) - 1))) if 0 <= i < len(lcases)] + \
                         [dict(describe(icases[i]), answer=r["impl"][False][i]) for i in pick] + \
                         [dict(describe(fcases[i]), answer=rf["impl"][False][i]) for i in fpick]
    chk.cov["distribution"] = hist
    chk.cov["impl_vs_model_disagreements"] = len(mism) + len(fmism) + len(lmism)
    chk.cov["int_float_comparisons_through_model"] = fmodelled
    chk.cov["float_floordiv_rem_through_model"] = feuclid_modelled
    chk.notes["float_ieee_mismatches_informational"] = ieee_mismatch
    # kernel cross-check of the extraction on a sample
    kern_ok, kern_n = True, 0
    if icases:
        step = max(1, len(icases) // 40)
        idx = list(range(0, len(icases), step))[:40]
        kern = kernel_eval("run", [icases[i] for i in idx], "k_C08_c08", imports="Common.Base C08.Runner")
        kern_n = len(idx)
        kern_ok = kern is not None and all(j < len(kern) and kern[j] == model[idx[j]] for j in range(len(idx)))
    # ... and of the Flocq float model (float // and %)
    fk_idx = [i for i, mo in zip(cmp_idx, cmp_model) if fcases[i][0] in (3, 4) and mo not in ([7], [9])]
    if fk_idx:
        step = max(1, len(fk_idx) // 24)
        fk_idx = fk_idx[::step][:24]
        pos = {i: k for k, i in enumerate(cmp_idx)}
        kernf = kernel_eval("run", [fcases[i] for i in fk_idx], "k_C08_c08_float", imports="Common.Base C08.Runner")
        kern_n += len(fk_idx)
        kern_ok = kern_ok and kernf is not None and all(j < len(kernf) and kernf[j] == cmp_model[pos[i]] for j, i in enumerate(fk_idx))
    chk.cov["kernel_crosscheck"] = {"cases": kern_n, "agree": kern_ok}

    # ---------------- verdicts ----------------
    def rp(i, cases_=None, **kw):
        d = {"case": icases[i], "describe": describe(icases[i]), "how": "./check C08 --replay <this file>"}
        d.update(kw)
        return d
    def per_class(d, n=2):
        """at most n representatives of every kind of failure"""
        seen = collections.Counter()
        for i, (prof, out, why) in d.items():
            k = why.split(":")[0].split(" (operand supplied")[0]
            seen[k] += 1
            if seen[k] <= n:
                yield i, prof, out, why
    for i, prof, out, why in per_class(bad):
        chk.violation("integer operator: " + why, rp(i, profile=prof, implementation=out, model=model[i]))
    for rel, key, idx in width_bad[:3]:
        chk.violation("answer depends on the internal width / form of an operand",
                      {"cases": [icases[i] for i in idx], "describe": [describe(icases[i]) for i in idx],
                       "implementation": [r["impl"][rel][i] for i in idx], "profile": "release" if rel else "debug", "how": "./check C08 --replay <this file>"})
    for rel, i3, i4, q, rr in law_bad[:3]:
        chk.violation("(a // b) * b + a % b == a with 0 <= a % b < |b| fails on the implementation's answers",
                      {"cases": [icases[i3], icases[i4]], "describe": describe(icases[i3]), "quotient": q, "remainder": rr, "profile": "release" if rel else "debug",
                       "how": "./check C08 --replay <this file>"})
    for i, prof, out, why in per_class(lbad, n=3):
        c = lcases[i]
        chk.violation("integer literal: " + why, {"case": c, "describe": describe_literal(c), "profile": prof, "implementation": out,
                      "model": rl["model"][i], "how": "./check C08 --replay <this file>"})
    for i, prof, out, why in per_class(fbad):
        c = fcases[i]
        chk.violation("float leg: " + why, {"case": c, "describe": describe(c), "profile": prof, "implementation": out, "how": "./check C08 --replay <this file>"})
    if not chk.violations:
        if mism:
            # failing-input search: neighbourhood of the disagreeing case, every width, every operator
            i, rel = mism[0]
            c = icases[i]
            near = []
            for da in range(-2, 3):
                for db in range(-2, 3):
                    a, b = c[2] + da, c[4] + db
                    if not (-P127 <= a < P128 and -P127 <= b < P128): continue
                    for fa in int_forms(a):
                        near.append([6, fa, a, 0, 0])
                        for fb in int_forms(b):
                            near += all_ops_for(fa, a, fb, b)
            rn = run_all(near, with_model=False)
            found = None
            for prof in (False, True):
                jn = run_model("C08", "c08-judge", [x + o for x, o in zip(near, rn["impl"][prof])])
                for x, o, v in zip(near, rn["impl"][prof], jn):
                    if v[:1] == [0]:
                        found = (x, o, v, prof); break
                if found: break
            if found:
                x, o, v, prof = found
                chk.violation("integer operator: " + REASON.get(v[1], str(v)), {"case": x, "describe": describe(x), "implementation": o, "profile": "release" if prof else "debug",
                              "found_by": "search around a model/implementation disagreement", "how": "./check C08 --replay <this file>"})
            else:
                chk.violation("model and implementation disagree", {"theorem_or_correspondence": "correspondence C08.Runner.run vs harness c08",
                              "case": c, "describe": describe(c), "implementation": r["impl"][rel][i], "model": model[i], "disagreements": len(mism)}, True)
        if lmism:
            i, rel = lmism[0]
            chk.violation("model and implementation disagree (literal family)", {"theorem_or_correspondence": "correspondence C08.Runner.run_literal (Model.lex_number_text) vs harness c08",
                          "case": lcases[i], "describe": describe_literal(lcases[i]), "implementation": rl["impl"][rel][i], "model": rl["model"][i], "disagreements": len(lmism)}, True)
        if fmism and not mism:
            i, rel, mo = fmism[0]
            chk.violation("model and implementation disagree (float leg)", {"theorem_or_correspondence": "correspondence C08.Runner.run (model_compare_float / FloatModel.Brem_euclid, Bdiv_euclid) vs harness c08",
                          "case": fcases[i], "describe": describe(fcases[i]), "implementation": rf["impl"][rel][i], "model": mo, "disagreements": len(fmism)}, True)
        if not kern_ok:
            chk.violation("kernel evaluation disagrees with extracted model", {"theorem_or_correspondence": "vm_compute cross-check of extraction"}, True)
        if not proofs_ok:
            chk.violation("proof obligations of C08 do not check", {"theorem_or_correspondence": chk.proof["problems"]}, True)
    chk.finish()


if __name__ == "__main__":
    main()
