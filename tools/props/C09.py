#!/usr/bin/env python3
"""C09 - subscripts and slices follow Python (DESIGN.md §3 C09)."""
import os, sys, collections
sys.path.insert(0, os.path.dirname(os.path.dirname(os.path.abspath(__file__))))
from vlib import *

B63 = [-2**63 - 1, -2**63, -2**63 + 1, 2**63 - 2, 2**63 - 1, 2**63, 2**64 - 1, 2**64, -2**127, 2**127 - 1, 2**127, 2**128 - 1]
ASCII = [97, 98, 99, 100, 101, 102]
MULTI = [97, 233, 8364, 119070, 98, 231]
# how the bounds reach the engine: 0 literal, 1 variable (narrowest integer representation), 2 variable held as i128,
# 3 variable held as u128 (i128 when negative), 4 through `'n'|int`, 5 through `n.0|int` (small n), 6 variable held as u64
FORMS = [0, 1, 2, 3, 4, 5, 6, 10, 11]   # +10: an omitted step is written with its colon (x[a:b:])
# kinds 6..8: containers built in the template by concatenation: unsized lazy + list, list + unsized lazy, list|chain(lazy)
KINDS = [(0, ASCII), (0, MULTI), (1, [0, 1, 127, 128, 255, 7]), (2, None), (3, None), (4, None), (5, None), (6, None), (7, None), (8, None),
         (9, ASCII), (9, MULTI), (10, None), (11, ASCII), (11, MULTI), (12, MULTI), (13, None), (14, None)]
# kinds 13/14: lazy|zip(longer list) / (longer list)|zip(lazy): pairs, compared by their first component
# kinds 9/10: the container is a string / list LITERAL in the template source; 11: safe (heap) string; 12: Arc<str> (heap) string


def elems(kind_row, n):
    k, pool = kind_row
    if pool:
        return [pool[i % len(pool)] for i in range(n)]
    return list(range(10, 10 + n))


def case(kind_row, n, mode, st, sp, se, form):
    def t(o):
        return [0, 0] if o is None else [1, o]
    if -2**127 in (st, sp, se) and form % 10 in (0, 4, 5):
        form = 1  # the literal -2^127 is C08's known finding (unary minus keeps +2^127); pass it as a variable here
    return [kind_row[0], mode] + t(st) + t(sp) + t(se) + [form, n] + elems(kind_row, n)


def gen(chk):
    rng = chk.rng
    cases = []
    if chk.thorough:
        lens, lo, hi, slo, shi = range(0, 7), -9, 9, -4, 4
    else:
        lens, lo, hi, slo, shi = range(0, 4), -5, 5, -3, 3
    bounds = [None] + list(range(lo, hi + 1))
    steps = [None] + list(range(slo, shi + 1))
    # exhaustive small box (form alternates deterministically)
    f = 0
    for kr in KINDS:
        for n in lens:
            for st in bounds:
                for sp in bounds:
                    for se in steps:
                        cases.append(case(kr, n, 0, st, sp, se, FORMS[f % len(FORMS)])); f += 1
            for key in list(range(-9, 10)) + B63:
                cases.append(case(kr, n, 1, key, None, None, FORMS[f % len(FORMS)])); f += 1
    # heap strings: longer than the 22-byte inline representation, multi-byte characters, every subscript and a
    # slice sample (the inline/heap representations have separate code paths for subscripts)
    for kr in [(0, MULTI), (0, ASCII), (11, MULTI), (12, MULTI), (9, MULTI)]:
        for n in (7, 12, 23, 24, 30):
            for key in range(-n - 2, n + 2):
                cases.append(case(kr, n, 1, key, None, None, FORMS[f % len(FORMS)])); f += 1
            for st in (None, -n - 1, -n, -3, -1, 0, 1, 5, n - 1, n, n + 1):
                for sp in (None, -n, -2, 0, 3, n, n + 3):
                    for se in (None, -2, -1, 1, 3):
                        cases.append(case(kr, n, 0, st, sp, se, FORMS[f % len(FORMS)])); f += 1
    exhaustive_n = len(cases)
    # composed operations: a slice, then a subscript (mode 18+k, k in -7..7) or one of 8 second slices (mode 100+j)
    # of its result - the first slice's result is a lazy object for lists / iterables
    second_modes = [18 + k for k in range(-7, 8)] + [100 + j for j in range(8)]
    cb = [None] + list(range(-4, 5))
    cs = [None, -2, -1, 1, 2, 3]
    for kr in KINDS:
        for n in (range(0, 7) if chk.thorough else (0, 1, 3, 6)):
            for st in cb:
                for sp in cb:
                    for se in cs:
                        if chk.thorough:
                            for m in second_modes:
                                cases.append(case(kr, n, m, st, sp, se, FORMS[f % len(FORMS)])); f += 1
                        else:
                            for _ in range(2):
                                cases.append(case(kr, n, rng.choice(second_modes), st, sp, se, FORMS[f % len(FORMS)])); f += 1
    # boundary part of the property's box: sampled in quick, dense in thorough
    allb = [None] + list(range(-9, 10)) + B63
    alls = [None] + list(range(-4, 5)) + B63
    nrand = 400000 if chk.thorough else 20000
    for _ in range(nrand):
        kr = rng.choice(KINDS); n = rng.below(7)
        st = rng.choice(allb); sp = rng.choice(allb); se = rng.choice(alls)
        if rng.chance(1, 3):
            # force at least one boundary value
            w = rng.below(3)
            if w == 0: st = rng.choice(B63)
            elif w == 1: sp = rng.choice(B63)
            else: se = rng.choice(B63)
        cases.append(case(kr, n, 0, st, sp, se, rng.choice(FORMS)))
    return cases, exhaustive_n


def describe(c):
    kind = ["str", "bytes", "tuple", "list", "lazy(sized)", "lazy(unsized)", "lazy + list", "list + lazy", "list|chain(lazy)", "str literal in source", "list literal in source", "safe str", "Arc<str>", "lazy|zip(list)", "list|zip(lazy)"][c[0]]
    def o(t, v): return "" if t == 0 else str(v)
    n = c[9]
    SECOND = ["[::-1]", "[1:]", "[:-1]", "[::2]", "[-2:]", "[1:-1]", "[-1::-1]", "[0:2]"]
    if c[1] == 1:
        expr = "x[%s]" % c[3]
    else:
        expr = "x[%s:%s:%s]" % (o(c[2], c[3]), o(c[4], c[5]), o(c[6], c[7]))
        if 2 <= c[1] < 34:
            expr += "[%d]" % (c[1] - 18)
        elif c[1] >= 100:
            expr += SECOND[c[1] - 100]
    return {"container": kind, "elements": c[10:10 + n], "expr": expr, "bounds_as": ["literals", "variables", "variables (i128)", "variables (u128)", "'n'|int", "n.0|int", "variables (u64)"][c[8] % 10] + (" (omitted step written as ':')" if c[8] >= 10 else "")}


def main():
    chk = Check("C09", "proof")
    chk.cov["trusted_base"] = TRUSTED_COMMON + ["Print Assumptions: all ten theorems closed under the global context (no axioms)"]
    chk.assumptions = ["lists have at most 2^63-1 elements (Rust Vec invariant)", "integers held by values lie in [-2^127, 2^128) (value representation)",
                       "modelled: ops.rs::{slice_bound,slice_indices,slice_vec,slice}, Value::get_item_opt index helper; the iterator adaptors skip/step_by/take are modelled by skipZ/step_byZ/takeZ"]
    ok_models, blog = build_models("C09")
    proofs_ok = chk.run_proofs()
    okc, clog = cargo_build(["c09"], release=False)
    okr, clog2 = cargo_build(["c09"], release=True)
    if not (okc and okr):
        chk.violation("harness does not build against the current /repo tree", {"theorem_or_correspondence": "build of harness/src/bin/c09.rs", "log": (clog + clog2)[-1500:]}, True)
        chk.finish()
    if not ok_models:
        chk.violation("model build failed", {"theorem_or_correspondence": "coq/theories/C09/Model.v build", "log": blog[-1500:]}, True)
        chk.finish()
    if chk.replay:
        rp = json.load(open(chk.replay))
        cases, exn = [rp["replay"]["case"]], 0
    else:
        cases, exn = gen(chk)
    r = corr(chk, "run", "c09", "c09", cases)
    spec = run_model("C09", "c09-spec", cases)
    # the theorem, re-observed: extracted model = extracted spec on every compared input
    model_vs_spec = [i for i in range(len(cases)) if r["model"][i] != spec[i]]
    # oracle on the implementation: impl output must equal Python's answer
    bad = collections.OrderedDict()
    for i, c in enumerate(cases):
        for rel in (False, True):
            out = r["impl"][rel][i]
            if out != spec[i]:
                bad.setdefault(i, []).append(("release" if rel else "debug", out))
    hist = collections.Counter()
    nontriv = set()
    for i, c in enumerate(cases):
        out = spec[i]
        hist["kind=%d" % c[0]] += 1
        hist["op=" + ("slice" if c[1] == 0 else "subscript" if c[1] == 1 else "slice-then-subscript" if c[1] < 34 else "slice-then-slice")] += 1
        hist["bounds_as=%d" % c[8]] += 1
        if out[0] == 1: hist["error"] += 1
        elif out[0] == 0:
            m = out[2]
            hist["result_len=%d" % m] += 1
            if 0 < m and (m < c[9] or (c[6] == 1 and c[7] not in (1,))):
                nontriv.add(tuple(c))
        elif out[0] == 3: hist["undefined"] += 1
        elif out[0] == 4:
            hist["element"] += 1; nontriv.add(tuple(c))
    chk.cov["evaluations"] = len(cases) * 2
    chk.cov["distinct_nontrivial"] = len(nontriv)
    chk.cov["rule"] = ("exhaustive small box (first %d cases) + composed operations (slice then subscript / second slice) + seeded samples of the property's full box incl. +-2^63/2^64/2^127 boundaries; "
                       "each case runs in a debug and a release build; non-trivial = distinct case whose Python result is a proper non-empty "
                       "selection (shorter than the container or taken with a step other than 1) or a subscript that yields an element" % exn)
    chk.cov["exhaustive"] = False
    chk.cov["exhaustive_subbox_cases"] = exn
    chk.cov["samples"] = [describe(cases[i]) for i in (0, len(cases) // 3, len(cases) // 2, len(cases) - 1)]
    chk.cov["distribution"] = dict(hist)
    chk.cov["model_vs_spec_disagreements"] = len(model_vs_spec)
    chk.cov["impl_vs_model_disagreements"] = len(r["mismatches"])
    chk.cov["kernel_crosscheck"] = {"cases": r.get("kernel_checked", 0), "agree": r.get("kernel_ok", False)}
    # --- verdicts ---
    for i, outs in list(bad.items())[:5]:
        prof, out = outs[0]
        chk.violation("slice/subscript differs from Python", {"case": cases[i], "describe": describe(cases[i]), "profile": prof,
                      "implementation": out, "python": spec[i], "how": "./check C09 --replay <this file>"})
    if not bad:
        if r["mismatches"]:
            i, rel = r["mismatches"][0]
            chk.violation("model and implementation disagree", {"theorem_or_correspondence": "correspondence R09.run vs harness c09",
                          "case": cases[i], "implementation": r["impl"][rel][i], "model": r["model"][i]}, True)
        if model_vs_spec:
            i = model_vs_spec[0]
            chk.violation("extracted model differs from extracted spec although slice_python is proved", {"theorem_or_correspondence": "slice_python (extraction)", "case": cases[i]}, True)
        if not r.get("kernel_ok", False):
            chk.violation("kernel evaluation disagrees with extracted model", {"theorem_or_correspondence": "vm_compute cross-check of extraction", "cases": r.get("kernel_bad")}, True)
        if not proofs_ok:
            chk.violation("proof obligations of C09 do not check", {"theorem_or_correspondence": chk.proof["problems"]}, True)
    chk.finish()


if __name__ == "__main__":
    main()
