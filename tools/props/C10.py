#!/usr/bin/env python3
"""C10 - text is verbatim and whitespace control exact under any delimiter configuration (DESIGN.md §3 C10).

Cases (integer-list protocol, see harness/src/bin/c10.rs):
  mode 0: settings bits, 8 delimiters, a list of segments (text | tag | raw block | line statement/comment);
          harness and model both unparse the segments with the delimiters, tokenize and render.
  mode 1: settings bits, 8 delimiters, a template source as is (correspondence of the token stream, no panic).
Oracles on the implementation's own behaviour (debug and release build):
  O1  rendered output = expected_output(settings, segments) and token view = expected(settings, segments)
      with `expected` the delimiter-free specification coq/theories/C10/Spec.v (extracted runner c10-spec);
  O2  hence the same segments render the same under every delimiter family (also compared directly);
  O3  no panic, whatever the configuration accepted by build() and whatever the source;
  O4  a line statement renders as the block tag occupying that line (compared directly with trim+lstrip on).
  O5  history independence: 2..4 configurations (the same delimiter strings in permuted roles, delimiter sets whose
      concatenations collide, prefixes of each other, with/without/swapped line prefixes) are built and used in ONE fresh
      process, interleaved in several orders; every use must equal the model of that configuration alone (mode 2).
  O6  setter order: on a fresh Environment the setters (set_syntax, set_trim_blocks, set_lstrip_blocks, set_keep_trailing_newline
      and 16 others: auto-escape callback, undefined behaviour, formatter, debug, fuel, recursion limit, loader, ...) are applied in
      every permutation of every 3-subset (sampled 4-subsets, longer sequences with repeated settings); the rendering through
      render_str and through add_template + get_template must be the model's / the specification's for the FINAL values (mode 3).
  O7  source routes and re-add histories (mode 4): the same source bytes (CR, LF, CRLF, BOM, NUL, with/without trailing newline) through
      render_str, render_named_str, template_from_str, template_from_named_str, add_template_owned, add_template, set_loader(closure) and
      path_loader on a file written to .cache/c10-tmp must render as the model of those bytes; a template added again under its name
      (same bytes, other bytes, after remove_template / clear_templates, both add APIs) after a whitespace / syntax setting changed
      must render as the model for the settings in force at the time of the LAST add.
"""
import os, sys, collections, itertools, json
from concurrent.futures import ThreadPoolExecutor
sys.path.insert(0, os.path.dirname(os.path.dirname(os.path.abspath(__file__))))
from vlib import *

# ------------------------------------------------------------------------------------------------
# delimiter families: block start/end, variable start/end, comment start/end, line statement, line comment
# ------------------------------------------------------------------------------------------------
FAM = collections.OrderedDict([
    ("default", ["{%", "%}", "{{", "}}", "{#", "#}", "", ""]),
    ("erb",     ["<%", "%>", "<%=", "%>", "<%#", "%>", "", ""]),          # prefix-sharing starts, shared end
    ("angle",   ["<<", ">>", "<<<", ">>>", "<<#", "#>>", "", ""]),        # nested prefixes
    ("brace1",  ["{%", "%}", "{", "}", "{#", "#}", "", ""]),              # single-brace variable
    ("latex",   ["\\BLOCK{", "}", "\\VAR{", "}", "\\#{", "}", "", ""]),   # LaTeX-like, one shared end marker
    ("shared",  ["[%", "]", "[[", "]", "[#", "]", "", ""]),               # shared one-character end marker
    ("line",    ["{%", "%}", "{{", "}}", "{#", "#}", "#", "##"]),         # default + line prefixes
    ("lineerb", ["<%", "%>", "<%=", "%>", "<%#", "%>", "%", "%%"]),       # ERB + line prefixes sharing characters
    # self-overlapping delimiters (a proper prefix is also a suffix: --> ##} {{% %%} ]]] aab ...): the inputs on which a
    # substring search that resumes behind a failed candidate goes wrong
    ("ov-html", ["{{%", "%%}", "{{", "}}", "<!--", "-->", "", ""]),
    ("ov-hash", ["[[[", "]]]", "<<%", "%%>", "{##", "##}", "", ""]),
    ("ov-word", ["aab", "bba", "(((", ")))", "/**", "**/", "", ""]),
    ("ov-line", ["{%%", "%%}", "{{{", "}}}", "{##", "##}", "::", ":::"]),
])
LINE_FAMS = ["line", "lineerb", "ov-line"]
MK = ["", "-", "+"]
NLS = ["", "\n", "\r\n", "\r"]
BODY = [" 'V' ", " set q = 1 ", " c "]


def S(s):
    return [len(s)] + [ord(c) for c in s]


def enc_seg(s):
    if s[0] == "text": return [0] + S(s[1])
    if s[0] == "tag": return [1, s[1], s[2], s[3]]
    if s[0] == "raw": return [2, s[1], s[2]] + S(s[3]) + [s[4], s[5]]
    if s[0] == "gtag": return [4, s[1], s[2], s[3]] + S(s[4])
    return [3, s[1]] + S(s[2]) + [s[3]]


def enc(bits, d, segs):
    out = [0, bits]
    for x in d: out += S(x)
    out.append(len(segs))
    for s in segs: out += enc_seg(s)
    return out


def enc_src(bits, d, src):
    out = [1, bits]
    for x in d: out += S(x)
    return out + S(src)


def seg_src(d, s):
    if s[0] == "text": return s[1]
    if s[0] == "tag":
        k, l, r = s[1:]
        a, b = [(d[2], d[3]), (d[0], d[1]), (d[4], d[5])][k]
        return a + MK[l] + BODY[k] + MK[r] + b
    if s[0] == "gtag":
        k, l, r, body = s[1:]
        a, b = [(d[2], d[3]), (d[0], d[1]), (d[4], d[5])][k]
        return a + MK[l] + body + MK[r] + b
    if s[0] == "raw":
        _, l1, r1, c, l2, r2 = s
        return d[0] + MK[l1] + " raw " + MK[r1] + d[1] + c + d[0] + MK[l2] + " endraw " + MK[r2] + d[1]
    _, k, trail, nl = s
    return (d[6] + " set q = 1" if k == 0 else d[7] + " c") + trail + NLS[nl]


def unparse(d, segs):
    return "".join(seg_src(d, s) for s in segs)


def describe(case_meta):
    fam, bits, segs = case_meta
    d = FAM[fam] if isinstance(fam, str) else fam
    return {"family": fam if isinstance(fam, str) else "custom", "delimiters": d,
            "settings": {"trim_blocks": bool(bits & 1), "lstrip_blocks": bool(bits & 2), "keep_trailing_newline": bool(bits & 4)},
            "segments": [list(s) for s in segs], "source": unparse(d, segs)}


# ------------------------------------------------------------------------------------------------
# generator-side well-formedness: the source must parse back into exactly these segments.
# (Independent of, and slightly more liberal than, Domain.wf_case which is the domain of the theorem:
#  a line statement prefix in the middle of a line is text; raw content may contain block starts that do
#  not begin an endraw tag.)
# ------------------------------------------------------------------------------------------------
def starts(d):
    return [(p, i) for i, p in enumerate([d[2], d[0], d[4], d[6], d[7]]) if p]


def line_start_simple(src, i):
    j = i
    while j > 0 and src[j - 1] in " \t": j -= 1
    return j == 0 or src[j - 1] in "\r\n"


def is_endraw_tag(d, s):
    """skip_basic_tag(s, "endraw", block_end, true)"""
    if s[:1] in ("-", "+"): s = s[1:]
    s = s.lstrip(" \t\n\x0c\r")
    if not s.startswith("endraw"): return False
    s = s[6:].lstrip(" \t\n\x0c\r")
    if s[:1] in ("-", "+"): s = s[1:]
    return s.startswith(d[1])


def valid(d, segs):
    pats = starts(d)
    srcs = [seg_src(d, s) for s in segs]
    full = "".join(srcs)
    pos = 0
    prev = None
    for idx, s in enumerate(segs):
        here = srcs[idx]
        if s[0] == "text":
            if prev == "text": return False
            for i in range(len(s[1])):
                for p, pid in pats:
                    if full.startswith(p, pos + i):
                        if pid == 3 and not line_start_simple(full, pos + i): continue   # mid-line statement prefix: text
                        return False
        elif s[0] in ("tag", "raw", "gtag"):
            own = d[2] if (s[0] != "raw" and s[1] == 0) else d[0] if (s[0] == "raw" or s[1] == 1) else d[4]
            for p, pid in pats:
                if len(p) > len(own) and full.startswith(p, pos): return False
                # another start delimiter ending strictly inside this one would be reported first (Domain.infix_free)
                for i in range(1, len(own) - len(p)):
                    if own.startswith(p, i) and not (pid == 3 and not line_start_simple(full, pos + i)): return False
            if s[0] == "gtag":
                # the interior must not contain the end delimiter of its own tag
                if [d[3], d[1], d[5]][s[1]] in s[4]: return False
            if s[0] in ("gtag", "tag") and s[1] == 2:
                # the first occurrence of the comment end is the one that ends the comment
                inner = (s[4] if s[0] == "gtag" else BODY[2]) + MK[s[3]]
                if (inner + d[5]).find(d[5]) != len(inner): return False
            if s[0] == "raw":
                c = s[3]; bs = d[0]
                close = bs + MK[s[4]] + " endraw " + MK[s[5]] + d[1]
                body = c + close
                i = 0
                while i < len(c):
                    if body.startswith(bs, i):
                        if is_endraw_tag(d, body[i + len(bs):]) or i + len(bs) > len(c): return False
                        i += len(bs)
                    else:
                        i += 1
        else:
            k, trail, nl = s[1:]
            own = d[6] if k == 0 else d[7]
            if not own: return False
            if k == 0 and not line_start_simple(full, pos): return False
            for p, pid in pats:
                if len(p) > len(own) and full.startswith(p, pos): return False
                for i in range(1, len(own) - len(p)):
                    if own.startswith(p, i) and not (pid == 3 and not line_start_simple(full, pos + i)): return False
            if nl == 0 and idx != len(segs) - 1: return False
            if nl == 3 and full[pos + len(here):pos + len(here) + 1] == "\n": return False
            # the comment text must not contain a newline, the statement must end at this line end
        pos += len(here)
        prev = s[0]
    return True


# ------------------------------------------------------------------------------------------------
# alphabets
# ------------------------------------------------------------------------------------------------
T_CORE = ["", " ", "  ", "\t", "\n", "\r\n", "\r", " \n", "\n ", "\n  ", "a\n  ", "\r\n\t", "\r  ", "\n\n", " a ", "a",
          "a ", " a", "\n\t\n", "a\r", "\r\n ", " \r\n"]
T_SMALL = ["", " ", "\n", "\r\n", "\r", "\n  ", "a", " a ", "\r  ", "a\n\t"]
T_UNI = ["\x0c", "\u00a0", "\n\u00a0 ", "\u2003", "\x0b ", "\u3000\t", "\n\x0c"]
T_LOOK = ["{", "}", "{ x }", "{{ x }}", "{% x %}", "{# x #}", "%}", "}}", "<% x %>", "<%= x %>", "<<", "<", ">>",
          "\\VAR{x}", "\\", "#", "a # b", "x## y", "-", "+", "-}}", "{{-", "[[", "[% x ]", "%", "a%b", "{%- raw %}"]
RAW_CORE = ["  ", "\n x \n  ", "", "\r\n\t"]
RAW_MORE = [" ", "\n", "\r  ", "a", "{% x %}", "{{ 'V' }}", "{# c #}", "<% x %>", "{% endraw", "{%endraw", "\n{%\n", "<< x >>", "\\BLOCK{ x }", " x\r"]
TAGS = [("tag", k, l, r) for k in range(3) for l in range(3) for r in range(3)]
LINES = [("line", k, tr, nl) for k in (0, 1) for tr in ("", " ", "\t ") for nl in range(4)]


def raws(contents, all_marks=True):
    if all_marks:
        return [("raw", l1, r1, c, l2, r2) for l1 in range(3) for r1 in range(3) for c in contents for l2 in range(3) for r2 in range(3)]
    return [("raw", 0, r1, c, l2, 0) for r1 in range(3) for c in contents for l2 in range(3)]


def box3(with_lines=False):
    """The exhaustive box: every sequence of at most 3 segments (no two texts in a row) over the core pools."""
    T = [("text", t) for t in T_CORE]
    Ts = [("text", t) for t in T_SMALL]
    G = TAGS
    R1 = raws(RAW_CORE[:2])            # a single raw block: all 81 marker combinations
    R2 = raws(RAW_CORE[:2], False)     # several raw blocks: inner markers only
    L = LINES if with_lines else []

    def seqs(pools):
        for combo in itertools.product(*pools):
            ok = True
            for a, b in zip(combo, combo[1:]):
                if a[0] == "text" and b[0] == "text": ok = False
                if a[0] == "line" and a[3] == 0: ok = False
            # the empty text of the alphabet stands for "no text here"
            if ok: yield [x for x in combo if x != ("text", "")]
    if not with_lines:
        for n in (1, 2, 3):
            yield from seqs([T + G] * n)
        small = Ts + G
        for n in (1, 2, 3):
            for pos in range(n):
                yield from seqs([R1 if i == pos else small for i in range(n)])
        for n in (2, 3):
            for poss in itertools.combinations(range(n), 2):
                yield from seqs([R2 if i in poss else small for i in range(n)])
    else:
        small = Ts + G
        for n in (1, 2, 3):
            for pos in range(n):
                yield from seqs([L if i == pos else small + (L if i > pos else []) for i in range(n)])


# ------------------------------------------------------------------------------------------------
# a corpus of core-fragment programs whose tags are rewritten to every delimiter family (tag interiors avoid
# every character that occurs in a delimiter of some family: no brackets, braces, percent, angle, hash, backslash)
# ------------------------------------------------------------------------------------------------
def V(body): return ("gtag", 0, None, None, " " + body + " ")
def B(body): return ("gtag", 1, None, None, " " + body + " ")
def C(body): return ("gtag", 2, None, None, " " + body + " ")
def T(s): return ("text", s)
CORPUS = [
    [B("for x in range(3)"), T("\n  a"), V("x"), T("\n"), B("endfor"), T("\nend\n")],
    [T("<ul>\r\n"), B("for c in 'abc'"), T("\r\n  <li>"), V("c|upper"), T("</li>\r\n"), B("endfor"), T("\r\n</ul>\r\n")],
    [B("set n = 4"), T(" \n"), B("if n > 3"), T("big\n"), B("elif n == 3"), T("three"), B("else"), T("small"), B("endif"), T("\n")],
    [B("macro m(a, b=2)"), T("("), V("a"), T(","), V("b"), T(")"), B("endmacro"), T("\n"), V("m(1)"), T(" "), V("m(1, 3)"), T("\n")],
    [V("'a' ~ 'b' ~ 1"), T("\t"), V("(1 + 2) * 3"), T(" \n "), V("7 // 2"), T(" "), V("'x'|upper|lower")],
    [B("for i in range(2)"), B("for j in range(2)"), V("loop.index"), T(":"), V("i * 2 + j"), T(" "), B("endfor"), T("\n"), B("endfor")],
    [C("a comment with {{ x }} and {% y %} inside"), T("\n  "), V("'kept'"), T("\n"), C("another"), T("tail")],
    [B("filter upper"), T("shout "), V("'me'"), T("\n"), B("endfilter"), T("\n  "), B("with q = 2"), V("q"), B("endwith")],
    [B("set s"), T("  captured "), V("1 + 1"), T("  "), B("endset"), T("["), V("s|trim"), T("]\n")],
    [T("a\n  "), B("if 1 is odd"), T("\n    odd\n  "), B("endif"), T("\n  "), B("if u is defined"), T("no"), B("else"), T("undefined"), B("endif"), T("\nz")],
    [V("none"), T("|"), V("true and not false"), T("|"), V("1 if false else 2"), T("|"), V("'a' in 'cat'"), T("\r")],
    [B("for k in 'ab'"), T("\r  "), V("loop.first"), T("\r"), B("if loop.last"), T("last\r"), B("endif"), B("endfor")],
    [("raw", 0, 0, " {{ verbatim }} \n", 0, 0), T("\n"), V("'after raw'"), T("\n\n")],
    [T("{{ not a tag }}{% nor this %}{# nor that #}\n"), V("'v'"), T(" } %} }} #} > >> ]\n")],
]


def corpus_case(rng, prog):
    """the program with seeded markers on its tags"""
    out = []
    for s in prog:
        if s[0] == "gtag":
            l = rng.choice([0, 0, 0, 1, 2]); r = rng.choice([0, 0, 0, 1, 2])
            out.append(("gtag", s[1], l, r, s[4]))
        else:
            out.append(s)
    return out


def adversarial_strings(d):
    """endings that defeat a naive substring search for one of the active delimiters: every proper prefix of every delimiter,
    alone, doubled, and with the delimiter's first character repeated before / after it"""
    out = []
    for D in d:
        for k in range(1, len(D)):
            P = D[:k]
            for x in (P, P + D[0], D[0] + P, P + P, D[0] * (k + 1)):
                if x not in out: out.append(x)
    return out


def adversarial_cases(rng, fam):
    d = FAM[fam]
    out = []
    for adv in adversarial_strings(d):
        shapes = []
        for r in range(3):
            shapes.append([("text", "A"), ("gtag", 2, 0, r, " x" + adv), ("text", "B"), ("tag", 2, 0, 0), ("text", "C")])
            shapes.append([("text", "A"), ("gtag", 2, r, 0, adv + " x " + adv), ("text", "B")])
        for l2 in range(3):
            shapes.append([("text", "A"), ("raw", 0, 0, "a" + adv, l2, 0), ("text", "B"), ("raw", 0, 0, adv, 0, 0)])
        for k in range(3):
            shapes.append([("text", "x" + adv), ("tag", k, 0, 0), ("text", adv + "y")])
            shapes.append([("tag", k, 0, 0), ("text", adv), ("tag", (k + 1) % 3, 0, 0)])
        for sh in shapes:
            if valid(d, sh): out.append(sh)
    return out


def rand_seq(rng, fam, nmin, nmax, rich=True):
    d = FAM[fam]
    texts = T_CORE + (T_UNI + T_LOOK if rich else [])
    rawc = RAW_CORE + (RAW_MORE if rich else [])
    n = nmin + rng.below(nmax - nmin + 1)
    for _ in range(50):
        segs = []
        for i in range(n):
            w = rng.below(10)
            prev = segs[-1][0] if segs else None
            if w < 4 and prev != "text":
                segs.append(("text", rng.choice(texts)))
            elif w < 8 or (w < 9 and fam not in LINE_FAMS):
                segs.append(rng.choice(TAGS))
            elif w < 9:
                segs.append(rng.choice(LINES))
            else:
                segs.append(("raw", rng.below(3), rng.below(3), rng.choice(rawc), rng.below(3), rng.below(3)))
        segs = [x for x in segs if x != ("text", "")]
        if valid(d, segs):
            return segs
    return [("text", "a"), rng.choice(TAGS)]


# ------------------------------------------------------------------------------------------------
# HISTORY family: several configurations built and used in ONE process.  What a configuration means must be a
# function of (configuration, source) alone: every use is compared with the model (and the specification) run on
# that configuration alone.  Each history case runs in a fresh process, so that a case is its own replay.
# ------------------------------------------------------------------------------------------------
def mkcfg(block, var, com, ls="", lc=""):
    return [block[0], block[1], var[0], var[1], com[0], com[1], ls, lc]


def role_perms(a, b, c, ls="", lc=""):
    return [mkcfg(x, y, z, ls, lc) for x, y, z in itertools.permutations([a, b, c])]


DEF3 = (("{%", "%}"), ("{{", "}}"), ("{#", "#}"))
ERB3 = (("<%", "%>"), ("<%=", "=>"), ("<%#", "#>"))
HIST_POOLS = collections.OrderedDict([
    # the same delimiter strings in permuted roles; nested prefixes: the start delimiters of two permutations
    # concatenate to the same string
    ("angle-roles", role_perms(("<<", ">>"), ("<<<", ">>>"), ("<<#", "#>>"))),
    ("brace-roles", role_perms(("{", "}"), ("{{", "}}"), ("{#", "#}"))),
    ("erb-roles", role_perms(*ERB3)),
    ("square-roles", role_perms(("[%", "%]"), ("[[", "]]"), ("[#", "#]"))),
    # different delimiter sets whose concatenations collide: (a, bc) versus (ab, c)
    ("collide", [mkcfg(("=<", ">="), ("<%", "%>"), ("<#", "#>")), mkcfg(("<", ">"), ("<%=", "%>"), ("<#", "#>")),
                 mkcfg(("@@!", ";;"), ("@", ";"), ("@#", "#;")), mkcfg(("@!", ";;"), ("@@", ";"), ("@#", "#;")),
                 mkcfg(("<%", "%>"), ("<", ">"), ("=<#", "#>")), mkcfg(("<%", "%>"), ("<%=", "=>"), ("<#", "#>"))]),
    # the same set with / without line prefixes, prefixes swapped, one prefix = the concatenation of two others
    ("line-default", [mkcfg(*DEF3, ls=a, lc=b) for a, b in [("#", "##"), ("##", "#"), ("#", ""), ("", "#"), ("", "##"), ("##", ""),
                                                            ("###", ""), ("", "###"), ("", "")]]),
    ("line-erb", [mkcfg(*ERB3, ls=a, lc=b) for a, b in [("%", "%%"), ("%%", "%"), ("%", ""), ("", "%%"), ("%%%", ""), ("", "")]]),
    # one configuration's delimiters are prefixes of another's
    ("prefixes", [mkcfg(("<%", "%>"), ("<%=", "=>"), ("<%#", "#>")), mkcfg(("<%%", "%>"), ("<%=", "=>"), ("<%#", "#>")),
                  mkcfg(("<", ">"), ("<%", "%>"), ("<%#", "#>")), mkcfg(("<%", "%>"), ("<%=", "=>"), ("<", ">")),
                  mkcfg(("<%=", "%>"), ("<%", "=>"), ("<%#%", "#>"))]),
])


def history_ops(rng, k):
    w = rng.below(6)
    if w == 0: return [x for i in range(k) for x in ((0, i), (1, i))]                      # build, use, build, use
    if w == 1: return [(0, i) for i in range(k)] + [(1, i) for i in range(k)]              # build all, then use in order
    if w == 2: return [(0, i) for i in range(k)] + [(1, i) for i in reversed(range(k))]    # ... use in reverse
    if w == 3:                                                                             # interleaved re-use
        ops = []
        for i in range(k):
            ops.append((0, i))
            for j in range(max(0, i - 1), i + 1): ops.append((1, j))
        return ops + [(1, 0)]
    if w == 4: return [(1, i) for i in range(k)] + [(1, i) for i in range(k)]              # built on first use, used twice
    return [(0, i) for i in range(k)] + [(0, 0), (1, 0)] + [(1, i) for i in range(1, k)] + [(0, k - 1), (1, 0)]   # rebuilds


def history_case(rng):
    pool_name = rng.choice(list(HIST_POOLS))
    pool = HIST_POOLS[pool_name]
    k = 2 + rng.below(3)
    cfgs = []
    for _ in range(k):
        cfgs.append(rng.choice(pool))
    if all(c == cfgs[0] for c in cfgs):
        cfgs[1] = rng.choice([c for c in pool if c != cfgs[0]])
    ops = history_ops(rng, k)
    bits = rng.below(8)
    lines_ok = all(c[6] and c[7] for c in cfgs)
    probe = None
    if rng.below(4) != 0:
        texts = T_CORE + ["x y", "a\n", "\nz"]
        for _ in range(30):
            segs = []
            for i in range(1 + rng.below(5)):
                w = rng.below(10)
                prev = segs[-1][0] if segs else None
                if w < 4 and prev != "text": segs.append(("text", rng.choice(texts)))
                elif w < 8 or not lines_ok: segs.append(rng.choice(TAGS))
                elif w < 9: segs.append(rng.choice([l for l in LINES if l[3] != 0]))
                else: segs.append(("raw", 0, rng.below(3), rng.choice(RAW_CORE), rng.below(3), 0))
            segs = [x for x in segs if x != ("text", "")]
            if segs and all(valid(c, segs) for c in cfgs):
                probe = ("segs", segs)
                break
    if probe is None:
        mat = sorted({x for c in cfgs for x in c if x})
        pool_s = mat + mat + ["-", "+", " ", " ", "\n", "\n", "\r\n", "a", "'V'", " set q = 1 ", " if false", " endif", "hidden", "x", "1", " c "]
        src = "".join(rng.choice(pool_s) for _ in range(1 + rng.below(10)))
        probe = ("src", src)
    return {"pool": pool_name, "bits": bits, "configs": cfgs, "ops": [list(o) for o in ops], "probe": [probe[0], probe[1]]}


def enc_history(h):
    out = [2, h["bits"], len(h["configs"])]
    for c in h["configs"]:
        for x in c: out += S(x)
    out.append(len(h["ops"]))
    for op, i in h["ops"]: out += [op, i]
    if h["probe"][0] == "segs":
        segs = [tuple(x) for x in h["probe"][1]]
        out += [0, len(segs)]
        for sg in segs: out += enc_seg(sg)
    else:
        out += [1] + S(h["probe"][1])
    return out


def history_single(h, i):
    """the same probe under configuration i alone, as an ordinary mode 0 / mode 1 case"""
    d = h["configs"][i]
    if h["probe"][0] == "segs": return enc(h["bits"], d, [tuple(x) for x in h["probe"][1]])
    return enc_src(h["bits"], d, h["probe"][1])


def split_uses(o):
    if not o or o[0] != 4: return None
    n = o[1]; i = 2; uses = []
    for _ in range(n):
        m = o[i]; uses.append(o[i + 1:i + 1 + m]); i += 1 + m
    return uses


def run_fresh(cases, release=False, workers=16):
    """every case in a process of its own"""
    def one(c):
        r = run_lines([bin_path("c10", release)], [c])
        return r[0] if r else ["CRASH", -1, ""]
    with ThreadPoolExecutor(max_workers=workers) as ex:
        return list(ex.map(one, cases))


# ------------------------------------------------------------------------------------------------
# SETTER ORDER family: a fresh Environment, its setters applied in every order.  What a template renders must depend on
# the final value of each setting only (mode 3).  Setters 0..3 are the ones this property is about (set_syntax,
# set_trim_blocks, set_lstrip_blocks, set_keep_trailing_newline); the others must not disturb them.
# ------------------------------------------------------------------------------------------------
SETTER_NAMES = ["set_syntax", "set_trim_blocks", "set_lstrip_blocks", "set_keep_trailing_newline", "set_auto_escape_callback",
                "set_undefined_behavior", "set_formatter", "set_debug", "set_fuel", "set_recursion_limit", "set_loader",
                "set_path_join_callback", "add_filter", "add_function", "add_test", "add_global", "set_unknown_method_callback",
                "add_template_owned", "clear_templates", "remove_filter+remove_global"]
SETTER_PROBE = [("text", "a\n  "), ("tag", 1, 0, 0), ("text", "\n b \r\n\t"), ("tag", 2, 0, 0), ("text", "\n"), ("tag", 0, 0, 0), ("text", "\n")]


def setter_final(ops):
    """(bits, custom syntax?) from the last value of each of the four settings"""
    last = {}
    for i, v in ops: last[i] = v
    bits = (1 if last.get(1) else 0) | (2 if last.get(2) else 0) | (4 if last.get(3) else 0)
    return bits, bool(last.get(0))


def enc_setters(d, ops, segs):
    out = [3, 0]
    for x in d: out += S(x)
    out.append(len(ops))
    for i, v in ops: out += [i, v]
    out.append(len(segs))
    for sg in segs: out += enc_seg(sg)
    return out


def setter_cases(chk, rng, box):
    fams = ["erb", "angle", "latex", "ov-hash", "shared"]
    ids = list(range(len(SETTER_NAMES)))
    def probe(d):
        if rng.below(3) == 0: return SETTER_PROBE
        for _ in range(20):
            segs = rng.choice(box)
            if valid(d, segs) and valid(FAM["default"], segs): return segs
        return SETTER_PROBE
    def val(i): return 1 if i < 4 and rng.below(5) != 0 else rng.below(2)
    # every permutation of every 3-subset that touches one of the four settings (quick and thorough)
    for sub in itertools.combinations(ids, 3):
        if not any(i < 4 for i in sub): continue
        vals = {i: val(i) for i in sub}
        d = FAM[rng.choice(fams)]; segs = probe(d)
        for perm in itertools.permutations(sub):
            yield d, [(i, vals[i]) for i in perm], segs
    # 4-subsets: all permutations (all subsets in thorough, a sample in quick)
    subs4 = [x for x in itertools.combinations(ids, 4) if any(i < 4 for i in x)]
    if not chk.thorough: subs4 = [rng.choice(subs4) for _ in range(150)]
    for sub in subs4:
        vals = {i: val(i) for i in sub}
        d = FAM[rng.choice(fams)]; segs = probe(d)
        for perm in itertools.permutations(sub):
            yield d, [(i, vals[i]) for i in perm], segs
    # longer sequences with settings set several times (only the last value counts)
    for _ in range(20000 if chk.thorough else 2000):
        d = FAM[rng.choice(fams)]
        ops = [(lambda i: (i, rng.below(2)))(rng.choice(ids if rng.below(2) else [0, 1, 2, 3, 4])) for _ in range(5 + rng.below(6))]
        yield d, ops, probe(d)


# ------------------------------------------------------------------------------------------------
# SOURCE ROUTES and RE-ADD histories (mode 4): one Environment; the same source bytes through every way of handing a
# template to the engine, and templates re-added under the same name after the settings changed.  Every rendering must be
# the model's / the specification's for (those bytes, the settings in force when the template was compiled).
# ------------------------------------------------------------------------------------------------
ROUTE_NAMES = ["render_str", "render_named_str", "template_from_str", "template_from_named_str", "add_template_owned+get_template",
               "add_template+get_template", "set_loader(closure)+get_template", "path_loader(file on disk)+get_template"]
ROUTE_SPECIALS = [
    [("text", "first\r\nsecond\r\n")], [("text", "first\r\nsecond\r\n\r\n")], [("text", "a\rb\r")], [("text", "\r\n")],
    [("text", "﻿a\r\n"), ("tag", 1, 0, 0), ("text", "\r\nb\r")], [("text", "a\x00b\n")], [("text", "no newline at the end")],
    [("tag", 0, 0, 0), ("text", "\r\n")], [("text", "x\r\n  "), ("tag", 1, 0, 0), ("text", "\r\ny\r\n"), ("tag", 2, 0, 1), ("text", " \r\n z\n\n")],
    [("text", "l1\n\nl3\n"), ("raw", 0, 0, "\r\n raw \r\n", 0, 0), ("text", "\r\n")], [("text", " \r\n "), ("tag", 1, 0, 0)],
]


def with_prefix_text(segs):
    if segs and segs[0][0] == "text": return [("text", "Z" + segs[0][1])] + list(segs[1:])
    return [("text", "Z")] + list(segs)


def dual_probes():
    """source bytes that are a different, valid segment list under the default delimiters and under ERB-like ones"""
    erb = FAM["erb"]; dfl = FAM["default"]
    out = []
    for a, b in [([("text", "a\n  "), ("tag", 0, 0, 0), ("text", "\n<%= 'V' %> \n")], [("text", "a\n  {{ 'V' }}\n"), ("tag", 0, 0, 0), ("text", " \n")]),
                 ([("text", "x\r\n  "), ("tag", 1, 0, 0), ("text", "\r\n  <% set q = 1 %>\r\ny\r\n")], [("text", "x\r\n  {% set q = 1 %}\r\n  "), ("tag", 1, 0, 0), ("text", "\r\ny\r\n")])]:
        assert unparse(dfl, a) == unparse(erb, b) and valid(dfl, a) and valid(erb, b)
        out.append({0: a, 1: b})
    return out


def enc_routes(d, src, alt, ops):
    out = [4, 0]
    for x in d: out += S(x)
    out += S(src) + S(alt) + [len(ops)]
    for o in ops: out += list(o)
    return out


def routes_expect(ops):
    """for every rendering op: (which source, syntax state, bits) or None = template not found"""
    cur = [0, 0, 0, 0]
    t = None
    exp = []
    def snap(which): return (which, cur[0], cur[1] | (cur[2] << 1) | (cur[3] << 2))
    for op, a, b in ops:
        if op == 0: cur[a] = b
        elif op == 1: exp.append(snap(b))
        elif op == 2: t = snap(b)
        elif op == 3: exp.append(t)
        elif op in (4, 5): t = None
    return exp


def rng_perm(rng, xs):
    xs = list(xs)
    for i in range(len(xs) - 1, 0, -1):
        j = rng.below(i + 1); xs[i], xs[j] = xs[j], xs[i]
    return xs


def routes_cases(chk, rng, box):
    duals = dual_probes()
    def settings_ops(state):
        ops = []
        for i in rng_perm(rng, [0, 1, 2, 3]):
            if i == 0: ops.append((0, 0, state))
            elif rng.below(4): ops.append((0, i, rng.below(2)))
        return ops
    def pick_probe():
        w = rng.below(10)
        if w < 2:
            return "erb", rng.choice(duals), None
        fam = rng.choice(["default", "erb", "angle", "latex", "ov-html", "ov-hash"])
        st = 0 if fam == "default" else 1
        if w < 5: segs = rng.choice(ROUTE_SPECIALS)
        else: segs = rng.choice(box)
        if not segs or not valid(FAM[fam], segs): segs = ROUTE_SPECIALS[0]
        return fam, {st: segs}, st
    n_routes = 10000 if chk.thorough else 1000
    n_readd = 20000 if chk.thorough else 2500
    for k in range(n_routes + n_readd):
        fam, segs_by_state, fixed = pick_probe()
        d = FAM[fam]
        dual = fixed is None
        st0 = rng.below(2) if dual else fixed
        dstate = lambda st: (d if st == 1 else FAM["default"])
        src = unparse(dstate(st0), segs_by_state[st0])
        alt_by_state = {st: with_prefix_text(sg) for st, sg in segs_by_state.items()}
        alt = unparse(dstate(st0), alt_by_state[st0])
        ops = settings_ops(st0)
        if k < n_routes:
            for r in rng_perm(rng, list(range(8))): ops.append((1, r, 0))
            if rng.below(2): ops += [(0, 1 + rng.below(3), rng.below(2)), (1, 7, 0), (1, rng.below(8), 1)]
        else:
            a1, a2 = rng.below(2), rng.below(2)
            ops += [(2, a1, 0), (3, 0, 0)]
            changed = False
            for i in rng_perm(rng, [0, 1, 2, 3]):
                if rng.below(2) == 0: continue
                if i == 0:
                    if dual: ops.append((0, 0, 1 - st0)); changed = True
                else:
                    ops.append((0, i, rng.below(2))); changed = True
            if not changed: ops.append((0, 1 + rng.below(3), 1))
            v = rng.below(6)
            if v == 0: ops += [(2, a2, 0), (3, 0, 0)]                                   # re-add the same bytes
            elif v == 1: ops += [(4, 0, 0), (3, 0, 0), (2, a2, 0), (3, 0, 0)]           # remove, add
            elif v == 2: ops += [(2, a2, 1), (3, 0, 0), (2, a1, 0), (3, 0, 0)]          # another source under the name, then the first again
            elif v == 3: ops += [(3, 0, 0), (2, a2, 0), (3, 0, 0), (2, a1, 0), (3, 0, 0)]   # stale render, re-add twice
            elif v == 4: ops += [(5, 0, 0), (3, 0, 0), (2, a2, 0), (3, 0, 0)]           # clear_templates, add
            else: ops += [(2, a2, 0), (3, 0, 0), (0, 1 + rng.below(3), rng.below(2)), (2, a1, 0), (3, 0, 0), (1, rng.below(8), 0)]
        yield {"family": fam, "delimiters": d, "src": src, "alt": alt, "ops": [list(o) for o in ops],
               "segs": {str(st): [list(x) for x in sg] for st, sg in segs_by_state.items()},
               "alt_segs": {str(st): [list(x) for x in sg] for st, sg in alt_by_state.items()}}


# ------------------------------------------------------------------------------------------------
# running one batch through implementation (debug, release), model, specification, theorem domain
# ------------------------------------------------------------------------------------------------
def run_batch(cases):
    model_bin = os.path.join(EXTRACT, "C10", "mjmodel")
    jobs = {"debug": [bin_path("c10", False)], "release": [bin_path("c10", True)], "model": [model_bin, "c10"],
            "spec": [model_bin, "c10-spec"], "domain": [model_bin, "c10-domain"]}
    with ThreadPoolExecutor(max_workers=5) as ex:
        futs = {k: ex.submit(run_lines, cmd, cases) for k, cmd in jobs.items()}
        return {k: f.result() for k, f in futs.items()}


def split_impl(o):
    """impl/model mode-0 output -> (render part, token items without offsets and empty texts, end) or None"""
    if not o or o[0] not in (0, 1): return None
    if o[0] == 0:
        n = o[1]; r = o[:2 + n]; i = 2 + n
    else:
        r = o[:2]; i = 2
    if i >= len(o): return (r, None, None)
    nt = o[i]; i += 1
    items = []
    for _ in range(nt):
        t = o[i]
        if t == 0:
            n = o[i + 1]
            if n: items.append((0, tuple(o[i + 2:i + 2 + n])))
            i += 2 + n
        else:
            items.append((t,)); i += 2
    return (r, items, o[i:])


def split_spec(o):
    n = o[1]; r = o[:2 + n]; i = 2 + n
    ni = o[i]; i += 1
    items = []
    for _ in range(ni):
        t = o[i]
        if t == 0:
            m = o[i + 1]; items.append((0, tuple(o[i + 2:i + 2 + m]))); i += 2 + m
        else:
            items.append((t,)); i += 1
    return r, items


def classify(meta, exp_out):
    """short label of the whitespace situation, for the histogram and for grouping violations"""
    fam, bits, segs = meta
    kinds = "".join({"text": "T", "tag": "G", "gtag": "G", "raw": "R", "line": "L"}[s[0]] for s in segs)
    return kinds if len(kinds) <= 3 else "len%d" % len(kinds)


def main():
    chk = Check("C10", "proof")
    chk.cov["trusted_base"] = TRUSTED_COMMON + [
        "the Aho-Corasick automaton (crate aho-corasick) is specified, not modelled: matches are assumed to be reported by end position, longest first (Model.find_ac); tied to the crate only by the correspondence run over the delimiter families. The loop of find_start_marker over that enumeration is modelled and proved to return the leftmost start delimiter (theorem start_marker_search)",
        "tag interiors are fixed ({{ 'V' }}, {% set q = 1 %}, {# c #}, raw/endraw, `# set q = 1`, `## c`); the parser and the VM beyond them are not modelled",
        "Print Assumptions of every theorem of Props/C10.v: closed under the global context"]
    chk.assumptions = [
        "strings are code-point lists in the model, UTF-8 in the code; the lexer compares bytes only with ASCII bytes or whole delimiters",
        "modelled: lexer.rs Tokenizer::new, tokenize_root, find_start_marker(_memchr), lstrip_block, should_lstrip_block, handle_start_marker, skip_basic_tag, handle_raw_tag, handle_tail_ws, skip_newline_if_trim_blocks, skip_nl, the end-of-tag branches of tokenize_block_or_var; syntax.rs SyntaxConfigBuilder::build / validated_start_delims",
        "horizontal whitespace = Unicode White_Space other than CR and LF (char::is_whitespace), newline = LF | CRLF | CR; the recogniser of line statements accepts spaces and tabs as indentation"]
    ok_models, blog = build_models("C10")
    proofs_ok = chk.run_proofs()
    okc, clog = cargo_build(["c10"], release=False)
    okr, clog2 = cargo_build(["c10"], release=True)
    if not (okc and okr):
        chk.violation("harness does not build against the current /repo tree", {"theorem_or_correspondence": "build of harness/src/bin/c10.rs", "log": (clog + clog2)[-1500:]}, True)
        chk.finish()
    if not ok_models:
        chk.violation("model build failed", {"theorem_or_correspondence": "coq/theories/C10 build", "log": blog[-1500:]}, True)
        chk.finish()

    rng = chk.rng
    exhaustive_n = [0]

    # ---------------- case generation (streamed) ----------------
    # meta = (family name | explicit delimiter list, bits, segs) for mode 0; ("src", d, bits, src) for mode 1
    replay_history = None
    replay_setters = None
    replay_routes = None
    if chk.replay:
        rp0 = json.load(open(chk.replay))["replay"]
        if "history" in rp0: replay_history = rp0["history"]
        if "setters" in rp0: replay_setters = rp0["setters"]
        if "routes" in rp0: replay_routes = rp0["routes"]

    def gen_metas():
        if replay_history is not None or replay_setters is not None or replay_routes is not None:
            return
        if chk.replay:
            rp = json.load(open(chk.replay))["replay"]
            if "segments" in rp.get("describe", {}):
                dsc = rp["describe"]
                segs = [tuple(x) for x in dsc["segments"]]
                st = dsc["settings"]
                bits = (1 if st["trim_blocks"] else 0) | (2 if st["lstrip_blocks"] else 0) | (4 if st["keep_trailing_newline"] else 0)
                yield (dsc["delimiters"], bits, segs), "replay"
            else:
                yield ("raw", rp["case"]), "replay-raw"
            return
        box = list(box3(False))
        exhaustive_n[0] = len(box)
        if chk.thorough:
            for segs in box:
                for bits in range(8): yield ("default", bits, segs), "box3"
        else:
            plain = [x for x in box if not any(y[0] == "raw" for y in x)]
            for i in range(10000):
                segs = rng.choice(plain if i % 2 == 0 else box)
                for bits in range(8): yield ("default", bits, segs), "box3-sample"
        # the same box under the other families, next to the default family (texts of the core alphabet are family-neutral)
        others = [f for f in FAM if f != "default"]
        for _ in range(60000 if chk.thorough else 4000):
            segs = rng.choice(box); fam = rng.choice(others)
            if valid(FAM[fam], segs):
                for bits in ([rng.below(8), rng.below(8)] if chk.thorough else range(8)):
                    yield (fam, bits, segs), "families"
                    yield ("default", bits, segs), "families"
        # line statements / comments
        lbox = list(box3(True))
        if chk.thorough:
            for segs in lbox:
                for fam in LINE_FAMS:
                    if valid(FAM[fam], segs):
                        for bits in range(8): yield (fam, bits, segs), "line-box3"
        else:
            for _ in range(2500):
                segs = rng.choice(lbox); fam = rng.choice(LINE_FAMS)
                if valid(FAM[fam], segs):
                    for bits in range(8): yield (fam, bits, segs), "line-sample"
        # long sequences, rich alphabets (Unicode blanks, look-alikes), every family; re-rendered under a second family when the texts allow it
        for _ in range(300000 if chk.thorough else 30000):
            fam = rng.choice(list(FAM))
            segs = rand_seq(rng, fam, 2, 8)
            bits = rng.below(8)
            fam2 = rng.choice(list(FAM))
            if fam2 != fam and valid(FAM[fam2], segs):
                yield (fam, bits, segs), "families"
                yield (fam2, bits, segs), "families"
            else:
                yield (fam, bits, segs), "long"
        # the program corpus under every family in which its texts are valid (always including the default family
        # unless a text looks like default delimiters)
        for rep in range(40 if chk.thorough else 6):
            for prog in CORPUS:
                segs = corpus_case(rng, prog)
                bits = rng.below(8)
                fams = [f for f in FAM if f not in LINE_FAMS or True]
                ok = [f for f in fams if valid(FAM[f], segs)]
                if len(ok) > 1:
                    for f in ok: yield (f, bits, segs), "corpus"
        # adversarial w.r.t. the active configuration: comment bodies, raw contents and texts ending in proper prefixes of the
        # delimiters (every family)
        for fam in FAM:
            for segs in adversarial_cases(rng, fam):
                for bits in (range(8) if chk.thorough else [rng.below(8), rng.below(8)]):
                    yield (fam, bits, segs), "adversarial"
        # mode 1: arbitrary sources over delimiter material (token-stream correspondence, no panic)
        for _ in range(150000 if chk.thorough else 15000):
            fam = rng.choice(list(FAM)); d = FAM[fam]
            pool = [x for x in d if x] + list(FAM["default"][:6]) + ["-", "+", " ", "\n", "\r\n", "\r", "a", "'V'", "raw", "endraw", " set q = 1 ", "  ", "x", "1", "(", ")", "'", "#"]
            src = "".join(rng.choice(pool) for _ in range(1 + rng.below(12)))
            yield ("src", d, rng.below(8), src), "source"
        # configurations build() must reject or accept
        cfgs = [["{%", "%}", "{{", "}}", "<#", "", "", ""], ["{%", "", "{{", "}}", "{#", "#}", "", ""], ["{%", "%}", "{{", "", "{#", "#}", "", ""],
                ["", "%}", "{{", "}}", "{#", "#}", "", ""], ["{%", "%}", "", "}}", "{#", "#}", "", ""], ["{%", "%}", "{{", "}}", "", "#}", "", ""],
                ["{{", "%}", "{{", "}}", "{#", "#}", "", ""], ["{%", "%}", "{{", "}}", "{%", "#}", "", ""], ["{%", "%}", "{{", "}}", "{#", "#}", "{%", ""],
                ["{%", "%}", "{{", "}}", "{#", "#}", "#", "#"], ["{%", "%}", "{{", "}}", "{#", "#}", "", "{{"], ["<%", "", "<%=", "", "<%#", "", "", ""],
                ["{%", "%}", "{{", "}}", "{#", "#}", "", "##"], ["[", "]", "[[", "]]", "[#", "]", "", ""]]
        for d in cfgs:
            for src in ["a", "a {# c #} b", unparse(d, [("text", "a "), ("tag", 2, 0, 0), ("tag", 1, 0, 0), ("tag", 0, 0, 0)])]:
                yield ("src", d, rng.below(8), src), "config"

    def case_of(m):
        if m[0] == "src": return enc_src(m[2], m[1], m[3])
        if m[0] == "raw": return m[1]
        fam, bits, segs = m
        return enc(bits, FAM[fam] if isinstance(fam, str) else fam, segs)

    # ---------------- evaluation in batches (3 batches x 5 processes in flight) ----------------
    hist = collections.Counter()
    nontriv = set()
    evaluations = 0
    ncases = 0
    viol = collections.OrderedDict()      # class label -> first failing (meta, details)
    corr_bad = []
    theorem_bad = []
    in_domain = 0
    outputs_by_segs = {}
    model_sample = []
    samples = []
    src_samples = []
    o4_src = []
    B = 40000

    def batches():
        it = gen_metas()
        while True:
            chunk = list(itertools.islice(it, B))
            if not chunk: return
            yield chunk

    def do_batch(chunk):
        cases = [case_of(m) for m, _ in chunk]
        return chunk, cases, run_batch(cases)

    def results():
        pending = collections.deque()
        with ThreadPoolExecutor(max_workers=3) as ex:
            for chunk in batches():
                pending.append(ex.submit(do_batch, chunk))
                if len(pending) >= 3:
                    yield pending.popleft().result()
            while pending:
                yield pending.popleft().result()

    for chunk, cases, res in results():
            for j, (m, cl) in enumerate(chunk):
                c = cases[j]
                dbg, rel, mod, sp, dom = res["debug"][j], res["release"][j], res["model"][j], res["spec"][j], res["domain"][j]
                evaluations += 2
                ncases += 1
                hist["class=" + cl] += 1
                if len(model_sample) < 40 and ncases % 997 == 1 and max(c) < 70000:
                    model_sample.append((c, mod))
                for prof, out in (("debug", dbg), ("release", rel)):
                    if out and out[0] in ("CRASH", 2):
                        viol.setdefault("panic", (m, {"case": c, "profile": prof, "implementation": out, "what": "the engine panicked",
                                                      "source": m[3] if m[0] == "src" else None, "delimiters": m[1] if m[0] == "src" else None}))
                    if mod == [7]:
                        if prof == "debug": hist["model-out-of-scope(tag interior not modelled)"] += 1
                    elif mod and mod[0] == 6:
                        # program corpus: the rendering of arbitrary tag interiors is not modelled, the token stream is
                        rl = (2 + out[1]) if out and out[0] == 0 else 2
                        if out[rl:] != mod[1:] and len(corr_bad) < 20:
                            corr_bad.append((m, c, prof, out, mod))
                    elif out != mod and len(corr_bad) < 20:
                        corr_bad.append((m, c, prof, out, mod))
                if m[0] in ("src", "raw"):
                    if m[0] == "src":
                        hist["family=" + next((f for f in FAM if FAM[f] == m[1]), "other-configuration")] += 1
                        if len(src_samples) < 2 and ncases % 13 == 0: src_samples.append({"source": m[3], "delimiters": m[1]})
                    continue
                fam, bits, segs = m
                hist["family=" + (fam if isinstance(fam, str) else "custom")] += 1
                hist["settings=%d" % bits] += 1
                hist["shape=" + classify(m, None)] += 1
                if len(samples) < 5 and ncases % 7919 == 3: samples.append(describe(m))
                if fam in LINE_FAMS and (bits & 3) == 3 and len(o4_src) < (20000 if chk.thorough else 1500) and \
                        any(s[0] == "line" and s[1] == 0 and s[2] == "" for s in segs):
                    o4_src.append(m)
                if dom and dom[0] == 1:
                    in_domain += 1
                    # the theorem re-observed on the extraction: model = spec inside the domain
                    sm = split_impl(mod)
                    se = split_spec(sp)
                    if sm is None or sm[0] != se[0] or sm[1] != se[1]:
                        if len(theorem_bad) < 5: theorem_bad.append((m, c, mod, sp))
                exp_r, exp_items = split_spec(sp)
                is_corpus = (cl == "corpus" or any(x[0] == "gtag" for x in segs))
                naive = []
                for s in segs:
                    if s[0] == "text": naive += [ord(x) for x in s[1]]
                    elif s[0] == "raw": naive += [ord(x) for x in s[3]]
                    elif s[0] == "tag" and s[1] == 0: naive.append(86)
                    elif s[0] == "gtag" and s[1] == 0: naive.append(86)
                look = isinstance(fam, str) and fam != "default" and any(("{{" in t or "{%" in t or "{#" in t) for t in
                                                                           [s[1] if s[0] == "text" else s[3] if s[0] == "raw" else "" for s in segs])
                if exp_r[2:] != naive or look:
                    nontriv.add(hash((fam if isinstance(fam, str) else "custom", bits, tuple(segs))))
                    hist["rule-removed-characters" if exp_r[2:] != naive else "look-alike-text"] += 1
                for prof, out in (("debug", dbg), ("release", rel)):
                    si = split_impl(out)
                    good = si is not None and (si[0] == exp_r or (is_corpus and si[0][0] == 0)) and si[1] == exp_items
                    if not good:
                        feats = []
                        if any(x[0] == "raw" for x in segs): feats.append("raw")
                        if any(x[0] == "line" and x[1] == 0 for x in segs): feats.append("line-statement")
                        if any(x[0] == "line" and x[1] == 1 for x in segs): feats.append("line-comment")
                        if "\r" in unparse(FAM[fam] if isinstance(fam, str) else fam, segs): feats.append("CR")
                        if bits & 2: feats.append("lstrip")
                        if bits & 1: feats.append("trim")
                        label = "whitespace:" + "+".join(feats)
                        d = describe((fam, bits, segs))
                        old = viol.get(label)
                        if old is None or len(old[1]["describe"]["source"]) > len(d["source"]):
                            viol[label] = (m, {"case": c, "describe": d, "profile": prof, "implementation": out,
                                               "expected_output_then_items": sp, "what": "rendered output / token view differs from the whitespace rules",
                                               "how": "./check C10 --replay <this file>"})
                if cl in ("families", "corpus"):
                    key = (bits, tuple(segs))
                    o = outputs_by_segs.setdefault(key, {})
                    si = split_impl(dbg)
                    o[fam] = tuple(si[0]) if si else None

    # O2 directly: the same segments under several families
    fam_pairs = 0
    for key, o in outputs_by_segs.items():
        if len(o) > 1:
            fam_pairs += len(o) - 1
            if len(set(o.values())) > 1:
                bits, segs = key
                viol.setdefault("families-differ", ((sorted(o)[0], bits, list(segs)), {"case": enc(bits, FAM[sorted(o)[0]], list(segs)),
                                "describe": describe((sorted(o)[0], bits, list(segs))), "outputs_by_family": {k: list(v) if v else None for k, v in o.items()},
                                "what": "the same segments render differently under different delimiter families"}))
    # O4 directly: line statement = block tag occupying the line (trim_blocks + lstrip_blocks on, no trailing blanks)
    o4_cases, o4_meta = [], []
    for m in o4_src:
        fam, bits, segs = m
        alt = []
        for s in segs:
            if s[0] == "line" and s[1] == 0 and s[2] == "":
                alt.append(("tag", 1, 0, 0))
                if NLS[s[3]]: alt.append(("text", NLS[s[3]]))
            else:
                alt.append(s)
        merged = []
        for s in alt:
            if merged and merged[-1][0] == "text" and s[0] == "text": merged[-1] = ("text", merged[-1][1] + s[1])
            else: merged.append(s)
        o4_cases += [enc(bits, FAM[fam], segs), enc(bits, FAM[fam], merged)]; o4_meta.append((m, merged))
    if o4_cases:
        r4 = run_lines([bin_path("c10", False)], o4_cases)
        evaluations += len(o4_cases)
        for k, (m, merged) in enumerate(o4_meta):
            a, b = split_impl(r4[2 * k]), split_impl(r4[2 * k + 1])
            if a is None or b is None or a[0] != b[0]:
                viol.setdefault("line-statement-vs-block-tag", (m, {"case": o4_cases[2 * k], "describe": describe(m), "as_block_tag": describe((m[0], m[1], merged)),
                                "implementation": [r4[2 * k], r4[2 * k + 1]], "what": "a line statement renders differently from the block tag occupying that line"}))
    hist["line-statement-vs-tag-pairs"] = len(o4_meta)


    # HISTORY: several configurations built and used in one process; every use = the model of that configuration alone
    if replay_history is not None: hcases = [replay_history]
    elif chk.replay: hcases = []
    else: hcases = [history_case(rng) for _ in range(10000 if chk.thorough else 2500)]
    h_uses = 0
    if hcases:
        henc = [enc_history(h) for h in hcases]
        hres = {False: run_fresh(henc, False), True: run_fresh(henc, True)}
        evaluations += 2 * len(henc)
        singles, sidx = [], {}
        for hi, h in enumerate(hcases):
            for i in range(len(h["configs"])):
                sidx[(hi, i)] = len(singles); singles.append(history_single(h, i))
        smod = run_model("C10", "c10", singles)
        sspec = run_model("C10", "c10-spec", singles)
        sdom = run_model("C10", "c10-domain", singles)
        need_alone = {}
        for hi, h in enumerate(hcases):
            hist["class=history"] += 1
            hist["history-pool=" + h["pool"]] += 1
            use_cfg = [i for op, i in h["ops"] if op == 1]
            for rel in (False, True):
                uses = split_uses(hres[rel][hi])
                prof = "release" if rel else "debug"
                def bad(what, j=None, extra=None):
                    key = "history:" + h["pool"]
                    det = {"history": h, "case": henc[hi], "profile": prof, "implementation": hres[rel][hi], "what": what,
                           "how": "./check C10 --replay <this file>  (the whole sequence runs in one fresh process)"}
                    if j is not None:
                        i = use_cfg[j]
                        det.update({"use": j, "configuration": h["configs"][i], "source": unparse(h["configs"][i], [tuple(x) for x in h["probe"][1]]) if h["probe"][0] == "segs" else h["probe"][1],
                                    "this_use": uses[j], "configuration_alone_model": smod[sidx[(hi, i)]]})
                    if extra: det.update(extra)
                    old = viol.get(key)
                    if old is None or len(json.dumps(old[1]["history"])) > len(json.dumps(h)): viol[key] = (None, det)
                if hres[rel][hi] and hres[rel][hi][0] in ("CRASH", 2):
                    bad("the engine panicked"); continue
                if uses is None or len(uses) != len(use_cfg):
                    bad("history harness output malformed"); continue
                for j, i in enumerate(use_cfg):
                    h_uses += 1
                    mod = smod[sidx[(hi, i)]]; out = uses[j]
                    if mod == [7]:
                        need_alone.setdefault((hi, i), []).append((rel, j, out)); continue
                    if out != mod:
                        bad("a configuration behaves differently after other configurations were built in the same process", j)
                        continue
                    if h["probe"][0] == "segs" and sdom[sidx[(hi, i)]][:1] == [1]:     # inside the domain of texts_verbatim
                        er, ei = split_spec(sspec[sidx[(hi, i)]]); si = split_impl(out)
                        if si is None or si[0] != er or si[1] != ei:
                            bad("rendered output / token view differs from the whitespace rules (history case)", j)
        if need_alone:
            # tag interiors outside the model: compare with the implementation run on that configuration alone
            keys = sorted(need_alone)
            alone = [dict(hcases[hi], configs=[hcases[hi]["configs"][i]], ops=[[0, 0], [1, 0]]) for hi, i in keys]
            aenc = [enc_history(a) for a in alone]
            ares = {False: run_fresh(aenc, False), True: run_fresh(aenc, True)}
            for k, (hi, i) in enumerate(keys):
                for rel, j, out in need_alone[(hi, i)]:
                    au = split_uses(ares[rel][k])
                    if au is None or len(au) != 1 or au[0] != out:
                        h = hcases[hi]
                        viol.setdefault("history:" + h["pool"], (None, {"history": h, "case": henc[hi], "profile": "release" if rel else "debug", "use": j,
                                        "configuration": h["configs"][i], "this_use": out, "configuration_alone_implementation": au,
                                        "what": "a configuration behaves differently after other configurations were built in the same process"}))
            hist["history-uses-compared-with-implementation-alone"] = sum(len(v) for v in need_alone.values())
    hist["history-uses-compared"] = h_uses


    # SETTER ORDER: the Environment setters in every order; the rendering depends on the final values only
    if replay_setters is not None:
        scases = [(replay_setters["delimiters"], [tuple(x) for x in replay_setters["ops"]], [tuple(x) for x in replay_setters["segments"]])]
    elif chk.replay: scases = []
    else: scases = list(setter_cases(chk, rng, [x for x in itertools.islice(box3(False), 0, 60000, 37)]))
    if scases:
        senc = [enc_setters(d, ops, segs) for d, ops, segs in scases]
        finals = [setter_final(ops) for d, ops, segs in scases]
        ssingle = [enc(b, d if cust else FAM["default"], segs) for (d, ops, segs), (b, cust) in zip(scases, finals)]
        with ThreadPoolExecutor(max_workers=4) as ex:
            fd = ex.submit(run_lines, [bin_path("c10", False)], senc); fr = ex.submit(run_lines, [bin_path("c10", True)], senc)
            fm = ex.submit(run_model, "C10", "c10", ssingle); fs = ex.submit(run_model, "C10", "c10-spec", ssingle)
            sres = {False: fd.result(), True: fr.result()}; smod2 = fm.result(); sspec2 = fs.result()
        evaluations += 2 * len(senc)
        for k, (d, ops, segs) in enumerate(scases):
            hist["class=setters"] += 1
            mr = split_impl(smod2[k]); er, _ = split_spec(sspec2[k])
            for rel in (False, True):
                out = sres[rel][k]
                good = bool(out) and out[0] == 5 and mr is not None and out[1:] == mr[0] + mr[0] and mr[0] == er
                if not good:
                    b, cust = finals[k]
                    key = "setter-order:" + "+".join(n for n, on in (("syntax", cust), ("trim", b & 1), ("lstrip", b & 2), ("keep", b & 4)) if on)
                    det = {"setters": {"delimiters": d, "ops": [list(x) for x in ops], "segments": [list(x) for x in segs]}, "case": senc[k],
                           "order": ["%s(%d)" % (SETTER_NAMES[i], v) for i, v in ops], "profile": "release" if rel else "debug",
                           "final_settings": {"trim_blocks": bool(b & 1), "lstrip_blocks": bool(b & 2), "keep_trailing_newline": bool(b & 4), "custom_syntax": cust},
                           "source": unparse(d if cust else FAM["default"], segs), "implementation(render_str, add_template+get_template)": out,
                           "expected_rendering_for_the_final_settings": er,
                           "what": "the rendering depends on the order in which the Environment setters were called",
                           "how": "./check C10 --replay <this file>"}
                    if out and out[0] in ("CRASH", 2): det["what"] = "the engine panicked"
                    old = viol.get(key)
                    if old is None or len(old[1]["setters"]["ops"]) > len(ops): viol[key] = (None, det)


    # SOURCE ROUTES / RE-ADD: the same bytes through every route; templates re-added after reconfiguration
    if replay_routes is not None: rcases = [replay_routes]
    elif chk.replay: rcases = []
    else: rcases = list(routes_cases(chk, rng, [x for x in itertools.islice(box3(False), 0, 60000, 41)]))
    n_route_renders = 0
    if rcases:
        tmpdir = os.path.join(CACHE, "c10-tmp"); os.makedirs(tmpdir, exist_ok=True)
        renv = dict(ENV, MJVERIF_TMP=tmpdir)
        renc = [enc_routes(r["delimiters"], r["src"], r["alt"], [tuple(o) for o in r["ops"]]) for r in rcases]
        exps = [routes_expect([tuple(o) for o in r["ops"]]) for r in rcases]
        singles, sidx = [], {}
        for k, r in enumerate(rcases):
            for e in exps[k]:
                if e is None or (k, e) in sidx: continue
                which, st, bits = e
                segs = [tuple(x) for x in (r["alt_segs"] if which else r["segs"])[str(st)]]
                sidx[(k, e)] = len(singles); singles.append(enc(bits, r["delimiters"] if st == 1 else FAM["default"], segs))
        with ThreadPoolExecutor(max_workers=4) as ex:
            fd = ex.submit(run_lines, [bin_path("c10", False)], renc, env=renv); fr = ex.submit(run_lines, [bin_path("c10", True)], renc, env=renv)
            fm = ex.submit(run_model, "C10", "c10", singles); fs = ex.submit(run_model, "C10", "c10-spec", singles)
            rres = {False: fd.result(), True: fr.result()}; rmod = fm.result(); rspec = fs.result()
        evaluations += 2 * len(renc)
        names = {0: lambda o: "%s(%d)" % (SETTER_NAMES[o[1]], o[2]), 1: lambda o: "render %s via %s" % ("alt" if o[2] else "src", ROUTE_NAMES[o[1]]),
                 2: lambda o: "%s(\"t\", %s)" % ("add_template" if o[1] else "add_template_owned", "alt" if o[2] else "src"),
                 3: lambda o: "render \"t\"", 4: lambda o: "remove_template(\"t\")", 5: lambda o: "clear_templates()"}
        for k, r in enumerate(rcases):
            hist["class=re-add" if any(o[0] == 2 for o in r["ops"]) else "class=routes"] += 1
            want = []
            for e in exps[k]:
                if e is None: want.append(([1, 5], None)); continue      # TemplateNotFound
                mr = split_impl(rmod[sidx[(k, e)]]); er, _ = split_spec(rspec[sidx[(k, e)]])
                want.append((mr[0] if mr and mr[0] == er else None, e))
            n_route_renders += len(want)
            for rel in (False, True):
                out = rres[rel][k]
                got, ok = [], bool(out) and out[0] == 6 and out[1] == len(want)
                if ok:
                    i = 2
                    for _ in range(out[1]):
                        n = (2 + out[i + 1]) if out[i] == 0 else 2
                        got.append(out[i:i + n]); i += n
                bad_at = None if ok else -1
                if ok:
                    for j, (w, e) in enumerate(want):
                        if w is None or got[j] != w: bad_at = j; break
                if bad_at is not None:
                    rend = [o for o in r["ops"] if o[0] in (1, 3)]
                    op = rend[bad_at] if 0 <= bad_at < len(rend) else None
                    key = ("route:" + ROUTE_NAMES[op[1]]) if op and op[0] == 1 else "re-add"
                    det = {"routes": r, "case": renc[k], "steps": [names[o[0]](o) for o in r["ops"]], "profile": "release" if rel else "debug",
                           "failing_rendering_index": bad_at, "failing_step": names[op[0]](op) if op else None,
                           "compiled_under(which source, custom syntax, settings bits)": list(want[bad_at][1]) if 0 <= bad_at < len(want) and want[bad_at][1] else None,
                           "implementation": got[bad_at] if 0 <= bad_at < len(got) else out, "expected": want[bad_at][0] if 0 <= bad_at < len(want) else None,
                           "what": ("the rendering depends on the route by which the source reached the engine" if key.startswith("route:") else
                                    "a template added again under its name does not reflect the settings in force when it was added"),
                           "how": "./check C10 --replay <this file>"}
                    if out and out[0] in ("CRASH", 2): det["what"] = "the engine panicked"
                    old = viol.get(key)
                    if old is None or len(old[1]["routes"]["ops"]) > len(r["ops"]): viol[key] = (None, det)

    # kernel cross-check of the extraction
    kern_ok, kern_n = True, 0
    if model_sample:
        kern = kernel_eval("run", [c for c, _ in model_sample], "k_C10_run", imports="Common.Base C10.Runner")
        kern_n = len(model_sample)
        kern_ok = kern is not None and all(k == mo for k, (_, mo) in zip(kern, model_sample)) and len(kern) == len(model_sample)

    chk.cov["evaluations"] = evaluations
    chk.cov["distinct_nontrivial"] = len(nontriv)
    chk.cov["rule"] = ("cases = (settings, delimiter family, segment list) unparsed by harness and model alike; every case runs in a debug and a release build; "
                       "non-trivial = distinct case in which a whitespace rule removes at least one character (expected output differs from the verbatim "
                       "concatenation) or, under a custom family, a text contains a default-looking delimiter. exhaustive box = all sequences of <= 3 segments "
                       "over %d core texts x 27 tags x raw blocks x 8 settings (%d sequences; all of them in thorough, a seeded sample in quick)" % (len(T_CORE), exhaustive_n[0]))
    chk.cov["exhaustive"] = False
    chk.cov["exhaustive_subbox_sequences"] = exhaustive_n[0]
    chk.cov["cases"] = ncases
    chk.cov["in_theorem_domain"] = in_domain
    chk.cov["family_pairs_compared"] = fam_pairs
    chk.cov["history_sequences"] = len(hcases)
    chk.cov["setter_orders"] = len(scases)
    chk.cov["route_and_readd_histories"] = len(rcases)
    chk.cov["route_and_readd_renderings_compared"] = n_route_renders
    chk.cov["history_uses_compared"] = h_uses
    chk.cov["distribution"] = dict(hist)
    chk.cov["samples"] = samples + src_samples
    chk.cov["impl_vs_model_disagreements"] = len(corr_bad)
    chk.cov["model_vs_spec_disagreements_in_domain"] = len(theorem_bad)
    chk.cov["kernel_crosscheck"] = {"cases": kern_n, "agree": kern_ok}

    # ---------------- verdicts ----------------
    for label, (m, details) in sorted(viol.items(), key=lambda kv: (kv[0].count("+"), kv[0]))[:10]:
        details["class"] = label
        chk.violation(details.get("what", label), details)
    if not viol:
        if corr_bad:
            m, c, prof, out, mod = corr_bad[0]
            chk.violation("model and implementation disagree", {"theorem_or_correspondence": "correspondence Runner.run vs harness c10", "case": c,
                          "meta": describe(m) if m[0] not in ("src", "raw") else {"source": m[3] if m[0] == "src" else None}, "profile": prof, "implementation": out, "model": mod}, True)
        if theorem_bad:
            m, c, mod, sp = theorem_bad[0]
            chk.violation("extracted model differs from extracted spec inside the theorem's domain", {"theorem_or_correspondence": "texts_verbatim (extraction)",
                          "case": c, "describe": describe(m), "model": mod, "spec": sp}, True)
        if not kern_ok:
            chk.violation("kernel evaluation disagrees with extracted model", {"theorem_or_correspondence": "vm_compute cross-check of extraction"}, True)
        if not proofs_ok:
            chk.violation("proof obligations of C10 do not check", {"theorem_or_correspondence": chk.proof["problems"]}, True)
    chk.finish()


if __name__ == "__main__":
    main()
