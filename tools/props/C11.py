#!/usr/bin/env python3
"""C11 - run-time recursion is cut off by the recursion limit, never by the stack (DESIGN.md §3 C11).

Two parts, reported separately in the evidence:
  (a) PROOF: the depth accounting of the VM (coq/theories/C11) - invariants of every reachable state and
      the closed form of the level at which a recursive program is refused; tied to the engine by
      rendering recursive program shapes and comparing the level at which the engine fails with the
      extracted model and with the specification.
  (b) EXPLORATION (not a theorem): the same renders run in child processes in debug and release builds
      on 8 MiB and 2 MiB thread stacks (a sample also on the process' main thread); any process that
      dies (stack overflow = SIGABRT/SIGSEGV), panics or hangs is a violation with that configuration as
      replay; the native stack actually used is measured through probe() and reported as margin.
"""
import os, sys, collections, itertools, concurrent.futures
sys.path.insert(0, os.path.dirname(os.path.dirname(os.path.abspath(__file__))))
from vlib import *

KP, KM, KI, KB, KS = 1, 2, 3, 4, 5
KNAME = {KP: "frame", KM: "macro", KI: "include", KB: "block", KS: "super"}
NEED = {KP: 1, KM: 6, KI: 10, KB: 1, KS: 1}
CHARGE = {KP: 1, KM: 6, KI: 10, KB: 6, KS: 6}
LIMITS = [1, 2, 5, 10, 50, 100, 250, 500]
ENTRIES = ["mac", "call", "inc", "imp", "blk"]

# non-recursive work done on a level before it recurses: template text, kinds of the descent it makes
WORKS = collections.OrderedDict([
    ("expr", ("{{ (1 + 2)|string|upper }}", None)),
    ("with", ("{% with a=1 %}{{ a }}{% endwith %}", [KP])),
    ("for", ("{% for q in [1, 2] %}{{ q }}{% endfor %}", [KP])),
    ("withfor", ("{% with a=[1] %}{% for q in a %}{{ q }}{% endfor %}{% endwith %}", [KP, KP])),
    ("mac", ("{{ h() }}", [KM])),
    ("macwith", ("{{ h2() }}", [KM, KP])),
    ("inc", ("{% include 'leaf' %}", [KI])),
    ("imp", ("{% import 'leaf' as lf %}", [KP, KI])),
    ("inclist", ("{% include ['nope.html', 'leaf'] ignore missing %}", [KI])),
    ("incvar", ("{% set lf = ['leaf'] %}{% include lf %}", [KI])),
    ("incmissing", ("{% include ['nope.html', 'nope2.html'] ignore missing %}", None)),
    ("from", ("{% from 'leaflib' import lm %}", [KP, KI])),
    # host callables that render a block / call a macro through &mut State and SWALLOW the error: when the admission is
    # refused the render goes on; a refused admission charges nothing and refunds nothing, an admitted one is undone on
    # return - either way the depth afterwards is the depth before: no accounting operation at all
    ("tryblk", ("{{ try_block('leaf') }}", None)),
    ("tryblkwith", ("{{ try_block('leaf2') }}", None)),
    ("trymac", ("{{ try_macro('h2') }}", None)),
    ("try2", ("{{ try_block('leaf2') }}{{ try_macro('h2') }}", None)),
    ("try3", ("{{ try_block('leaf') }}{{ try_macro('h') }}{{ try_block('leaf2') }}", None)),
    ("blk", ("{{ self.leaf() }}", [KB])),
    ("blkwith", ("{{ self.leaf2() }}", [KB, KP])),
    ("callh", ("{% call w() %}c{% endcall %}", [KM, KM])),
])
PLAIN_WORKS = ["expr", "with", "for", "withfor"]          # need no helper definitions

# constructs that are open around the recursive call: open text, close text, edges they add
WRAPS = collections.OrderedDict([
    ("with", ("{% with a=1 %}", "{% endwith %}", [KP])),
    ("for", ("{% for q in [1] %}", "{% endfor %}", [KP])),
    ("recfor1", ("{% for x in [[[]]] recursive %}{% if x %}{{ loop(x) }}{% else %}", "{% endif %}{% endfor %}", [KP, KP])),
    ("recfor2", ("{% for x in [[[[]]]] recursive %}{% if x %}{{ loop(x) }}{% else %}", "{% endif %}{% endfor %}", [KP, KP, KP])),
    ("callwrap", ("{% call w() %}{% if false %}{{ [@NAMES@] }}{% endif %}", "{% endcall %}", [KM, KM])),
    ("if", ("{% if true %}", "{% endif %}", [])),
    ("filter", ("{% filter upper %}", "{% endfilter %}", [])),
    ("set", ("{% set cap %}", "{% endset %}", [])),
    ("autoescape", ("{% autoescape true %}", "{% endautoescape %}", [])),
])
PLAIN_WRAPS = ["with", "for", "recfor1", "if", "filter", "set", "autoescape"]

# Every SPELLING of each recursion edge: template text (@T@ template name, @N@ macro name, @B@ block name) and the
# accounting operations the spelling itself adds in front of the edge.  All spellings of a kind must be charged alike:
# the level comparison checks "depth the engine charged = depth of the model" for each of them.
SPELL = {
    "inc": collections.OrderedDict([
        ("str", ("{% include '@T@' %}", [])),
        ("list", ("{% include ['@T@'] %}", [])),
        ("fallback", ("{% include ['nope.html', '@T@'] %}", [])),
        ("fallback_ignore", ("{% include ['nope.html', '@T@'] ignore missing %}", [])),
        ("ignore", ("{% include '@T@' ignore missing %}", [])),
        ("tuple", ("{% include ('nope.html', '@T@') %}", [])),
        ("var", ("{% set nm = '@T@' %}{% include nm %}", [])),
        ("varlist", ("{% set nl = ['nope.html', '@T@'] %}{% include nl %}", [])),
        ("computed", ("{% include ['@T@', 'zz']|first %}", [])),
        ("iter_select", ("{% include ['nope.html', '@T@']|select('string') %}", [])),
        ("iter_map", ("{% include ['nope.html', '@T@']|map('string') %}", [])),
        ("reversed", ("{% include ['@T@', 'nope.html']|reverse %}", [])),
        ("with_context", ("{% include '@T@' with context %}", [])),
        ("without_context", ("{% include ['@T@'] without context %}", [])),
        ("ignore_with_context", ("{% include ['nope', '@T@'] ignore missing with context %}", [])),
        ("context_ignore", ("{% include ['nope', '@T@'] with context ignore missing %}", [])),
    ]),
    "imp": collections.OrderedDict([
        ("import", ("{% import '@T@' as im %}", [])),
        ("import_list", ("{% import ['nope.html', '@T@'] as im %}", [])),
        ("import_var", ("{% set nm = '@T@' %}{% import nm as im %}", [])),
        ("import_context", ("{% import '@T@' as im with context %}", [])),
        # (from-import renders the imported template with its output discarded: a discarded {{ self.name() }} or
        #  {% block %} is skipped by the VM, so these spellings are used in programs without block edges only)
        ("from", ("{% from '@T@' import z0 %}", [])),
        ("from_as", ("{% from '@T@' import z0 as zq, h %}", [])),
        ("from_list", ("{% from ['@T@'] import z0 %}", [])),
        ("from_context", ("{% from '@T@' import z0 without context %}", [])),
    ]),
    "mac": collections.OrderedDict([
        ("call", ("{{ @N@() }}", [])),
        ("var", ("{% set fn = @N@ %}{{ fn() }}", [])),
        ("item", ("{{ [@N@][0]() }}", [])),
        ("attr", ("{{ {'f': @N@}.f() }}", [])),
        ("filter_input", ("{{ @N@()|upper }}", [])),
        ("in_list", ("{{ [@N@()]|join }}", [])),
        ("map_input", ("{{ [@N@()]|map('upper')|select('string')|list|join }}", [])),
        ("concat", ("{{ @N@() ~ '' }}", [])),
        ("condition", ("{% if @N@() %}{% endif %}", [])),
        ("set", ("{% set v = @N@() %}", [])),
        ("ternary", ("{{ 'a' if @N@() else 'b' }}", [])),
        ("for_iterable", ("{% for q in [@N@()] %}{% endfor %}", [])),
        ("do", ("{% do @N@() %}", [])),
        ("filter_arg", ("{{ '%s'|format(@N@()) }}", [])),
        ("kwargs", ("{{ @N@(**{}) }}", [])),
        ("splat", ("{{ @N@(*[]) }}", [])),
        ("test_arg", ("{{ 1 is eq(@N@()) }}", [])),
        ("subscript", ("{{ {'a': 1}[@N@()] }}", [])),
        ("with_value", ("{% with q = @N@() %}{% endwith %}", [[1, KP]])),
        ("host_try", ("{{ try_macro('@N@') }}", [])),          # State::call_macro from a host function that swallows the error
    ]),
    "call": collections.OrderedDict([
        ("call", ("{% call @N@() %}.{% endcall %}", [])),
        ("call_args", ("{% call(a) @N@() %}{{ a }}{% endcall %}", [])),
        ("call_var", ("{% set fn = @N@ %}{% call fn() %}.{% endcall %}", [])),
    ]),
    "blk": collections.OrderedDict([
        ("self", ("{{ self.@B@() }}", [])),
        ("self_set", ("{% set v = self.@B@() %}", [])),
        ("self_filter", ("{{ self.@B@()|upper }}", [])),
        ("self_condition", ("{% if self.@B@() %}{% endif %}", [])),
        ("self_in_list", ("{{ [self.@B@()]|join }}", [])),
        ("host_try", ("{{ try_block('@B@') }}", [])),         # State::render_block from a host function that swallows the error
        ("inline", (None, [])),     # the {% block %} tag itself, where the calling level stands (when it may stand there)
    ]),
}
FROM_SPELLS = ("from", "from_as", "from_list", "from_context")
SUPER_SPELL = collections.OrderedDict([("fast", "{{ super() }}"), ("set", "{% set v = super() %}"), ("filter", "{{ super()|upper }}"),
                                       ("condition", "{% if super() %}{% endif %}")])
LOOP_SPELL = collections.OrderedDict([("fast", "{{ loop(x) }}"), ("set", "{% set v = loop(x) %}"), ("filter", "{{ loop(x)|upper }}"),
                                      ("alias", "{% set rl = loop %}{{ rl(x) }}"), ("condition", "{% if loop(x) %}{% endif %}")])
EXTENDS_SPELL = collections.OrderedDict([("literal", "{% extends '@C@' %}"), ("variable", "{% set pn = '@C@' %}{% extends pn %}"),
                                         ("computed", "{% extends ['@C@']|first %}"), ("concat", "{% extends '@C@' ~ '' %}")])

HEADER = ("{% macro z0() %}{{ z0 }}{% endmacro %}{% macro h() %}x{% endmacro %}"
          "{% macro h2() %}{% with a=1 %}{{ a }}{% endwith %}{% endmacro %}"
          "{% macro w() %}{{ caller() }}{% endmacro %}"
          "{% if false %}{% block leaf %}y{% endblock %}{% block leaf2 %}{% with a=1 %}{{ a }}{% endwith %}{% endblock %}{% endif %}")
PROBE = "{{ probe() }}"


def call(k):
    return [1, k]


def work(ks):
    return [2, len(ks)] + list(ks)


def enc_items(items):
    out = []
    for it in items:
        out += it
    return out


def edge_items(entry, spell=None):
    base = {"mac": [call(KM)], "call": [call(KM)], "inc": [call(KI)], "imp": [call(KP), call(KI)], "blk": [call(KB)]}[entry]
    return [list(x) for x in SPELL[entry][spell or canonical(entry)][1]] + base


def canonical(entry):
    return next(iter(SPELL[entry]))


def wrap_text(wraps, inner, names):
    for wname in reversed(wraps):
        o, c, _ = WRAPS[wname]
        inner = o.replace("@NAMES@", ", ".join(names)) + inner + c
    return inner


def wrap_items(wraps):
    out = []
    for wname in wraps:
        out += [call(k) for k in WRAPS[wname][2]]
    return out


def work_text(works):
    return "".join(WORKS[wn][0] for wn in works)


def work_items(works):
    return [work(WORKS[wn][1]) for wn in works if WORKS[wn][1] is not None]


LEAVES = {"leaf": "z", "leaflib": "{% macro lm() %}x{% endmacro %}"}
BLOCK_WORKS = ("blk", "blkwith", "tryblk", "tryblkwith", "try2", "try3")
TRY_WORKS = ("tryblk", "tryblkwith", "trymac", "try2", "try3")


def rotate_to_template_entry(nodes):
    """A cycle with an include/import edge is entered at one of them (its node is a template's top level)."""
    for i, nd in enumerate(nodes):
        if nd["entry"] in ("inc", "imp"):
            return nodes[i:] + nodes[:i]
    return nodes


def extends_text(parent, spell=None):
    return EXTENDS_SPELL[spell or "literal"].replace("@C@", parent)


def cycle_shape(nodes, root_wraps=(), supers=0, chain_wraps=None, root_spell=None, chain_spells=None):
    """nodes: [{"entry": mac|call|inc|imp|blk, "works": [...], "wraps": [...], "spell": how node j is invoked}];
    node j calls node j+1 (mod k).  supers: number of super() edges that lead from the rendered template's block b up
    to the block the cycle is started from (0 = started from the top level of main).  root_spell: how the start
    invokes node 0; chain_spells: [(extends spelling, super() spelling)] of the templates below the host."""
    nodes = rotate_to_template_entry([dict(nd) for nd in nodes])
    k = len(nodes)
    seg_of, seg_start = [], []
    for i, nd in enumerate(nodes):
        if nd["entry"] in ("inc", "imp"):
            seg_start.append(i)
        seg_of.append(len(seg_start) - 1)          # -1: lives in the host template
    host = "main" if supers == 0 else "c%d" % supers
    # from-import discards the output of what it renders, and a discarded block call is skipped: no block edges then
    has_blk = any(nd["entry"] == "blk" or any(w in BLOCK_WORKS for w in nd["works"]) for nd in nodes)
    for nd in nodes:
        sp = nd.get("spell") or canonical(nd["entry"])
        if sp not in SPELL[nd["entry"]]:
            sp = canonical(nd["entry"])
        if has_blk and sp in FROM_SPELLS:
            sp = "import"
        nd["spell"] = sp
    rs = root_spell if root_spell in SPELL[nodes[0]["entry"]] else nodes[0]["spell"]
    if has_blk and rs in FROM_SPELLS:
        rs = "import"

    def may_inline(j, caller_wraps, caller_entry):
        """the {% block %} tag of node j can stand where its caller calls it: same template, not inside a macro"""
        return nodes[j]["entry"] == "blk" and "callwrap" not in caller_wraps and caller_entry in ("inc", "imp", "blk", "root")

    inline = [False] * k
    for j in range(1, k):
        if nodes[j]["spell"] == "inline":
            if seg_of[j] == seg_of[j - 1] and may_inline(j, nodes[j - 1]["wraps"], nodes[j - 1]["entry"]):
                inline[j] = True
            else:
                nodes[j]["spell"] = "self"
    root_inline = rs == "inline" and seg_of[0] < 0 and may_inline(0, list(root_wraps), "root")
    if rs == "inline" and not root_inline:
        rs = "self"
    if nodes[0]["spell"] == "inline":
        nodes[0]["spell"] = "self"          # the edge that closes the cycle is always a call by name

    def tname(i):
        return host if seg_of[i] < 0 else "t%d" % seg_of[i]

    def names_for(seg):
        return ["z0", "h", "h2", "w"] + ["n%d" % j for j in range(k) if nodes[j]["entry"] in ("mac", "call") and seg_of[j] == seg]

    def invoke(j, spell, as_inline):
        if as_inline:
            return "{%% block b%d %%}%s{%% endblock %%}" % (j, body(j))
        t = SPELL[nodes[j]["entry"]][spell][0]
        return t.replace("@T@", tname(j)).replace("@N@", "n%d" % j).replace("@B@", "b%d" % j)

    def body(i):
        nd = nodes[i]
        nxt = (i + 1) % k
        t = PROBE + ("{{ caller() }}" if nd["entry"] == "call" else "") + work_text(nd["works"])
        return t + wrap_text(nd["wraps"], invoke(nxt, nodes[nxt]["spell"], nxt != 0 and inline[nxt]), names_for(seg_of[i]))

    def node_items(i):
        nd = nodes[i]
        nxt = (i + 1) % k
        return ([[0]] + ([work([KM])] if nd["entry"] == "call" else []) + work_items(nd["works"]) + wrap_items(nd["wraps"])
                + edge_items(nodes[nxt]["entry"], nodes[nxt]["spell"]))

    templates = dict(LEAVES)
    texts = collections.defaultdict(str)
    for i, nd in enumerate(nodes):
        tn = tname(i)
        if nd["entry"] in ("mac", "call"):
            texts[tn] += "{%% macro n%d() %%}%s{%% endmacro %%}" % (i, body(i))
        elif nd["entry"] == "blk" and not inline[i] and not (i == 0 and root_inline):
            texts[tn] += "{%% if false %%}{%% block b%d %%}%s{%% endblock %%}{%% endif %%}" % (i, body(i))
    for s, i in enumerate(seg_start):
        templates["t%d" % s] = HEADER + texts["t%d" % s] + body(i)
    root_call = wrap_text(list(root_wraps), invoke(0, rs, root_inline), names_for(-1))
    pre = []
    cs = chain_spells or [(None, None)] * supers
    if supers == 0:
        templates["main"] = HEADER + texts["main"] + root_call
    else:
        cw = chain_wraps or [[] for _ in range(supers)]
        for j in range(supers):
            templates["main" if j == 0 else "c%d" % j] = ("%s{%% block b %%}%s%s{%% endblock %%}"
                                                         % (extends_text("c%d" % (j + 1), cs[j][0]), PROBE, wrap_text(cw[j], SUPER_SPELL[cs[j][1] or "fast"], [])))
        templates[host] = HEADER + texts[host] + "{% block b %}" + PROBE + root_call + "{% endblock %}"
        pre.append(call(KB))
        for j in range(supers):
            pre += [[0]] + wrap_items(cw[j]) + [call(KS)]
        pre.append([0])
    pre += wrap_items(root_wraps) + edge_items(nodes[0]["entry"], "self" if root_inline else rs)
    cyc = []
    for i in range(k):
        cyc += node_items(i)
    desc = {"family": "cycle", "edges": [nd["entry"] for nd in nodes],
            "spellings": [("inline" if inline[j] else nodes[j]["spell"]) for j in range(k)], "start_spelling": "inline" if root_inline else rs,
            "works": [nd["works"] for nd in nodes],
            "wraps": [nd["wraps"] for nd in nodes], "root_wraps": list(root_wraps), "supers_before": supers,
            "chain_spellings": [[a or "literal", b or "fast"] for a, b in cs[:supers]]}
    return {"templates": templates, "main": "main", "pre": pre, "cyc": cyc, "nest": 0, "desc": desc}


def module_macro_shape(nodes, how):
    """macro recursion whose macros live in a library template; main gets at the first one through the module
    object (CallMethod on the module) or through from-import"""
    k = len(nodes)
    nodes = [dict(nd, entry="mac", spell=(nd.get("spell") if nd.get("spell") in SPELL["mac"] else "call")) for nd in nodes]
    names = ["z0", "h", "h2", "w"] + ["n%d" % j for j in range(k)]
    lib = HEADER
    cyc = []
    for i, nd in enumerate(nodes):
        nxt = (i + 1) % k
        inv = SPELL["mac"][nodes[nxt]["spell"]][0].replace("@N@", "n%d" % nxt)
        lib += "{%% macro n%d() %%}%s%s%s{%% endmacro %%}" % (i, PROBE, work_text(nd["works"]), wrap_text(nd["wraps"], inv, names))
        cyc += [[0]] + work_items(nd["works"]) + wrap_items(nd["wraps"]) + edge_items("mac", nodes[nxt]["spell"])
    start = {"module": "{% import 'lib' as m %}{{ m.n0() }}", "module_set": "{% import 'lib' as m %}{% set v = m.n0() %}",
             "module_attr": "{% import 'lib' as m %}{% set f = m.n0 %}{{ f() }}", "module_item": "{% import 'lib' as m %}{{ m['n0']() }}",
             "from": "{% from 'lib' import n0 %}{{ n0() }}", "from_as": "{% from 'lib' import n0 as first %}{{ first() }}",
             "from_call": "{% from 'lib' import n0 %}{% call n0() %}.{% endcall %}"}[how]
    templates = dict(LEAVES, lib=lib, main=start)
    pre = [work([KP, KI]), call(KM)]
    if how == "from_call":
        return None
    return {"templates": templates, "main": "main", "pre": pre, "cyc": cyc, "nest": 0,
            "desc": {"family": "macros of an imported library", "start_spelling": how, "edges": ["mac"] * k, "spellings": [nd["spell"] for nd in nodes],
                     "works": [nd["works"] for nd in nodes], "wraps": [nd["wraps"] for nd in nodes]}}


MODULE_STARTS = ["module", "module_set", "module_attr", "module_item", "from", "from_as"]


def superself_shape(supers, works, wraps, spell=None, chain_spells=None):
    """block b of the rendered template super()s `supers` times; the last parent's b calls self.b().  Depending on
    C06 (which definition self.b() renders when it is reached from a parent definition) the recursion then goes
    through that parent block again or through the whole super() chain again; block and super() edges cost the
    same, so with a bare body (works = wraps = [] when supers > 0) the levels are the same in both readings."""
    templates = dict(LEAVES)
    host = "main" if supers == 0 else "c%d" % supers
    cs = chain_spells or [(None, None)] * supers
    sp = spell if spell in SPELL["blk"] and spell != "inline" else "self"
    for j in range(supers):
        templates["main" if j == 0 else "c%d" % j] = "%s{%% block b %%}%s%s{%% endblock %%}" % (extends_text("c%d" % (j + 1), cs[j][0]), PROBE, SUPER_SPELL[cs[j][1] or "fast"])
    templates[host] = HEADER + "{% block b %}" + PROBE + work_text(works) + wrap_text(wraps, SPELL["blk"][sp][0].replace("@B@", "b"), ["z0", "h", "h2", "w"]) + "{% endblock %}"
    pre = [call(KB)]
    for j in range(supers):
        pre += [[0], call(KS)]
    cyc = [[0]] + work_items(works) + wrap_items(wraps) + [call(KB)]
    return {"templates": templates, "main": "main", "pre": pre, "cyc": cyc, "nest": 0,
            "desc": {"family": "self.block() under %d super()" % supers, "works": works, "wraps": wraps, "spellings": [sp],
                     "chain_spellings": [[a or "literal", b or "fast"] for a, b in cs[:supers]]}}


def superchain_shape(n, works, wraps, super_spell="fast", extends_spell="literal"):
    """n templates, each extends the next and its block b calls super(): nested super() deeper than the limit"""
    templates = dict(LEAVES)
    bodyt = "{% block b %}" + PROBE + work_text(works) + wrap_text(wraps, SUPER_SPELL[super_spell], []) + "{% endblock %}"
    for j in range(n):
        name = "main" if j == 0 else "c%d" % j
        if j + 1 < n:
            templates[name] = extends_text("c%d" % (j + 1), extends_spell) + bodyt
        else:
            templates[name] = "{% block b %}" + PROBE + "{% endblock %}"
    return {"templates": templates, "main": "main", "pre": [call(KB)], "cyc": [[0]] + work_items(works) + wrap_items(wraps) + [call(KS)],
            "nest": 0, "chain": n, "desc": {"family": "super() chain of %d templates" % n, "works": works, "wraps": wraps,
                                            "spellings": [super_spell], "extends_spelling": extends_spell}}


def loop_shape(host, works, wraps, nest, spell="fast"):
    """recursive for-loop over data nested deeper than the limit; host: where the loop stands"""
    loop = "{% for x in tree recursive %}" + PROBE + work_text(works) + wrap_text(wraps, LOOP_SPELL[spell], ["z0", "h", "h2", "w"]) + "{% endfor %}"
    templates = dict(LEAVES)
    if host == "top":
        templates["main"] = HEADER + loop
        pre = []
    elif host == "macro":
        templates["main"] = HEADER + "{% macro lm() %}" + loop + "{% endmacro %}{{ lm() }}"
        pre = [call(KM)]
    elif host == "block":
        templates["main"] = HEADER + "{% block lb %}" + loop + "{% endblock %}"
        pre = [call(KB)]
    else:
        templates["main"] = "{% include ['t0'] %}"
        templates["t0"] = HEADER + loop
        pre = [call(KI)]
    pre = pre + [call(KP)]
    cyc = [[0]] + work_items(works) + wrap_items(wraps) + [call(KP)]
    return {"templates": templates, "main": "main", "pre": pre, "cyc": cyc, "nest": nest,
            "desc": {"family": "recursive loop in " + host, "works": works, "wraps": wraps, "spellings": [spell]}}


# ----------------------------------------------------------------------------------------------
# what the engine's own level count implies (verdicts about levels use the extracted Coq model and spec)
def implied_nesting(pre, cyc, levels):
    """interpreter activations open (root included) when the `levels`-th level is reached - whatever was charged"""
    n, nat = 0, 1
    if levels <= 0:
        return nat
    for it in list(pre) + list(cyc) * (levels + 1):
        if it[0] == 0:
            n += 1
            if n >= levels:
                return nat
        elif it[0] == 1 and it[1] != KP:
            nat += 1
    return nat


def max_nesting(limit):
    return 1 + (limit + 4) // 6


# ----------------------------------------------------------------------------------------------
# the shape set
def rnd_spell(rng, entry):
    return rng.choice(list(SPELL[entry]))


def rnd_node(rng, entry, heavy=True, spell=True):
    W, R = list(WORKS), list(WRAPS)
    nw = rng.choice([0, 1, 1, 2]) if heavy else rng.choice([0, 0, 1])
    nr = rng.choice([0, 1, 1, 2]) if heavy else rng.choice([0, 0, 1])
    return {"entry": entry, "works": [rng.choice(W) for _ in range(nw)], "wraps": [rng.choice(R) for _ in range(nr)],
            "spell": rnd_spell(rng, entry) if spell else None}


def rnd_chain(rng, s):
    return [(rng.choice(list(EXTENDS_SPELL)), rng.choice(list(SUPER_SPELL))) for _ in range(s)]


def gen_shapes(chk):
    rng = chk.rng
    shapes = []
    plain = lambda e, sp=None: {"entry": e, "works": [], "wraps": [], "spell": sp}
    # every cycle of length 1 and 2 in the first spelling of each edge: bare, decorated, and started below 1..3 super() edges
    for k in (1, 2):
        for tup in itertools.product(ENTRIES, repeat=k):
            shapes.append(dict(cycle_shape([plain(e) for e in tup]), pure=k))
            shapes.append(cycle_shape([rnd_node(rng, e) for e in tup], root_wraps=[rng.choice(list(WRAPS))], root_spell=rnd_spell(rng, tup[0])))
            s = 1 + rng.below(3)
            shapes.append(cycle_shape([rnd_node(rng, e, False) for e in tup], supers=s, root_spell=rnd_spell(rng, tup[0]), chain_spells=rnd_chain(rng, s),
                                      chain_wraps=[[rng.choice(PLAIN_WRAPS)] if rng.chance(1, 2) else [] for _ in range(s)]))
    # EVERY SPELLING of every edge: alone (the edge that closes the cycle and the edge that starts it), and in a
    # cycle of two with every kind of edge on the other side (both orders of the pair arise from the other kind's turn)
    for e in ENTRIES:
        for sp in SPELL[e]:
            shapes.append(dict(cycle_shape([plain(e, sp)], root_spell=sp), pure=3))
            for e2 in ENTRIES:
                shapes.append(cycle_shape([plain(e2), plain(e, sp)], root_spell=canonical(e2)))
                if chk.thorough:
                    for sp2 in SPELL[e2]:
                        shapes.append(cycle_shape([plain(e2, sp2), plain(e, sp)], root_spell=rnd_spell(rng, e2)))
    # the "optional block" pattern: a block that renders 1..3 optional blocks / macros through a swallowing host callable
    # on every level and then nests itself through the same callable (or a macro doing the same)
    for tw in (["tryblk"], ["tryblkwith", "tryblk"], ["try3"], ["tryblkwith", "trymac", "tryblk"], ["try2", "try3"]):
        shapes.append(dict(cycle_shape([{"entry": "blk", "works": tw, "wraps": [], "spell": "host_try"}], root_spell="inline"), pure=3))
        shapes.append(dict(cycle_shape([{"entry": "mac", "works": tw, "wraps": [], "spell": "host_try"}], root_spell="host_try"), pure=3))
        shapes.append(cycle_shape([{"entry": "blk", "works": tw, "wraps": [], "spell": "host_try"}, {"entry": "mac", "works": tw[:1], "wraps": [], "spell": "host_try"}]))
        shapes.append(cycle_shape([{"entry": "blk", "works": tw, "wraps": [], "spell": "self"}], root_spell="host_try"))
        shapes.append(cycle_shape([{"entry": "blk", "works": tw, "wraps": ["with"], "spell": "host_try"}], supers=2, root_spell="host_try"))
    # a {% block %} tag standing inside the level that calls it (inline), after every kind of level that may contain one
    for e in ("inc", "imp", "blk"):
        for e3 in ENTRIES:
            shapes.append(cycle_shape([plain(e), plain("blk", "inline"), plain(e3)]))
    shapes.append(cycle_shape([plain("blk", "inline")], root_spell="inline"))
    shapes.append(cycle_shape([plain("blk"), plain("blk", "inline"), plain("blk", "inline")], root_spell="inline"))
    # every piece of non-recursive work and every open construct, on every kind of edge
    for e in ENTRIES:
        for wn in WORKS:
            shapes.append(cycle_shape([{"entry": e, "works": [wn], "wraps": [], "spell": rnd_spell(rng, e)}]))
        for rn in WRAPS:
            shapes.append(cycle_shape([{"entry": e, "works": [], "wraps": [rn], "spell": rnd_spell(rng, e)}]))
    # cycles of length 3 and 4, a random spelling on every edge
    for k, quick_n in ((3, 125), (4, 140)):
        tups = list(itertools.product(ENTRIES, repeat=k))
        if not chk.thorough and len(tups) > quick_n:
            idx = sorted(set(rng.below(len(tups)) for _ in range(quick_n * 2)))[:quick_n]
            tups = [tups[i] for i in idx]
        for tup in tups:
            reps = (20 if k == 3 else 10) if chk.thorough else 1
            for rep in range(reps):
                s = rng.choice([0, 0, 0, 1, 2])
                shapes.append(cycle_shape([rnd_node(rng, e, rep > 0 or rng.chance(1, 2)) for e in tup],
                                          root_wraps=[rng.choice(list(WRAPS))] if rng.chance(1, 3) else [], supers=s,
                                          root_spell=rnd_spell(rng, tup[0]), chain_spells=rnd_chain(rng, s),
                                          chain_wraps=[[rng.choice(PLAIN_WRAPS)] if rng.chance(1, 2) else [] for _ in range(s)]))
    if chk.thorough:
        for k in (1, 2):
            for tup in itertools.product(ENTRIES, repeat=k):
                for rep in range(40):
                    shapes.append(cycle_shape([rnd_node(rng, e) for e in tup], root_wraps=[rng.choice(list(WRAPS))] if rng.chance(1, 2) else [],
                                              root_spell=rnd_spell(rng, tup[0])))
    # macros of an imported library, reached through the module object / from-import
    lib_works = [w for w in WORKS if w not in BLOCK_WORKS]
    for how in MODULE_STARTS:
        shapes.append(dict(module_macro_shape([plain("mac")], how), pure=3))
        for _ in range(6 if chk.thorough else 2):
            kk = 1 + rng.below(3)
            shapes.append(module_macro_shape([{"entry": "mac", "works": [rng.choice(lib_works)] if rng.chance(1, 2) else [],
                                               "wraps": [rng.choice(list(WRAPS))] if rng.chance(1, 2) else [], "spell": rnd_spell(rng, "mac")} for _ in range(kk)], how))
    # self.block() recursion below super(), nested super() deeper than the limit, recursive loops - every spelling
    # (below super() the body is kept bare: whether self.b() reached from a parent definition renders that
    # parent definition again or the most derived block - C06 - every level then costs the same either way)
    for s in range(4):
        shapes.append(dict(superself_shape(s, [], []), pure=1 if s in (0, 2) else 2))
        for sp in SPELL["blk"]:
            if sp != "inline":
                shapes.append(superself_shape(s, [], [], sp, rnd_chain(rng, s)))
    for _ in range(4):
        shapes.append(superself_shape(0, [rng.choice(list(WORKS))], [rng.choice(list(WRAPS))], rnd_spell(rng, "blk")))
    # (a chain is always longer than the limit it is rendered under; short chains for small limits keep the requests small)
    for n, lo, hi in ((30, 1, 20), (130, 21, 120), (520, 121, 2**40)):
        shapes.append(dict(superchain_shape(n, [], []), pure=1, limits=(lo, hi)))
        for sp in SUPER_SPELL:
            for ex in EXTENDS_SPELL:
                if (sp, ex) != ("fast", "literal") and (n < 520 or chk.thorough or sp == "fast" or ex == "literal"):
                    shapes.append(dict(superchain_shape(n, [], [], sp, ex), limits=(lo, hi)))
        shapes.append(dict(superchain_shape(n, [rng.choice(PLAIN_WORKS)], [rng.choice(["with", "for", "if", "set", "filter", "autoescape"])],
                                            rng.choice(list(SUPER_SPELL)), rng.choice(list(EXTENDS_SPELL))), limits=(lo, hi)))
        shapes.append(dict(superchain_shape(n, ["withfor"], ["with", "for"], rng.choice(list(SUPER_SPELL)), rng.choice(list(EXTENDS_SPELL))), limits=(lo, hi)))
    for host in ("top", "macro", "block", "include"):
        shapes.append(dict(loop_shape(host, [], [], 520), pure=1 if host == "top" else 2))
        for sp in LOOP_SPELL:
            if sp != "fast":
                shapes.append(dict(loop_shape(host, [], [], 520, sp), pure=3 if host == "top" else 0))
        shapes.append(loop_shape(host, [rng.choice(list(WORKS))], [rng.choice(["with", "if", "set", "filter", "autoescape"])], 520, rng.choice(list(LOOP_SPELL))))
    return [sh for sh in shapes if sh is not None]


# How the Environment that renders is obtained from the one that was configured, and through which API the
# render is started.  The limit in force must be the configured one on every one of these ways.
ENVS = ["original", "clone", "clone_of_clone", "clone_modified", "clone_then_set", "stale_clone", "original_after_clone",
        "moved_thread", "scoped_thread", "arc_thread", "loader", "autoreload", "autoreload_reloaded", "autoreload_fast"]
APIS = ["get_template", "template_from_str", "template_from_named_str", "render_str", "render_named_str",
        "render_captured", "render_captured_to", "new_state_block", "captured_block", "captured_macro"]
STATE_APIS = {"new_state_block": KB, "captured_block": KB, "captured_macro": KM}


def derive_shape(s, env, api):
    """the same program, rendered through a derived environment / another entry point"""
    d = dict(s)
    d.pop("pure", None)
    d["env"], d["api"] = env, api
    d["desc"] = dict(s["desc"], environment=env, api=api)
    if api in STATE_APIS:
        # State::render_block / State::call_macro (on a fresh state, or on the state a finished render left behind):
        # the entry block / macro includes the program
        t = dict(s["templates"])
        if STATE_APIS[api] == KB:
            t["entry_t"] = "{% if false %}{% block entry %}{% include 'main' %}{% endblock %}{% endif %}"
        else:
            t["entry_t"] = "{% macro entry() %}{% include 'main' %}{% endmacro %}"
        d["templates"] = t
        d["pre"] = [call(STATE_APIS[api]), call(KI)] + list(s["pre"])
        d["entry"] = ["entry_t", "entry"]
    if env == "stale_clone":
        d["limit_in_force"] = "default"      # cloned before set_recursion_limit: the clone keeps the default
    return d


def level_in_force(s, lv):
    return None if s.get("limit_in_force") == "default" else lv


def shape_key(s):
    return hashlib.sha256(json.dumps([s["templates"], s["nest"], s.get("env"), s.get("api")], sort_keys=True).encode()).hexdigest()[:16]


def model_line(level, s):
    return [level, len(s["pre"])] + enc_items(s["pre"]) + [len(s["cyc"])] + enc_items(s["cyc"])


def request(s, level, stack_kib, main_thread=False):
    # recursive-loop shapes iterate data nested deeper than the limit can reach (limit - 1 levels at most); not much
    # deeper: in a debug build the error's debug info pretty-prints the loop variable, which is cubic in its nesting
    lvf = level_in_force(s, level)
    nest = (2 + (500 if lvf is None else min(lvf, 500))) if s["nest"] else 0
    r = {"templates": s["templates"], "main": s["main"], "limit": level, "stack_kib": stack_kib, "nest": nest}
    if main_thread:
        r["main_thread"] = True
    if s.get("env"):
        r["env"] = s["env"]
    if s.get("api"):
        r["api"] = s["api"]
    if s.get("entry"):
        r["entry_template"], r["entry_name"] = s["entry"]
    return r


NPROC = 12


def run_impl_json(reqs, release):
    """reqs -> responses, over several processes; a dead process costs only its own request"""
    if not reqs:
        return []
    env = dict(ENV)
    size = max(1, min(300, (len(reqs) + NPROC - 1) // NPROC))
    chunks = [reqs[i:i + size] for i in range(0, len(reqs), size)]
    with concurrent.futures.ThreadPoolExecutor(NPROC) as ex:
        outs = list(ex.map(lambda ch: run_json([bin_path("c11", release)], ch, env=env, timeout=240), chunks))
    return [o for ch in outs for o in ch]


def prun_model(runner, lines):
    size = max(1, (len(lines) + NPROC - 1) // NPROC)
    chunks = [lines[i:i + size] for i in range(0, len(lines), size)]
    with concurrent.futures.ThreadPoolExecutor(NPROC) as ex:
        outs = list(ex.map(lambda ch: run_model("C11", runner, ch), chunks))
    return [o for ch in outs for o in ch]


def observed(r):
    """canonical form of an engine answer, comparable with the model's [1, kind, levels]"""
    if not isinstance(r, dict) or "crash" in r or "garbled" in r:
        return ["CRASH", r.get("crash") if isinstance(r, dict) else None]
    if r.get("r") == "err":
        return [1, r.get("inner"), r.get("probes"), "reclimit" if r.get("reclimit") else "other-error"]
    if r.get("r") == "ok":
        return [0, r.get("probes")]
    if r.get("r") == "panic":
        return [2, r.get("probes")]
    return ["BAD", r.get("r")]


def short_templates(t):
    return {k: (v if len(v) <= 400 else v[:400] + "...") for k, v in list(t.items())[:6]}


def main():
    chk = Check("C11", "proof")
    chk.cov["trusted_base"] = TRUSTED_COMMON + [
        "Print Assumptions: all theorems closed under the global context (no axioms)",
        "part (b) is measurement, not proof: the operating system's stack guard page / Rust's stack-overflow handler turning an overflow into process death; the thread stack sizes requested through std::thread::Builder::stack_size; probe()'s address arithmetic for the bytes used",
        "the translation of each template shape into its list of accounting operations (tools/props/C11.py: which construct pushes a frame, which nests an activation) is hand-written; it is what the level comparison tests"]
    chk.assumptions = [
        "the build has no `stacker` feature (set_recursion_limit clamps at 500; do_eval calls eval_impl directly)",
        "scopes are balanced (a PopFrame never goes below the frames its activation started with) - property C05",
        "an error either ends the render or is swallowed by a host callable that goes on with the state it was handed (theorem swallowed_refusal_is_noop: the accounting is then where it was); templates themselves cannot catch errors",
        "stack_fits_2mib is conditional on: one nested activation takes at most 20480 bytes of native stack, everything else at most 256 KiB; part (b) measures both on every run (coverage.stack_exploration.calibration)",
        "native stack use of filters/functions/objects supplied by the embedding application is outside the property"]
    ok_models, blog = build_models("C11")
    proofs_ok = chk.run_proofs()
    okc, clog = cargo_build(["c11"], release=False)
    okr, clog2 = cargo_build(["c11"], release=True)
    if not (okc and okr):
        chk.violation("harness does not build against the current /repo tree", {"theorem_or_correspondence": "build of harness/src/bin/c11.rs", "log": (clog + clog2)[-1500:]}, True)
        chk.finish()
    if not ok_models:
        chk.violation("model build failed", {"theorem_or_correspondence": "coq/theories/C11/Model.v build", "log": blog[-1500:]}, True)
        chk.finish()

    # ---- cases ---------------------------------------------------------------------------------
    configs = [(False, 8192), (False, 2048), (True, 8192), (True, 2048)]
    if chk.replay:
        rp = json.load(open(chk.replay))["replay"]
        shapes = [rp["shape"]]
        cases = [(0, rp["level"])]
        configs = [(rp["profile"] == "release", rp["request"].get("stack_kib", 2048))]
        main_cases = [0] if rp["request"].get("main_thread") else []
        n_grid = len(cases)
    else:
        shapes = gen_shapes(chk)
        seen, uniq = set(), []
        for s in shapes:
            k = shape_key(s)
            if k not in seen:
                seen.add(k)
                uniq.append(s)
        shapes = uniq
        def fits(i, lv):
            lo, hi = shapes[i].get("limits", (0, 2**41))
            return lo <= (500 if lv is None else lv) <= hi
        cases = [(i, lv) for i in range(len(shapes)) for lv in LIMITS if fits(i, lv)]
        # the clamp and the default: a few shapes with no set_recursion_limit call (None), 501, 1000, 2^40
        for i in range(0, len(shapes), max(1, len(shapes) // 24)):
            for lv in (None, 501, 1000, 2**40):
                if fits(i, lv):
                    cases.append((i, lv))
        main_cases = list(range(0, len(cases), max(1, len(cases) // (400 if chk.thorough else 60))))
        # the derivation dimension: every way of obtaining the rendering environment x every entry API, on the pure
        # recursions and a seeded sample of decorated programs, at the limit set and a few limits off the grid
        base_ids = [i for i, sh in enumerate(shapes) if sh.get("pure") == 1]
        rest = [i for i, sh in enumerate(shapes) if not sh.get("pure") and "limits" not in sh and not sh["nest"]]
        base_ids += sorted(set(rest[chk.rng.below(len(rest))] for _ in range(60 if chk.thorough else 8)))
        pairs = [(e, "get_template") for e in ENVS if e != "original"] + [("original", a) for a in APIS if a != "get_template"]
        pairs += [("clone", a) for a in APIS if a != "get_template"] + [("moved_thread", "captured_block"), ("autoreload", "render_str"),
                                                                        ("clone_of_clone", "captured_macro"), ("loader", "new_state_block")]
        if chk.thorough:
            pairs = [(e, a) for e in ENVS for a in APIS if (e, a) != ("original", "get_template")]
        deriv_limits = LIMITS + [12, 24, 77, None] + ([3, 7, 17, 33, 150, 333, 499, 501] if chk.thorough else [])
        n_base = len(shapes)
        for (e, a) in pairs:
            for i in base_ids:
                shapes.append(derive_shape(shapes[i], e, a))
                for lv in deriv_limits:
                    lvf = level_in_force(shapes[-1], lv)
                    if a == "new_state_block" and (lvf is None or lvf >= 500):
                        continue     # (see in_force: the shifted limit must stay below the clamp)
                    if fits(len(shapes) - 1, level_in_force(shapes[-1], lv)):
                        cases.append((len(shapes) - 1, lv))
        deriv_from = n_base
        # every limit in [1, 500] on the pure recursions (the closed forms levels_macro .. levels_loop at every L)
        n_grid = len(cases)
        pure = [i for i, sh in enumerate(shapes) if sh.get("pure")]
        if not chk.thorough:
            pure = [i for i in pure if shapes[i]["pure"] in (1, 3)]
        else:
            # and on a seeded sample of 200 decorated programs
            rest = [i for i, sh in enumerate(shapes) if not sh.get("pure") and not sh["nest"] and "limits" not in sh]
            pure += sorted(set(rest[chk.rng.below(len(rest))] for _ in range(200)))
        for i in pure:
            for lv in range(1, 501):
                if shapes[i].get("pure") == 3 and not chk.thorough and lv > 64 and lv % 13:
                    continue     # the other spellings: every limit up to 64, then every 13th (all of them in the thorough tier)
                if lv not in LIMITS and fits(i, lv) and not (shapes[i]["nest"] and lv > 160 and lv % 20):
                    cases.append((i, lv))
    def in_force(j):
        lv = level_in_force(shapes[cases[j][0]], cases[j][1])
        return 500 if lv is None else lv

    def model_level(j):
        # Template::new_state() starts from an EMPTY context (depth 0; a render starts with its root frame, depth 1):
        # every admission test "depth + need <= limit" is the model's test under limit + 1
        return in_force(j) + (1 if shapes[cases[j][0]].get("api") == "new_state_block" else 0)
    lines = [model_line(model_level(j), shapes[cases[j][0]]) for j in range(len(cases))]
    model = prun_model("c11", lines)
    spec = prun_model("c11-spec", lines)
    # kernel cross-check of the extraction on a sample
    kidx = list(range(0, len(lines), max(1, len(lines) // 40)))[:40]
    kern = kernel_eval("run", [lines[j] for j in kidx], "k_C11_run", imports="Common.Base C11.Runner")
    kernel_ok = kern is not None and all(kern[a] == model[j] for a, j in enumerate(kidx))
    # the accounting before the fix, in the kernel and extracted: 500 nested blocks at limit 500
    old = run_model("C11", "c11-old-blocks", [[500, 499], [500, 500], [50, 49]])

    results = {}
    for (rel, kib) in configs:
        order = sorted((j for j in range(len(cases)) if (j < n_grid and not (shapes[cases[j][0]].get("env") and kib != 2048)) or kib == 2048 or chk.thorough),
                       key=lambda j: (500 if cases[j][1] is None else min(cases[j][1], 500)))
        reqs = [request(shapes[cases[j][0]], cases[j][1], kib) for j in order]
        outs = run_impl_json(reqs, rel)
        res = [None] * len(cases)
        for j, o in zip(order, outs):
            res[j] = o
        results[(rel, kib, False)] = res
    if main_cases and not chk.replay:
        for rel in (False, True):
            reqs = [request(shapes[cases[j][0]], cases[j][1], 0, True) for j in main_cases]
            outs = run_impl_json(reqs, rel)
            res = [None] * len(cases)
            for j, o in zip(main_cases, outs):
                res[j] = o
            results[(rel, 0, True)] = res
    elif main_cases:
        rel = configs[0][0]
        results = {(rel, 0, True): run_impl_json([request(shapes[0], cases[0][1], 0, True)], rel)}

    # ---- verdicts ------------------------------------------------------------------------------
    evaluations = 0
    counts = collections.Counter()
    worst = {}
    viol_budget = collections.Counter()

    def report(kind, what, j, cfg, r, extra=None, nfi=False):
        viol_budget[kind] += 1
        if viol_budget[kind] > 4:
            return
        rel, kib, mt = cfg
        i, lv = cases[j]
        s = shapes[i]
        rep = {"shape": {k: s[k] for k in ("templates", "main", "pre", "cyc", "nest", "desc", "env", "api", "entry", "limit_in_force") if k in s},
               "level": lv, "profile": "release" if rel else "debug",
               "request": request(s, lv, kib, mt), "stack": "process main thread" if mt else "%d KiB thread" % kib,
               "model": model[j], "spec": spec[j], "engine": r if not isinstance(r, dict) else {k: v for k, v in r.items()},
               "how": "./check C11 --replay <this file>   (or: echo '<request as one JSON line>' | .cache/target/<profile>/c11)"}
        if extra:
            rep.update(extra)
        if nfi:
            rep["theorem_or_correspondence"] = what
        chk.violation(what, rep, nfi)

    for cfg, res in results.items():
        rel, kib, mt = cfg
        for j, r in enumerate(res):
            if r is None:
                continue
            evaluations += 1
            i, lv = cases[j]
            eff = min(in_force(j), 500)
            ob = observed(r)
            exp = model[j]
            if ob[0] == "CRASH" or ob[0] == "BAD":
                counts["process died"] += 1
                report("crash", "the process rendering a recursive template died (native stack overflow) instead of reporting 'recursion limit exceeded'", j, cfg, r)
                continue
            used = r.get("used", 0)
            key = ("release" if rel else "debug", "main" if mt else kib)
            if used > worst.get(key, (0, None))[0]:
                worst[key] = (used, j)
            if ob[0] == 2:
                counts["panic"] += 1
                report("panic", "a recursive template made the engine panic", j, cfg, r)
                continue
            if r.get("effective_limit") != eff:
                report("clamp", "the recursion limit in force in the rendering environment (Environment::recursion_limit()) is not the configured one, min(level, 500)", j, cfg, r,
                       {"limit_in_force": r.get("effective_limit"), "configured": eff})
            if r.get("swallowed_other"):
                counts["other error swallowed"] += 1
                report("swallowother", "a host callable swallowed an error other than 'recursion limit exceeded' (shape or engine)", j, cfg, r, nfi=True)
                continue
            if ob[0] == 0 and r.get("swallowed", 0) >= 1:
                # the refusal was reported to a host callable that swallowed it: the render goes on and ends normally;
                # the level at which the recursion was refused is compared as always
                counts["refusal swallowed by a host callable"] += 1
                ob = [1, 3, ob[1], "reclimit"]
            if ob[0] == 0 or ob[1] != 3 or ob[3] != "reclimit":
                counts["no recursion error"] += 1
                report("noerr", "an unbounded recursion did not end with the 'recursion limit exceeded' error", j, cfg, r)
                continue
            if exp[:1] != [1] or spec[j] != exp:
                continue     # reported below (model vs spec)
            if ob[2] != exp[2]:
                counts["level differs"] += 1
                nat = implied_nesting(shapes[i]["pre"], shapes[i]["cyc"], ob[2])
                if ob[2] > exp[2] and nat > max_nesting(eff):
                    report("nesting", "the engine nested more interpreter activations than the recursion limit allows (theorem nesting_bound: at most 1 + (limit + 4) / 6)",
                           j, cfg, r, {"nested_activations_when_refused": nat, "allowed": max_nesting(eff)})
                else:
                    report("level", "levels_reached: the engine refuses the recursion at another level than the model", j, cfg, r, nfi=True)
            else:
                counts["agree"] += 1
                if r.get("swallowed"):
                    counts["renders with swallowed refusals that agree"] += 1
    mvs = [j for j in range(len(cases)) if model[j] != spec[j]]
    if mvs:
        j = mvs[0]
        chk.violation("extracted model differs from extracted spec although levels_reached is proved",
                      {"theorem_or_correspondence": "levels_reached (extraction)", "case": lines[j], "model": model[j], "spec": spec[j]}, True)
    if not kernel_ok:
        chk.violation("kernel evaluation disagrees with extracted model", {"theorem_or_correspondence": "vm_compute cross-check of extraction", "kernel": kern}, True)
    if old != [[0, 500, 500], [1, 3], [0, 50, 50]]:
        chk.violation("the model of the accounting before the fix no longer shows 500 nested activations", {"theorem_or_correspondence": "old_accounting_refuted (extraction)", "got": old}, True)
    if not proofs_ok:
        chk.violation("proof obligations of C11 do not check", {"theorem_or_correspondence": chk.proof["problems"]}, True)

    # ---- evidence ------------------------------------------------------------------------------
    hist = collections.Counter()
    nontriv = set()
    lvl_hist = collections.Counter()
    spell_hist = collections.Counter()
    deriv_hist = collections.Counter()
    for j, (i, lv) in enumerate(cases):
        s = shapes[i]
        d = s["desc"]
        fam = d["family"]
        hist["family: " + (fam if fam != "cycle" else "cycle of length %d" % len(d["edges"]))] += 1
        if fam == "cycle":
            for e in d["edges"]:
                hist["edge: " + e] += 1
            if d["supers_before"]:
                hist["cycle entered below super()"] += 1
        if "edges" in d:
            for e, sp in zip(d["edges"], d.get("spellings", [])):
                spell_hist["%s: %s" % (e, sp)] += 1
            if d.get("start_spelling"):
                spell_hist["start %s: %s" % (d["edges"][0] if fam == "cycle" else "library macro", d["start_spelling"])] += 1
        else:
            for sp in d.get("spellings", []):
                spell_hist["%s: %s" % ("loop()" if "loop" in fam else "super()" if "chain" in fam else "self.block()", sp)] += 1
            if d.get("extends_spelling"):
                spell_hist["extends: " + d["extends_spelling"]] += 1
        for ex, su in d.get("chain_spellings", []):
            spell_hist["extends: " + ex] += 1
            spell_hist["super(): " + su] += 1
        hist["limit: %s" % ("default" if lv is None else lv)] += 1
        deriv_hist["environment: " + s.get("env", "original")] += 1
        deriv_hist["api: " + s.get("api", "get_template")] += 1
        n = model[j][2] if len(model[j]) >= 3 else -1
        lvl_hist["levels %s" % ("0" if n == 0 else "1" if n == 1 else "2-9" if n < 10 else "10-49" if n < 50 else "50+")] += 1
        if n >= 2:
            nontriv.add((shape_key(s), lv))
    chk.cov["evaluations"] = evaluations
    chk.cov["distinct_nontrivial"] = len(nontriv)
    chk.cov["rule"] = ("program shapes: every cycle of length 1 and 2 over {macro call, call block, include, import, self.block()} edges (bare; with random non-recursive work "
                       "per level and constructs open around the recursive call; entered below 1-3 super() edges), EVERY SPELLING of every edge (%d include / %d import+from-import / %d macro call / "
                       "%d call block / %d self.block() incl. the block tag standing inside its caller / %d super() / %d loop() / %d extends spellings: name as string, list, tuple, variable, "
                       "computed, lazy iterable, ignore missing, with/without context; macro through a variable, a list item, a map attribute, in filter/test/call arguments, conditions, set, do, "
                       "with; macros of an imported library through the module object or from-import) alone and in a cycle of two with every kind of edge, a random spelling on every edge of "
                       "every other program, every work item and every wrapper on every edge kind, "
                       "cycles of length 3 (all 125 edge tuples) and 4 (%s), self.block() recursion below 0-3 super(), super() chains of 30/130/520 templates (always longer than the limit), recursive loops over "
                       "data nested deeper than the limit at top level / in a macro / in a block / in an included template; x limits {1,2,5,10,50,100,250,500} (+ default, 501, 1000, 2^40 on a sample; "
                       "+ EVERY limit in [1,500] on the bare single-edge recursions%s) "
                       "x {debug, release} x {8 MiB, 2 MiB thread} (+ a sample on the process main thread); "
                       "HOST CALLABLES THAT SWALLOW ERRORS: try_block(name) / try_macro(name) = state.render_block / state.call_macro(..).unwrap_or_default() as a spelling of the block and macro "
                       "edges (cycles block -> host callable -> render_block -> ...) and as 1-3 optional, refusable renders per level before the self-nesting one; the render then ends normally and the "
                       "probe-measured level of the swallowed refusal must be the model's (a refused admission charges nothing and refunds nothing). "
                       "ENVIRONMENT DERIVATION: the pure recursions and a seeded sample of decorated programs rendered through %d ways of obtaining the environment "
                       "(clone, clone of a clone, modified clone, clone configured after / taken before set_recursion_limit, original after its clone was reconfigured, moved / scoped / Arc-shared "
                       "to another thread, loader, autoreload acquire_env first / reloaded / fast reload) x %d entry APIs (get_template, template_from_str, template_from_named_str, render_str, "
                       "render_named_str, render_captured, render_captured_to, new_state + render_block, Captured::with_state_mut + render_block / call_macro) at the limit set + {12, 24, 77, default}: "
                       "Environment::recursion_limit() of the rendering environment and the level of refusal must follow the CONFIGURED limit. "
                       "non-trivial = distinct (program text, limit) whose recursion goes round at least twice before it is refused (model levels >= 2)"
                       % (len(SPELL["inc"]), len(SPELL["imp"]), len(SPELL["mac"]), len(SPELL["call"]), len(SPELL["blk"]), len(SUPER_SPELL), len(LOOP_SPELL), len(EXTENDS_SPELL),
                          "all 625" if chk.thorough else "a seeded sample of 140",
                          " in every spelling, all bare 2-cycles and a seeded sample of 200 decorated programs" if chk.thorough
                          else " (first spelling; the other spellings at every limit up to 64 and every 13th above), 2 MiB threads only",
                          len(ENVS), len(APIS)))
    chk.cov["exhaustive"] = False
    chk.cov["programs"] = len(shapes)
    chk.cov["program_limit_pairs"] = len(cases)
    sam = []
    for j in ([0, len(cases) // 3, len(cases) // 2, len(cases) - 9] if len(cases) > 12 else [0]):
        i, lv = cases[j]
        r0 = results.get((False, 2048, False), [None] * len(cases))[j] if not chk.replay else list(results.values())[0][0]
        sam.append({"templates": short_templates(shapes[i]["templates"]), "limit": lv, "shape": shapes[i]["desc"],
                    "accounting_ops": {"lead_in": shapes[i]["pre"], "cycle": shapes[i]["cyc"]},
                    "model": model[j], "engine_debug_2MiB": observed(r0) if r0 is not None else None})
    chk.cov["samples"] = sam
    chk.cov["distribution"] = dict(hist)
    chk.cov["levels_distribution"] = dict(lvl_hist)
    chk.cov["spelling_distribution"] = dict(sorted(spell_hist.items()))
    chk.cov["environment_derivation_distribution"] = dict(sorted(deriv_hist.items()))
    all_spellings = (["%s: %s" % (e, sp) for e in SPELL for sp in SPELL[e]] + ["super(): " + x for x in SUPER_SPELL] + ["loop(): " + x for x in LOOP_SPELL]
                     + ["extends: " + x for x in EXTENDS_SPELL] + ["start library macro: " + x for x in MODULE_STARTS])
    chk.cov["spellings_never_rendered"] = [x for x in all_spellings if not spell_hist.get(x)] if not chk.replay else []
    chk.cov["outcomes"] = dict(counts)
    chk.cov["model_vs_spec_disagreements"] = len(mvs)
    chk.cov["kernel_crosscheck"] = {"cases": len(kidx), "agree": kernel_ok}
    # part (b): measured stack
    calib = {}
    if not chk.replay:
        pure = {"macro": 0, "call": 1, "include": 2, "import": 3, "block": 4}
        for nm, si in pure.items():
            # shapes[0..] start with the bare cycles of length 1 in ENTRIES order, each followed by 2 variants
            i = si * 3
            for rel in (False, True):
                res = results.get((rel, 8192, False))
                j = [jj for jj, (ii, lv) in enumerate(cases) if ii == i and lv == 500]
                if res and j and isinstance(res[j[0]], dict) and res[j[0]].get("probes", 0) > 2:
                    r = res[j[0]]
                    calib.setdefault("release" if rel else "debug", {})[nm] = {
                        "levels": r["probes"], "bytes_per_activation": r["span"] // (r["probes"] - 1), "bytes_before_first_level": r["used"] - r["span"]}
    stack = {"label": "EXPLORATION - not covered by the theorems",
             "what": "every render above ran in a child process on a thread of the given stack size; a process death (stack overflow), panic or hang would be reported as a violation with that configuration as replay",
             "renders": evaluations, "process_deaths": counts["process died"], "panics": counts["panic"],
             "deepest_native_stack_use": {"%s/%s" % k: {"bytes": v[0], "stack_bytes": (8 * 1024 * 1024 if k[1] == "main" else k[1] * 1024),
                                                           "program": shapes[cases[v[1]][0]]["desc"], "limit": cases[v[1]][1]} for k, v in worst.items()},
             "calibration": calib}
    if calib.get("debug"):
        bmax = max(v["bytes_per_activation"] for v in calib["debug"].values())
        rmax = max(v["bytes_before_first_level"] for v in calib["debug"].values())
        stack["calibration_of_stack_fits_2mib"] = {"max_bytes_per_activation_debug": bmax, "assumed": 20480, "max_reserve": rmax, "assumed_reserve": 262144,
                                                    "holds": bmax <= 20480 and rmax <= 262144}
        if not (bmax <= 20480 and rmax <= 262144):
            chk.notes["calibration"] = ("the byte bounds assumed by theorem stack_fits_2mib do NOT hold on this build (measured %d bytes per activation, %d before the first level): "
                                        "the theorem's conclusion is not established for it; the exploration above is then the only evidence" % (bmax, rmax))
            log("C11: calibration of stack_fits_2mib does not hold:", bmax, rmax)
    chk.cov["stack_exploration"] = stack
    chk.cov["proof_part"] = {"label": "PROOF - the accounting only", "theorems": [t["name"] for t in chk.cov.get("theorems", [])]}
    chk.finish()


if __name__ == "__main__":
    main()
