#!/usr/bin/env python3
"""C12 - stricter undefined modes only add errors; the documented matrix holds (DESIGN.md §3 C12).

Proof part: coq/theories/Props/C12.v (site_monotone, run_monotone on the reference interpreter
Lang/Interp.v, matrix).  Correspondence / oracle part (this file):
  (i)   engine (debug + release) vs extracted interpreter under each of the four modes, on typed random
        programs whose variable references are partly undefined (proggen feature "undefined" plus an
        injector that puts undefined forms - u, u.a, u[0], u.a.b, n.foo, l[7], d.zz / {..}['zz'] (a key the
        map does not have), d.zz.y, `(e if false)`, u|default(e) - at arbitrary expression positions);
  (ii)  the relation on the IMPLEMENTATION: success under a stricter mode implies the identical output
        under every weaker mode - for the generated programs, for the matrix probes and for a sweep of
        every filter / test / global function registered in Environment::new() with a possibly-undefined
        operand in every argument position, in print / if / for / set position;
  (iii) the matrix probes: printing and iterating an undefined fail under Strict and SemiStrict and yield
        nothing otherwise, truth-testing fails only under Strict, attribute / item access fails
        everywhere except Chainable, `is defined` / `is undefined` / `default` never fail - in many
        syntactic positions; the core probes (8 sites + 7 about maps: a missing key is an undefined, the
        map / its keys / iterating it / `in` never fail) are also compared with the interpreter
        (c12-matrix) and with the documented table (c12-doc, Spec.v).
"""
import os, re, sys, collections, time
sys.path.insert(0, os.path.dirname(os.path.dirname(os.path.abspath(__file__))))
from vlib import *
import proggen, langenc

MODES = ["strict", "semistrict", "lenient", "chainable"]          # increasing permissiveness
MODE_CODE = langenc.MODES                                          # lenient 0 strict 1 semistrict 2 chainable 3
CTX = {"x": [1, 2, 3], "n": 1, "s": "ab", "d": {"a": 1, "b": 2}, "recs": [{"a": 1, "b": "p"}, {"a": 1, "b": "q"}, {"a": 2, "b": "r"}],
       "f": 2.5, "t": True, "nn": None}


# ----------------------------------------------------------------------------------------------
# rendering under the four modes
# ----------------------------------------------------------------------------------------------
def canon(r):
    """('ok', text) | ('err', kind code) | ('crash', short description)"""
    rr = r.get("render", r) if isinstance(r, dict) else {}
    if isinstance(r, dict) and r.get("load_errors"):
        return ("skip", "template does not load")
    if "ok" in rr:
        return ("ok", rr["ok"])
    if "err" in rr:
        return ("err", rr["err"])
    return ("crash", json.dumps(r, sort_keys=True)[:160])


def render4(items, release=False, fmt=False):
    """items: list of (template, ctx).  Returns list of 4-tuples of canonical outcomes (MODES order).
    fmt: render with a custom formatter installed (bin c12 fmt): prints go through Environment::format."""
    reqs = []
    for src, ctx in items:
        tpls = src if isinstance(src, dict) else {"main": src}
        for m in MODES:
            if fmt:
                reqs.append({"templates": tpls, "ctx": ctx, "undefined": m})
            else:
                reqs.append({"templates": tpls, "main": "main", "ctx": ctx, "undefined": m, "ops": ["render"]})
    def run_chunk(chunk):
        if fmt:
            return run_json([bin_path("c12", False), "fmt"], chunk)
        return run_prog(chunk, release=release)
    if not reqs:
        res = []
    elif len(reqs) < 1600:
        res = run_chunk(reqs)
    else:
        # several harness processes side by side (whole templates per chunk: 4 requests each)
        import concurrent.futures
        nchunks = min(8, len(items) // 100 + 1)
        per = 4 * ((len(items) + nchunks - 1) // nchunks)
        chunks = [reqs[i:i + per] for i in range(0, len(reqs), per)]
        with concurrent.futures.ThreadPoolExecutor(max_workers=len(chunks)) as ex:
            parts = list(ex.map(run_chunk, chunks))
        res = []
        for c, part in zip(chunks, parts):
            part = list(part)[:len(c)]
            res.extend(part + [{"crash": "no answer"}] * (len(c) - len(part)))
    out = []
    for i in range(len(items)):
        out.append(tuple(canon(res[4 * i + j]) if 4 * i + j < len(res) else ("crash", "no answer") for j in range(4)))
    return out


def mono_violation(row):
    """first pair (i, j), i stricter than j, with success under i and not the identical success under j"""
    for i in range(4):
        if row[i][0] != "ok":
            continue
        for j in range(i + 1, 4):
            if row[j] != row[i]:
                return (i, j)
    return None


def show(o):
    return repr(o[1]) if o[0] == "ok" else ("E%s(%s)" % (o[1], ERR_NAMES.get(o[1], "?")) if o[0] == "err" else "CRASH")


def row_show(row):
    return {m: show(o) for m, o in zip(MODES, row)}


# ----------------------------------------------------------------------------------------------
# generated programs: undefined injected at arbitrary expression positions
# ----------------------------------------------------------------------------------------------
def undef_form(rng, e):
    u = ("var", "undef%d" % rng.below(3))
    c = rng.below(13)
    if c <= 2:
        return u
    if c == 11:
        # a key a map does not have (context maps d / e, a literal): attribute and subscript form
        m = rng.choice([("var", "d"), ("var", "e"), ("map", [(("str", "k"), ("int", 1))]), ("map", [])])
        return ("attr", m, "zz") if rng.chance(1, 2) else ("item", m, rng.choice([("str", "zz"), ("int", 5), ("none",)]))
    if c == 12:
        return ("attr", ("attr", ("var", rng.choice(["d", "e"])), "zz"), "y")      # .. and an attribute of that undefined
    if c == 3:
        return ("attr", u, "foo")
    if c == 4:
        return ("item", u, ("int", 0))
    if c == 5:
        return ("attr", ("attr", u, "foo"), "bar")
    if c == 6:
        return ("attr", ("var", rng.choice(["n", "s", "l"])), "foo")      # missing attribute of a defined value
    if c == 7:
        return ("item", ("var", "l"), ("int", 7))                         # index out of range
    if c == 8:
        return ("ifexpr", ("bool", False), e, None)                       # the silent undefined
    if c == 9:
        return ("ifexpr", ("bool", True), ("filter", "default", u, [e]), ("none",))     # parenthesised by the printer
    return ("ifexpr", ("test", "defined", u, [], False), u, e)


def inject_expr(e, rng, p):
    t = e[0]
    if t in ("int", "str", "bool", "none", "var"):
        new = e
    elif t == "list":
        new = ("list", [inject_expr(x, rng, p) for x in e[1]])
    elif t == "map":
        # undefined forms go to the values; the keys of the fragment stay scalars
        new = ("map", [(k, inject_expr(v, rng, p)) for k, v in e[1]])
    elif t in ("neg", "not"):
        new = (t, inject_expr(e[1], rng, p))
    elif t == "bin":
        new = ("bin", e[1], inject_expr(e[2], rng, p), inject_expr(e[3], rng, p))
    elif t == "cmp":
        new = ("cmp", inject_expr(e[1], rng, p), [(o, inject_expr(r, rng, p)) for o, r in e[2]])
        if rng.chance(p, 60):
            # a chain that starts with a membership test (CompareAndPreserve(In) in the engine)
            cont = rng.choice([("var", "l"), ("var", "k"), ("list", [new[2][0][1]]), ("var", "undef%d" % rng.below(3))])
            new = ("cmp", new[1], [(rng.choice(["in", "notin"]), cont), (rng.choice(["==", "!="]), rng.choice([("bool", True), ("var", "l"), cont]))])
    elif t in ("and", "or"):
        new = (t, inject_expr(e[1], rng, p), inject_expr(e[2], rng, p))
        if rng.chance(p, 50):
            # an undefined LEFT operand whose `and` / `or` result goes to a consumer that tolerates undefined
            inner = (t, ("var", "undef%d" % rng.below(3)), new[2])
            c = rng.below(4)
            if c == 0:
                return ("test", rng.choice(["defined", "undefined"]), inner, [], rng.chance(1, 3))
            if c == 1:
                return ("ifexpr", ("bool", True), ("filter", "default", inner, [("bool", rng.chance(1, 2))]), ("none",))
            if c == 2:
                return ("cmp", ("filter", "length", ("list", [inner]), []), [("==", ("int", 1))])
            return ("test", "defined", ("ifexpr", ("bool", True), inner, None), [], False)
    elif t == "ifexpr":
        new = ("ifexpr", inject_expr(e[1], rng, p), inject_expr(e[2], rng, p), None if e[3] is None else inject_expr(e[3], rng, p))
    elif t == "item":
        new = ("item", inject_expr(e[1], rng, p), inject_expr(e[2], rng, p))
    elif t == "attr":
        new = e if e[1] == ("var", "loop") else ("attr", inject_expr(e[1], rng, p), e[2])
        if e[1] == ("var", "loop"):
            return new if not rng.chance(p, 400) else undef_form(rng, e)
    elif t == "filter":
        new = ("filter", e[1], inject_expr(e[2], rng, p), [inject_expr(a, rng, p) for a in e[3]])
    elif t == "test":
        new = ("test", e[1], inject_expr(e[2], rng, p), [inject_expr(a, rng, p) for a in e[3]], e[4])
    elif t == "call":
        new = ("call", e[1], [inject_expr(a, rng, p) for a in e[2]], [(k, inject_expr(v, rng, p)) for k, v in e[3]])
        if e[1] == "caller":
            return new
    else:
        raise ValueError(t)
    if rng.chance(p, 100):
        return undef_form(rng, new)
    return new


def inject_body(body, rng, p):
    return [inject_stmt(s, rng, p) for s in body]


def inject_stmt(s, rng, p):
    t = s[0]
    E = lambda e: inject_expr(e, rng, p)
    B = lambda b: inject_body(b, rng, p)
    if t in ("raw", "break", "continue", "include"):
        return s
    if t == "emit":
        return ("emit", E(s[1]))
    if t == "if":
        return ("if", [(E(c), B(b)) for c, b in s[1]], None if s[2] is None else B(s[2]))
    if t == "for":
        it = E(s[2])
        if isinstance(s[1], str) and rng.chance(1, 7):
            # a string iterates over its characters: defined strings, the empty string, an undefined in its place
            u = ("var", "undef%d" % rng.below(3))
            it = rng.choice([("var", "s"), ("str", "ab"), ("str", ""), ("str", "X y"), ("bin", "~", ("var", "s"), ("str", "q")), u,
                             ("filter", "default", u, [("str", "pq")]), ("filter", "upper", ("var", "s"), []), ("filter", "string", ("var", "n"), [])])
        return ("for", s[1], it, None if s[3] is None else E(s[3]), B(s[4]), None if s[5] is None else B(s[5]), s[6])
    if t == "set":
        return ("set", s[1], E(s[2]))
    if t == "setblock":
        return ("setblock", s[1], B(s[2]), s[3])
    if t == "with":
        return ("with", [(n, E(e)) for n, e in s[1]], B(s[2]))
    if t == "macro":
        return ("macro", s[1], s[2], [(n, E(e)) for n, e in s[3]], B(s[4]))
    if t == "callblock":
        return ("callblock", s[1], [E(a) for a in s[2]], B(s[3]))
    if t == "filterblock":
        return ("filterblock", s[1], B(s[2]))
    if t == "autoescape":
        return ("autoescape", s[1], B(s[2]))
    return s


def count_nodes(body):
    n = 0
    for s in body:
        n += 1
        for b in proggen._sub_bodies(s):
            n += count_nodes(b)
    return n


def expect_model(o):
    if o[0] == "ok":
        return [0, len(o[1])] + [ord(c) for c in o[1]]
    if o[0] == "err":
        return [1, o[1]]
    return ["crash"]


# ----------------------------------------------------------------------------------------------
# (iii) the matrix probes.  `@` marks the operand position.
#   class print / iterate : fail under strict + semistrict; lenient + chainable succeed and render what the
#                           template renders with `nothing` ("" / []) in place of the operand
#   class truth           : fail under strict only; elsewhere as with `false` in place of the operand
#   class access          : fail under strict, semistrict, lenient; chainable renders what the template
#                           renders (under chainable) with the plain undefined `u` in place of the access
#   class never           : all four succeed with the same output (= `expect` if given)
# ----------------------------------------------------------------------------------------------
CORE = [  # the probes of C12/Model.v::probe, in the order of Runner.site_of
    ("core:print", "print", "{{ @ }}", "u"),
    ("core:iterate", "iterate", "{% for x in @ %}x{% endfor %}", "u"),
    ("core:truth", "truth", "{% if @ %}a{% else %}b{% endif %}", "u"),
    ("core:attr", "access", "{{ @ }}", "u.a"),
    ("core:item", "access", "{{ @ }}", "u[0]"),
    ("core:is-defined", "never", "{{ @ is defined }}", "u"),
    ("core:is-undefined", "never", "{{ @ is undefined }}", "u"),
    ("core:default", "never", "{{ @|default(1) }}", "u"),
    # maps: a key the map does not have is an undefined like any other; the map and what it has are defined
    ("core:map-missing-attr", "print", "{{ @ }}", "{'k': 1}.a"),
    ("core:map-missing-item", "print", "{{ @ }}", "{'k': 1}['a']"),
    ("core:map-missing-iterate", "iterate", "{% for x in @ %}x{% endfor %}", "{'k': 1}.a"),
    ("core:map-missing-chain", "access", "{{ @ }}", "{'k': 1}.a.b"),
    ("core:map-key", "never", "{{ @ }}", "{'k': 1}.k"),
    ("core:map-iterate", "never", "{% for x in @ %}{{ x }}{% endfor %}", "{'k': 1}"),
    ("core:map-in", "never", "{{ 'a' in @ }}", "{'k': 1}"),
]

UNDEFS = [("u", "u"), ("missing-attr", "d.zz"), ("missing-index", "x[10]"), ("none-attr", "n.foo")]

PRINT_POS = [
    ("top", "a{{ @ }}b"),
    ("in-for", "{% for i in x %}{{ @ }}.{% endfor %}"),
    ("in-if", "{% if t %}{{ @ }}{% endif %}"),
    ("in-macro", "{% macro m() %}[{{ @ }}]{% endmacro %}{{ m() }}"),
    ("in-set-block", "{% set z %}<{{ @ }}>{% endset %}{{ z }}"),
    ("in-filter-block", "{% filter upper %}q{{ @ }}{% endfilter %}"),
    ("in-call-block", "{% macro m() %}{{ caller() }}{% endmacro %}{% call m() %}c{{ @ }}{% endcall %}"),
    ("in-with", "{% with w = 1 %}{{ @ }}{{ w }}{% endwith %}"),
    ("autoescape", "{% autoescape true %}{{ @ }}{% endautoescape %}"),
    ("via-set", "{% set z = @ %}{{ z }}"),
    ("via-with", "{% with z = @ %}{{ z }}{% endwith %}"),
    ("via-macro-arg", "{% macro m(a) %}{{ a }}{% endmacro %}{{ m(@) }}"),
    ("via-loop-var", "{% for i in [@] %}{{ i }}{% endfor %}"),
    ("via-ternary", "{{ @ if t else 1 }}"),
    ("via-or", "{{ false or @ }}"),
]
EXTRA_PRINT = [  # not expressible with the operand table
    ("print:missing-macro-arg", "print", "{% macro m(a) %}{{ @ }}{% endmacro %}{{ m() }}", "a"),
    ("print:loop-outside-loop", "print", "{{ @ }}", "loop"),
    # printing a container / joining a list that holds an undefined
    ("print:list-element", "print-nested", "{{ [@] }}", "u"),
    ("print:map-value", "print-nested", "{{ {'k': @} }}", "u"),
    ("print:join-element", "print-nested", "{{ [@, 1]|join('-') }}", "u"),
    ("print:join-element-safe-joiner", "print-nested", "{% autoescape true %}{{ [@, 1]|join('-'|safe) }}{% endautoescape %}", "u"),
]
ITER_POS = [
    ("for", "{% for i in @ %}x{% endfor %}"),
    ("for-else", "{% for i in @ %}x{% else %}e{% endfor %}"),
    ("for-filter", "{% for i in @ if i %}x{% endfor %}"),
    ("for-recursive", "{% for i in @ recursive %}x{% endfor %}"),
    ("for-unpack", "{% for a, b in @ %}x{% endfor %}"),
    ("for-nested", "{% for j in x %}{% for i in @ %}x{% endfor %}.{% endfor %}"),
    ("for-in-macro", "{% macro m() %}{% for i in @ %}x{% endfor %}|{% endmacro %}{{ m() }}"),
    ("for-loop-length", "{% for i in @ %}{{ loop.length }}{% endfor %}!"),
]
TRUTH_POS = [
    ("if", "{% if @ %}a{% else %}b{% endif %}"),
    ("elif", "{% if false %}x{% elif @ %}a{% else %}b{% endif %}"),
    ("not", "{% if not @ %}a{% else %}b{% endif %}"),
    ("and-left", "{% if @ and true %}a{% else %}b{% endif %}"),
    ("and-right", "{% if true and @ %}a{% else %}b{% endif %}"),
    ("or-left", "{% if @ or false %}a{% else %}b{% endif %}"),
    ("or-right", "{% if false or @ %}a{% else %}b{% endif %}"),
    ("ternary", "{{ 1 if @ else 2 }}"),
    ("ternary-no-else", "[{{ 1 if @ }}]"),
    ("loop-filter", "{% for i in x if @ %}a{% else %}e{% endfor %}"),
    ("not-expr", "{{ not @ }}"),
    ("bool-filter", "{{ @|bool }}"),
    ("if-in-macro", "{% macro m() %}{% if @ %}a{% else %}b{% endif %}{% endmacro %}{{ m() }}"),
]
ACCESS = [  # (id, template, access expression, the undefined it is applied to)
    ("attr", "{{ @ }}", "u.a", "u"),
    ("item-str", "{{ @ }}", "u['a']", "u"),
    ("item-int", "{{ @ }}", "u[0]", "u"),
    ("item-var", "{{ @ }}", "u[n]", "u"),
    ("attr-attr", "{{ @ }}", "u.a.b", "u"),
    ("attr-of-missing-attr", "{{ @ }}", "d.zz.y", "d.zz"),
    ("item-of-missing-index", "{{ @ }}", "x[10][0]", "x[10]"),
    ("attr-of-silent", "{{ @ }}", "(1 if false).a", "(1 if false)"),
    ("attr-then-test", "{{ @ is defined }}", "u.a", "u"),
    ("attr-then-default", "{{ @|default(1) }}", "u.a", "u"),
    ("attr-in-if", "{% if @ %}a{% else %}b{% endif %}", "u.a", "u"),
    ("attr-in-for", "{% for i in @ %}x{% else %}e{% endfor %}", "u.a", "u"),
    ("attr-in-set", "{% set z = @ %}ok", "u.a", "u"),
    ("attr-of-macro-arg", "{% macro m(a) %}{{ @ }}{% endmacro %}{{ m() }}", "a.b", "a"),
    ("attr-of-loop-var", "{% for i in [u] %}{{ @ }}{% endfor %}", "i.a", "i"),
    ("attr-filter", "{{ @ }}", "u|attr('a')", "u"),          # "the same as the [] operator" (filters.rs)
    ("slice", "{{ @ }}", "u[1:2]", "u"),
    ("slice-open", "{{ @ }}", "u[:]", "u"),
    ("slice-in-for", "{% for i in @ %}x{% else %}e{% endfor %}", "u[::2]", "u"),
]
NEVER = [
    ("is-defined", "{{ @ is defined }}", "False"), ("is-not-defined", "{{ @ is not defined }}", "True"),
    ("is-undefined", "{{ @ is undefined }}", "True"), ("is-not-undefined", "{{ @ is not undefined }}", "False"),
    ("default", "{{ @|default(1) }}", "1"), ("d", "{{ @|d('z') }}", "z"), ("default-noarg", "[{{ @|default }}]", "[]"),
    ("default-bool", "{{ @|default(7, true) }}", "7"),
    ("if-defined", "{% if @ is defined %}a{% else %}b{% endif %}", "b"),
    ("if-undefined", "{% if @ is undefined %}a{% else %}b{% endif %}", "a"),
    ("guarded", "{% if @ is defined and @ %}a{% else %}b{% endif %}", "b"),
    ("ternary-guard", "{{ @ if @ is defined else 'no' }}", "no"),
    ("default-in-for", "{% for i in @|default([1, 2]) %}{{ i }}{% endfor %}", "12"),
    ("default-in-macro", "{% macro m(a) %}{{ a|default('dflt') }}{% endmacro %}{{ m(@) }}", "dflt"),
    ("set-then-defined", "{% set z = @ %}{{ z is defined }}", "False"),
    ("select-defined", "{{ [@, 1]|select('defined')|list }}", "[1]"),
    ("reject-undefined", "{{ [@, 1]|reject('undefined')|list }}", "[1]"),
]


def subst(tmpl, text):
    """puts `text` at the `@` of a template or of every template of a {name: source} set"""
    if isinstance(tmpl, dict):
        return {k: v.replace("@", text) for k, v in tmpl.items()}
    return tmpl.replace("@", text)


def key_of(src):
    return json.dumps(src, sort_keys=True) if isinstance(src, dict) else src


# ---- the multi-template positions of the language (render "main"); `@` = where the site goes ----
_BASE = "[{% block body %}base{% endblock %}]"
_BASE2 = "[{% block a %}a{% endblock %}|{% block b %}b{% endblock %}]"
_HELLO = "{% macro hello() %}hello{% endmacro %}"
MT_SCAFFOLDS = {
    # top level of an extending child: rendered into a discarding output
    "child-top-before-extends": {"main": '@{% extends "base" %}{% block body %}child{% endblock %}', "base": _BASE},
    "child-top-after-extends": {"main": '{% extends "base" %}@{% block body %}child{% endblock %}', "base": _BASE},
    "child-top-between-blocks": {"main": '{% extends "base2" %}{% block a %}A{% endblock %}@{% block b %}B{% endblock %}', "base2": _BASE2},
    "child-top-end": {"main": '{% extends "base" %}{% block body %}child{% endblock %}@', "base": _BASE},
    "child-top-in-for": {"main": '{% extends "base" %}{% for q in [1, 2] %}@{% endfor %}{% block body %}child{% endblock %}', "base": _BASE},
    "child-top-in-if": {"main": '{% extends "base" %}{% if true %}@{% endif %}{% block body %}child{% endblock %}', "base": _BASE},
    "child-top-set-block": {"main": '{% extends "base" %}{% set z %}@{% endset %}{% block body %}child{% endblock %}', "base": _BASE},
    "child-top-filter-block": {"main": '{% extends "base" %}{% filter upper %}@{% endfilter %}{% block body %}child{% endblock %}', "base": _BASE},
    "child-top-macro-call": {"main": '{% extends "base" %}{% macro mm() %}@{% endmacro %}{{ mm() }}{% block body %}child{% endblock %}', "base": _BASE},
    "child-top-call-block": {"main": '{% extends "base" %}{% macro mm() %}{{ caller() }}{% endmacro %}{% call mm() %}@{% endcall %}{% block body %}child{% endblock %}', "base": _BASE},
    "child-top-include": {"main": '{% extends "base" %}{% include "inc" %}{% block body %}child{% endblock %}', "base": _BASE, "inc": "@"},
    "child-top-import": {"main": '{% extends "base" %}{% from "mod" import hello %}{% block body %}{{ hello() }}{% endblock %}', "base": _BASE, "mod": "@" + _HELLO},
    "grandchild-top": {"main": '{% extends "mid" %}@{% block body %}gc{% endblock %}', "mid": '{% extends "base" %}{% block body %}mid{% endblock %}', "base": _BASE},
    "mid-top": {"main": '{% extends "mid" %}{% block body %}gc{% endblock %}', "mid": '{% extends "base" %}@{% block body %}mid{% endblock %}', "base": _BASE},
    # blocks
    "overriding-block": {"main": '{% extends "base" %}{% block body %}c@{% endblock %}', "base": _BASE},
    "block-via-super": {"main": '{% extends "base" %}{% block body %}<{{ super() }}>{% endblock %}', "base": "[{% block body %}b@{% endblock %}]"},
    "block-via-self": {"main": "{% block body %}b@{% endblock %}|{{ self.body() }}"},
    "base-top": {"main": '{% extends "base" %}{% block body %}child{% endblock %}', "base": "[@{% block body %}{% endblock %}]"},
    "base-block-not-overridden": {"main": '{% extends "base2" %}{% block a %}A{% endblock %}', "base2": "[{% block a %}a{% endblock %}|{% block b %}b@{% endblock %}]"},
    "macro-in-overriding-block": {"main": '{% extends "base" %}{% block body %}{% macro mm() %}@{% endmacro %}{{ mm() }}{% endblock %}', "base": _BASE},
    "set-block-in-overriding-block": {"main": '{% extends "base" %}{% block body %}{% set z %}@{% endset %}{{ z }}{% endblock %}', "base": _BASE},
    "call-block-in-overriding-block": {"main": '{% extends "base" %}{% block body %}{% macro mm() %}{{ caller() }}{% endmacro %}{% call mm() %}@{% endcall %}{% endblock %}', "base": _BASE},
    # include
    "included": {"main": '<{% include "inc" %}>', "inc": "@"},
    "included-in-loop": {"main": '{% for q in [1, 2] %}{% include "inc" %}{% endfor %}', "inc": "@"},
    "included-in-block": {"main": '{% extends "base" %}{% block body %}{% include "inc" %}{% endblock %}', "base": _BASE, "inc": "@"},
    "included-extending-child-top": {"main": '<{% include "child" %}>', "child": '{% extends "base" %}@{% block body %}c{% endblock %}', "base": _BASE},
    "included-in-set-block": {"main": '{% set z %}{% include "inc" %}{% endset %}<{{ z }}>', "inc": "@"},
    # import / from import: the module's top level is rendered into a discarding (from) or capturing (import as) output
    "import-as-top": {"main": '{% import "mod" as m %}{{ m.hello() }}', "mod": "@" + _HELLO},
    "from-import-top": {"main": '{% from "mod" import hello %}{{ hello() }}', "mod": "@" + _HELLO},
    "from-import-top-after-macro": {"main": '{% from "mod" import hello %}{{ hello() }}', "mod": _HELLO + "@"},
    "from-import-top-set-block": {"main": '{% from "mod" import hello %}{{ hello() }}', "mod": "{% set z %}@{% endset %}" + _HELLO},
    "from-import-top-in-for": {"main": '{% from "mod" import hello %}{{ hello() }}', "mod": "{% for q in [1] %}@{% endfor %}" + _HELLO},
    "from-import-top-macro-call": {"main": '{% from "mod" import hello %}{{ hello() }}', "mod": "{% macro inner() %}@{% endmacro %}{{ inner() }}" + _HELLO},
    "from-import-in-macro": {"main": '{% macro outer() %}{% from "mod" import hello %}{{ hello() }}{% endmacro %}{{ outer() }}', "mod": "@" + _HELLO},
    "import-as-macro-body": {"main": '{% import "mod" as m %}{{ m.hello() }}', "mod": "{% macro hello() %}h@{% endmacro %}"},
    "from-import-macro-body": {"main": '{% from "mod" import hello %}{{ hello() }}', "mod": "{% macro hello() %}h@{% endmacro %}"},
    "from-import-macro-calls-macro": {"main": '{% from "mod" import hello %}{{ hello() }}', "mod": "{% macro inner() %}i@{% endmacro %}{% macro hello() %}h{{ inner() }}{% endmacro %}"},
    "from-import-call-block": {"main": '{% from "mod" import wrap %}{% call wrap() %}@{% endcall %}', "mod": "{% macro wrap() %}<{{ caller() }}>{% endmacro %}"},
    "from-import-macro-in-set-block": {"main": '{% from "mod" import hello %}{% set z %}{{ hello() }}{% endset %}<{{ z }}>', "mod": "{% macro hello() %}h@{% endmacro %}"},
}
MT_SITES = [  # (name, class, site template, operand)
    ("print", "print", "{{ @ }}", "u"), ("print-missing-attr", "print", "{{ @ }}", "{'k': 1}.zz"),
    ("iterate", "iterate", "{% for i in @ %}x{% endfor %}", "u"), ("truth", "truth", "{% if @ %}a{% else %}b{% endif %}", "u"),
    ("attr", "access", "{{ @ }}", "u.a"), ("item", "access", "{{ @ }}", "u[0]"),
    ("is-defined", "never", "{{ @ is defined }}", "u"), ("default", "never", "{{ @|default(1) }}", "u"),
    # filters / tests / operators with an undefined operand: the order of the modes only
    ("f-upper", "order", "{{ @|upper }}", "u"), ("f-int", "order", "{{ @|int }}", "u"), ("f-sum", "order", "{{ @|sum }}", "u"),
    ("f-first", "order", "{{ [@]|first }}", "u"), ("t-in", "order", "{{ 1 is in(@) }}", "u"), ("concat", "order", "{{ @ ~ 'z' }}", "u"),
    ("cmp", "order", "{{ @ < 1 }}", "u"), ("not", "order", "{{ not @ }}", "u"), ("slice", "order", "{{ @[1:2] }}", "u"),
]
MT_SWEEP_SCAFFOLDS = ["child-top-after-extends", "from-import-top", "included", "import-as-top", "overriding-block"]


def mt_probes():
    out = []
    for sn, sc in MT_SCAFFOLDS.items():
        for cn, cls, st, op in MT_SITES:
            out.append(("mt:%s:%s" % (sn, cn), cls, subst(sc, st), op))
    return out


# ---- systematic product: expression-level sites x consumers of their value ------------------------
# A site is an expression that consults the undefined behaviour when it evaluates its operand `@`; a
# consumer is a template that takes the value `$` of an expression and never fails on an undefined
# VALUE (so a failure can only come from the site).  Every site is combined with every consumer: a
# site that defers its check "to whoever consumes the result" is caught whoever the consumer is.
REC = "{% for q in [1] recursive %}<<BODY>>{% endfor %}"   # wrapper: <<BODY>> = the consumer, inside a recursive loop
EXPR_SITES = [  # (id, class, expression, wrapper | None)
    ("and-left", "truth", "@ and 1", None), ("and-left-nested", "truth", "(@ and 1) and 2", None), ("and-in-or", "truth", "0 or (@ and 1)", None),
    ("and-left-undef-right", "truth", "@ and @", None), ("or-left", "truth", "@ or 0", None), ("or-left-undef-right", "truth", "@ or @", None),
    ("or-then-and", "truth", "(@ or 0) and 1", None), ("and-then-or", "truth", "(@ and 1) or 0", None), ("not", "truth", "not @", None),
    ("not-and", "truth", "not (@ and 1)", None), ("ifexpr-cond", "truth", "1 if @ else 2", None), ("ifexpr-cond-noelse", "truth", "1 if @", None),
    ("ifexpr-cond-and", "truth", "1 if (@ and 1) else 2", None), ("bool-filter", "truth", "@|bool", None),
    ("loop-recurse", "iterate", "loop(@)", REC), ("loop-recurse-filtered", "iterate", "loop(@)|upper", REC),
    ("loop-recurse-nested-arg", "iterate", "loop(@)|default('r')", REC),
    ("f-list", "iterate", "@|list", None), ("f-sum", "iterate", "@|sum", None), ("f-sort", "iterate", "@|sort", None), ("f-unique", "iterate", "@|unique|list", None),
    ("f-map", "iterate", "@|map('upper')|list", None), ("f-select", "iterate", "@|select|list", None), ("f-batch", "iterate", "@|batch(2)|list", None),
    ("in-container", "iterate", "1 in @", None), ("not-in-container", "iterate", "1 not in @", None),
    ("attr", "access", "@.a", None), ("item-int", "access", "@[0]", None), ("item-str", "access", "@['k']", None), ("attr-attr", "access", "@.a.b", None),
]
CONSUMERS = [  # (id, template; `$` = the value consumed)
    ("default", "{{ ($)|default('D') }}"), ("d", "{{ ($)|d('D') }}"), ("is-defined", "{{ ($) is defined }}"), ("is-undefined", "{{ ($) is undefined }}"),
    ("is-not-defined", "{{ ($) is not defined }}"), ("is-none", "{{ ($) is none }}"),
    ("set", "{% set z = $ %}done"), ("set-then-defined", "{% set z = $ %}{{ z is defined }}"), ("with", "{% with z = $ %}{{ z is defined }}{% endwith %}"),
    ("macro-arg", "{% macro m(a) %}{{ a is defined }}{% endmacro %}{{ m($) }}"), ("macro-kwarg", "{% macro m(a) %}{{ a is defined }}{% endmacro %}{{ m(a=$) }}"),
    ("macro-default", "{% macro m(a=$) %}{{ a is defined }}{% endmacro %}{{ m() }}"),
    ("caller-arg", "{% macro m(v) %}{{ caller(v) }}{% endmacro %}{% call(a) m($) %}{{ a is defined }}{% endcall %}"),
    ("function-kwarg", "{{ dict(a=$)|length }}"), ("namespace", "{% set ns = namespace(a=$) %}{{ ns.a is defined }}"),
    ("list-item", "{{ [$]|length }}"), ("list-item-2", "{{ [0, $]|length }}"), ("map-value", "{{ {'k': $}|length }}"), ("tuple-item", "{{ ($, 1)|length }}"),
    ("loop-over-literal", "{% for i in [$] %}{{ i is defined }}{% endfor %}"),
    ("ifexpr-then", "{{ ($ if true else 0) is defined }}"), ("ifexpr-else", "{{ (0 if false else $) is defined }}"), ("ifexpr-then-noelse", "{{ ($ if true) is defined }}"),
    ("and-right", "{{ (true and ($)) is defined }}"), ("or-right", "{{ (false or ($)) is defined }}"),
    ("select-defined", "{{ [$]|select('defined')|list|length }}"), ("filter-arg", "{{ none|default($) is none }}"),
]
PRINT_CONSUMER = ("print", "{{ $ }}")          # not tolerant: only for sites whose value is defined when they succeed
PRODUCT_UNDEFS = [("u", "u"), ("missing-attr", "d.zz")]
REF_OVERRIDE = {}


def product_probes():
    out = []
    for sid, cls, expr, wrap in EXPR_SITES:
        cons = CONSUMERS + ([PRINT_CONSUMER] if cls in ("iterate", "access") else [])
        for cid, ct in cons:
            for un, ue in PRODUCT_UNDEFS:
                site = "px:%s:%s:%s" % (sid, cid, un)
                def build(e):
                    t = ct.replace("$", e)
                    return wrap.replace("<<BODY>>", t) if wrap else t
                tmpl = build(expr)                       # still holds `@`
                if cls == "truth":
                    ref = (build(expr.replace("@", "(1 if false)")), 2)      # an undefined whose truth test never fails
                elif cls == "iterate":
                    ref = (build(expr.replace("@", "[]")), 2)
                else:
                    ref = (build(ue), 3)                                     # the undefined itself, under chainable
                REF_OVERRIDE[site] = ref
                out.append((site, cls, tmpl, ue))
    return out


product_probes()          # fills REF_OVERRIDE (needed by --replay as well)


# ---- sources of undefined: the matrix speaks about undefined values whatever produced them -------------
# Every undefined the ENGINE produces (not the silent one of a conditional expression without else) must behave at
# every site exactly like a missing variable: same success / failure, same error kind, same output, in each mode.
# (id, wrapper | None, expression)   wrapper: template (or {name: source} set) with <<BODY>> where the site goes
_LOOP1 = "{% for q in ['a'] %}<<BODY>>{% endfor %}"
_LOOP3 = "{% for q in ['a', 'b', 'c'] %}{% if loop.WHICH %}<<BODY>>{% endif %}{% endfor %}"
UNDEF_SOURCES = [
    ("missing-attr", None, "d.zz"), ("missing-attr-literal", None, "{}.x"), ("missing-key", None, "{'k': 1}['zz']"), ("missing-key-var", None, "d['zz']"),
    ("attr-of-int", None, "n.foo"), ("attr-of-string", None, "s.foo"), ("attr-of-list", None, "x.foo"), ("attr-of-none", None, "nn.foo"),
    ("index-out-of-range", None, "x[99]"), ("negative-index-out-of-range", None, "x[-99]"), ("string-index-out-of-range", None, "'abc'[9]"),
    ("tuple-index-out-of-range", None, "(1, 2)[5]"), ("index-of-empty-literal", None, "[][0]"),
    ("first-of-empty", None, "[]|first"), ("last-of-empty", None, "[]|last"), ("min-of-empty", None, "[]|min"), ("max-of-empty", None, "[]|max"),
    ("first-of-empty-string", None, "''|first"), ("last-of-empty-string", None, "''|last"), ("first-of-empty-slice", None, "x[5:]|first"), ("last-of-empty-slice", None, "x[5:]|last"),
    ("first-of-empty-lazy", None, "x|select('>', 5)|first"), ("last-of-empty-lazy", None, "x|select('>', 5)|last"), ("last-of-empty-range", None, "range(0)|last"),
    ("loop-previtem-first", _LOOP1, "loop.previtem"), ("loop-nextitem-last", _LOOP1, "loop.nextitem"),
    ("loop-previtem-first-of-3", _LOOP3.replace("WHICH", "first"), "loop.previtem"), ("loop-nextitem-last-of-3", _LOOP3.replace("WHICH", "last"), "loop.nextitem"),
    ("loop-missing-attr", _LOOP1, "loop.nope"),
    ("unpassed-macro-arg", "{% macro mm(a) %}<<BODY>>{% endmacro %}{{ mm() }}", "a"),
    ("unpassed-macro-arg-2", "{% macro mm(a, b) %}<<BODY>>{% endmacro %}{{ mm(1) }}", "b"),
    ("caller-outside-call-block", "{% macro mm() %}<<BODY>>{% endmacro %}{{ mm() }}", "caller"),
    ("namespace-missing-attr", None, "namespace().x"), ("namespace-missing-attr-2", None, "namespace(a=1).b"), ("dict-missing-attr", None, "dict(a=1).zz"),
    ("module-missing-macro", {"main": '{% import "mod" as md %}<<BODY>>', "mod": "{% macro hello() %}hello{% endmacro %}"}, "md.nope"),
    ("attr-filter-missing", None, "{}|attr('x')"), ("attr-filter-missing-var", None, "d|attr('zz')"),
    ("map-attribute-missing", None, "recs|map(attribute='zz')|first"), ("map-attribute-missing-list", None, "(recs|map(attribute='zz')|list)[1]"),
    ("groupby-missing-key", None, "(recs|groupby('zz')|first)[0]"),
    ("set-copy", "{% set z = u %}<<BODY>>", "z"), ("with-copy", "{% with z = x[99] %}<<BODY>>{% endwith %}", "z"),
    ("loop-var-undefined-item", "{% for z in [u] %}<<BODY>>{% endfor %}", "z"), ("unpacked-undefined-item", "{% for y, z in [[1, u]] %}<<BODY>>{% endfor %}", "z"),
    ("default-of-undefined", None, "u|default(d.zz)"), ("ifexpr-branch", None, "(u if true else 1)"), ("or-result", None, "(false or x[99])"), ("and-result", None, "(true and d.zz)"),
    ("list-item", None, "[u][0]"), ("map-value", None, "{'k': u}.k"), ("macro-return-arg", "{% macro idm(a) %}{{ a }}{% endmacro %}<<BODY>>", "[]|last"),
]
SOURCE_SITES = [  # (id, template; `@` = the (parenthesised) source expression)
    ("print", "{{ @ }}"), ("print-escaped", "{% autoescape true %}{{ @ }}{% endautoescape %}"), ("print-in-set-block", "{% set zz %}{{ @ }}{% endset %}[{{ zz }}]"),
    ("if", "{% if @ %}a{% else %}b{% endif %}"), ("not", "{{ not @ }}"), ("ifexpr-cond", "{{ 1 if @ else 2 }}"), ("and-left-tolerant", "{{ (@ and 1) is defined }}"),
    ("or-left", "{{ @ or 'o' }}"), ("bool-filter", "{{ @|bool }}"), ("loop-filter", "{% for i in [1] if @ %}a{% else %}e{% endfor %}"),
    ("for", "{% for i in @ %}x{% else %}e{% endfor %}"), ("list-filter", "{{ @|list }}"), ("sum-filter", "{{ @|sum }}"), ("in-container", "{{ 1 in @ }}"), ("join-filter", "{{ @|join(',') }}"),
    ("attr", "{{ @.a }}"), ("item", "{{ @[0] }}"), ("attr-then-default", "{{ @.a|default('D') }}"), ("slice", "{{ @[1:] }}"),
    ("upper", "{{ @|upper }}"), ("title", "{{ @|title }}"), ("string", "{{ @|string }}"), ("concat", "{{ @ ~ 'z' }}"), ("concat-right", "{{ 'z' ~ @ }}"), ("int", "{{ @|int }}"),
    ("startingwith", "{{ @ is startingwith('a') }}"), ("replace-arg", "{{ 'aba'|replace(@, 'c') }}"), ("escape", "{{ @|escape }}"),
    ("add", "{{ @ + 1 }}"), ("neg", "{{ -@ }}"), ("lt", "{{ @ < 1 }}"), ("eq", "{{ @ == 1 }}"), ("in-item", "{{ @ in x }}"),
    ("is-defined", "{{ @ is defined }}"), ("is-undefined", "{{ @ is undefined }}"), ("default", "{{ @|default('D') }}"), ("is-none", "{{ @ is none }}"), ("tojson", "{{ @|tojson }}"),
    ("macro-arg-print", "{% macro pp(a) %}{{ a }}{% endmacro %}{{ pp(@) }}"), ("list-item-print", "{% for i in [@] %}{{ i }}{% endfor %}"),
]


def source_probes():
    """[(site id, wrapper, template of the source, template of the missing variable)]"""
    out = []
    for srcid, wrap, expr in UNDEF_SOURCES:
        for sid, st in SOURCE_SITES:
            def build(e):
                t = st.replace("@", e)
                if wrap is None:
                    return t
                if isinstance(wrap, dict):
                    return {k: v.replace("<<BODY>>", t) for k, v in wrap.items()}
                return wrap.replace("<<BODY>>", t)
            out.append(("src:%s:%s" % (srcid, sid), build("(" + expr + ")"), build("u")))
    return out


def matrix_probes():
    """[(site id, class, template with @, operand)]"""
    out = list(CORE)
    for un, ue in UNDEFS:
        for pn, pt in PRINT_POS:
            out.append(("print:%s:%s" % (pn, un), "print", pt, ue))
        for pn, pt in ITER_POS:
            out.append(("iterate:%s:%s" % (pn, un), "iterate", pt, ue))
        for pn, pt in TRUTH_POS:
            out.append(("truth:%s:%s" % (pn, un), "truth", pt, ue))
        for pn, pt, _ in NEVER:
            out.append(("never:%s:%s" % (pn, un), "never", pt, ue))
    out += EXTRA_PRINT
    for an, at, ae, _ in ACCESS:
        out.append(("access:%s" % an, "access", at, ae))
    return out + mt_probes() + product_probes()


NEVER_EXPECT = {"never:%s:%s" % (pn, un): ex for un, _ in UNDEFS for pn, _, ex in NEVER}
NEVER_EXPECT.update({"core:is-defined": "False", "core:is-undefined": "True", "core:default": "1",
                     "core:map-key": "1", "core:map-iterate": "k", "core:map-in": "False"})
ACCESS_BASE = {"access:%s" % an: base for an, _, _, base in ACCESS}
ACCESS_BASE.update({"core:attr": "u", "core:item": "u", "core:map-missing-chain": "{'k': 1}.a"})


def reference_template(site, cls, tmpl, operand):
    """(template, mode index) whose rendering says what "yields nothing" / "is false" / "an undefined" means here"""
    if site in REF_OVERRIDE:
        return REF_OVERRIDE[site]
    if cls in ("print", "print-nested"):
        return subst(tmpl, "''"), 2
    if cls == "iterate":
        return subst(tmpl, "[]"), 2
    if cls == "truth":
        return subst(tmpl, "false"), 2
    if cls == "access":
        return subst(tmpl, ACCESS_BASE.get(site, "u")), 3
    return None, None


def judge_probe(site, cls, row, ref):
    """returns a list of deviation strings (empty = the documented behaviour)"""
    dev = []
    def fails(i):
        return row[i][0] == "err"
    def okeq(i, want):
        return row[i] == ("ok", want)
    if cls in ("print", "iterate", "print-nested"):
        for i in (0, 1):
            if not fails(i):
                dev.append("%s does not fail: %s" % (MODES[i], show(row[i])))
        for i in (2, 3):
            if cls == "print-nested":
                if row[i][0] != "ok":
                    dev.append("%s fails: %s" % (MODES[i], show(row[i])))
            elif ref is None or ref[0] != "ok" or not okeq(i, ref[1]):
                dev.append("%s does not yield nothing: %s (with nothing in its place: %s)" % (MODES[i], show(row[i]), show(ref) if ref else "?"))
    elif cls == "truth":
        if not fails(0):
            dev.append("strict does not fail: %s" % show(row[0]))
        for i in (1, 2, 3):
            if ref is None or ref[0] != "ok" or not okeq(i, ref[1]):
                dev.append("%s is not the false branch: %s (with false in its place: %s)" % (MODES[i], show(row[i]), show(ref) if ref else "?"))
    elif cls == "access":
        for i in (0, 1, 2):
            if not fails(i):
                dev.append("%s does not fail: %s" % (MODES[i], show(row[i])))
        if ref is None or ref[0] != "ok" or not okeq(3, ref[1]):
            dev.append("chainable does not yield an undefined: %s (with the undefined itself in its place: %s)" % (show(row[3]), show(ref) if ref else "?"))
    elif cls == "never":
        want = NEVER_EXPECT.get(site)
        for i in range(4):
            if row[i][0] != "ok" or (want is not None and row[i][1] != want) or row[i] != row[0]:
                dev.append("%s: %s (expected %s)" % (MODES[i], show(row[i]), repr(want) if want is not None else "the same rendering under all four modes"))
    return dev


# ----------------------------------------------------------------------------------------------
# (ii) sweep of the built-ins.  For every name: invocations that succeed on defined operands; each
# argument position in turn receives a possibly-undefined operand.
# ----------------------------------------------------------------------------------------------
FILTER_CALLS = {
    "abs": [("-3", [], {})], "attr": [("d", ["'a'"], {})], "batch": [("x", ["2", "0"], {})], "bool": [("1", [], {})],
    "capitalize": [("'ab'", [], {})], "chain": [("x", ["x"], {})], "count": [("x", [], {})], "length": [("x", [], {})],
    "d": [("n", ["5", "true"], {})], "default": [("n", ["5", "true"], {}), ("nn", [], {"value": "5", "boolean": "true"})],
    "dictsort": [("d", [], {"by": "'value'", "reverse": "true", "case_sensitive": "true"})],
    "e": [("'<a>'", [], {})], "escape": [("'<a>'", [], {})], "first": [("x", [], {})], "last": [("x", [], {})],
    "float": [("'1.5'", [], {})], "format": [("'%s-%s'", ["1", "2"], {})],
    "groupby": [("recs", ["'a'"], {}), ("recs", [], {"attribute": "'a'", "default": "0", "case_sensitive": "true"})],
    "indent": [("'a\\nb'", ["2", "true", "true"], {})], "int": [("'42'", [], {})], "items": [("d", [], {})],
    "join": [("x", ["','"], {}), ("recs", ["','", "'b'"], {})], "lines": [("'a\\nb'", [], {})], "list": [("'abc'", [], {})],
    "lower": [("'Ab'", [], {})], "upper": [("'Ab'", [], {})], "title": [("'ab cd'", [], {})],
    "trim": [("' ab '", [], {}), ("'xabx'", ["'x'"], {})],
    "map": [("x", ["'string'"], {}), ("recs", [], {"attribute": "'a'", "default": "0"}), ("x", ["'default'", "7"], {})],
    "max": [("x", [], {})], "min": [("x", [], {})], "pprint": [("x", [], {})],
    "reject": [("x", ["'odd'"], {}), ("x", ["'divisibleby'", "2"], {}), ("x", [], {})],
    "select": [("x", ["'odd'"], {}), ("x", ["'divisibleby'", "2"], {}), ("x", [], {})],
    "rejectattr": [("recs", ["'a'"], {}), ("recs", ["'a'", "'=='", "1"], {})],
    "selectattr": [("recs", ["'a'"], {}), ("recs", ["'a'", "'=='", "1"], {})],
    "replace": [("'aba'", ["'a'", "'c'"], {})], "reverse": [("x", [], {}), ("'abc'", [], {})], "round": [("f", ["1"], {}), ("f", [], {"method": "'floor'"})],
    "safe": [("'<b>'", [], {})], "slice": [("x", ["2", "0"], {})],
    "sort": [("x", [], {"reverse": "true"}), ("recs", [], {"attribute": "'b'", "case_sensitive": "true"})],
    "split": [("'a,b'", ["','", "1"], {})], "string": [("42", [], {})], "sum": [("x", [], {})],
    "tojson": [("d", ["2"], {})], "unique": [("x", [], {}), ("recs", [], {"attribute": "'a'", "case_sensitive": "true"})],
    "urlencode": [("'a b'", [], {}), ("d", [], {})], "zip": [("x", ["x"], {})],
}
TEST_CALLS = {
    "boolean": [("t", [])], "defined": [("n", [])], "undefined": [("n", [])], "divisibleby": [("4", ["2"])],
    "endingwith": [("'ab'", ["'b'"])], "startingwith": [("'ab'", ["'a'"])], "escaped": [("'a'", [])], "safe": [("'a'", [])],
    "even": [("2", [])], "odd": [("3", [])], "false": [("false", [])], "true": [("true", [])], "filter": [("'upper'", [])],
    "test": [("'odd'", [])], "float": [("f", [])], "in": [("1", ["x"])], "int": [("1", [])], "integer": [("1", [])],
    "iterable": [("x", [])], "lower": [("'a'", [])], "upper": [("'A'", [])], "mapping": [("d", [])], "none": [("nn", [])],
    "number": [("1", [])], "sequence": [("x", [])], "string": [("'a'", [])], "sameas": [("n", ["n"])],
}
CMP_TESTS = ["eq", "equalto", "==", "ne", "!=", "lt", "lessthan", "<", "le", "<=", "gt", "greaterthan", ">", "ge", ">="]
FUNC_CALLS = {
    "range": [(["3"], {}), (["1", "7", "2"], {})], "dict": [([], {"a": "1", "b": "2"}), (["d"], {"c": "3"})],
    "namespace": [([], {"a": "1"}), (["d"], {})], "debug": [([], {}), (["n"], {})],
    # minijinja-contrib (registered by the harness): swept as well, absent names are UnknownFunction in every mode
    "cycler": [(["1", "2"], {})], "joiner": [(["','"], {})], "lipsum": [(["1"], {})], "randrange": [(["1", "2"], {})],
}
SWEEP_UNDEFS = [("u", "u"), ("missing-attr", "d.zz"), ("silent", "(1 if false)")]
POSITIONS = [("print", "{{ @ }}"), ("if", "{% if @ %}a{% else %}b{% endif %}"),
             ("for", "{% for i in @ %}[{{ i }}]{% else %}e{% endfor %}"), ("set", "{% set z = @ %}{{ z is defined }}"),
             ("guarded", "{{ (@) is defined }}|{{ (@)|default('D') }}")]
# documented as operating on the items of their operand (filters.rs): argument positions that ITERATE
ITERATING = {"batch": [0], "chain": [0, 1], "groupby": [0], "join": [0], "list": [0], "map": [0], "max": [0], "min": [0],
             "reject": [0], "rejectattr": [0], "reverse": [0], "select": [0], "selectattr": [0], "slice": [0], "sort": [0],
             "sum": [0], "unique": [0], "zip": [0, 1]}


BINOPS = ["+", "-", "*", "/", "//", "%", "**", "~", "==", "!=", "<", "<=", ">", ">=", "in", "not in", "and", "or"]
OP_EXPRS = (["@ %s 2" % o for o in BINOPS] + ["2 %s @" % o for o in BINOPS] + ["@ %s @" % o for o in BINOPS] + ["@ %s x" % o for o in ("in", "not in", "+", "==")] +
            ["x %s @" % o for o in ("+", "==", "~")] + ["-@", "not @", "1 < @ < 3", "@ < 2 < 3", "1 < 2 < @", "1 in @ == false", "@ in x == false", "1 not in @ != true",
             "@ == @ == @", "x[@]", "d[@]", "s[@]", "x[@:2]", "x[:@]", "x[::@]", "x[@][0]", "[@, 1][0]", "{'k': @}['k']", "{'k': @}.k", "(@, 1)[0]",
             "@(1)", "@.f(1)", "s.upper(@)", "d.get(@)", "range(*@)", "dict(**@)", "dict(a=@)", "[@]|length", "[@]|first", "[@, @]|unique|list", "[@, 1]|sort", "[@]|sum",
             "[@]|map('upper')|list", "[@]|select|list", "[@]|reject|list", "[@]|min", "[[@]]|first|first", "@ if t else 1", "1 if t else @", "@ if @ else @"])
TAG_TEMPLATES = ["{% include @ %}", "{% include [@, 'zz'] ignore missing %}x", "{% extends @ %}", "{% import @ as q %}", "{% from @ import q %}",
                 "{% autoescape @ %}<{{ '<' }}{% endautoescape %}", "{% filter default(@) %}a{% endfilter %}", "{% set ns = namespace(a=1) %}{% set ns.a = @ %}{{ ns.a is defined }}",
                 "{% for a, b in [@] %}x{% endfor %}", "{% for a, b in [[@, 1]] %}{{ b }}{% endfor %}", "{% with a = @ %}{{ a is defined }}{% endwith %}",
                 "{% macro m(a=@) %}{{ a is defined }}{% endmacro %}{{ m() }}", "{% macro m(a) %}{{ a is defined }}{% endmacro %}{{ m(@) }}{{ m(a=@) }}",
                 "{% macro m(a) %}{{ a is defined }}{% endmacro %}{{ m(**@) }}", "{% macro m() %}{{ caller(@) }}{% endmacro %}{% call(a) m() %}{{ a is defined }}{% endcall %}",
                 "{% set z %}{{ @|default('') }}{% endset %}{{ z }}", "{% set z | default(@) %}{% endset %}[{{ z }}]", "{% for i in x %}{% if @ is defined %}{% break %}{% endif %}{{ i }}{% endfor %}",
                 "{% for i in x recursive %}{{ loop(@) if i == 1 }}{% endfor %}", "{% for i in x %}{{ loop.cycle(@, 1) }}{% endfor %}", "{% for i in x %}{{ loop.changed(@) }}{% endfor %}"]


def operator_cases():
    out = []
    for un, ue in SWEEP_UNDEFS:
        for e in OP_EXPRS:
            out.append(("op:%s:%s" % (e, un), e.replace("@", ue if ue == "u" else "(" + ue + ")"), True))
        for t in TAG_TEMPLATES:
            out.append(("tag:%s:%s" % (t, un), t.replace("@", ue), False))
    return out


# ---- which argument positions of which built-ins may receive an undefined under Strict / SemiStrict ----
# Oracle of the sweep: an undefined (missing variable, missing attribute) passed to a built-in must make the
# call FAIL under Strict and SemiStrict, unless the (built-in, position) cell is listed here with its reason.
# cell -> (reason, modes among strict / semistrict in which the call may succeed)
_BOTH = ("strict", "semistrict")
R_OPTIONAL = "optional parameter: an undefined (or none) argument counts as omitted in every mode (argtypes.rs, impl ArgType for Option<T>)"
R_KWARG = "keyword arguments are optional parameters: an undefined one counts as omitted (Kwargs::get::<Option<T>>)"
R_VALUE_TEST = "type / identity / comparison tests are total predicates on the value as it is (tests.rs take Value / &Value: no coercion to a string, number or iterable happens); an undefined is simply not a number, not equal, ..."
R_DOCUMENTED = "documented to accept an undefined"
R_TRUTH = "a truth test: the documented matrix makes it fail under Strict only"
R_FORWARDED = "forwarded unchanged to the test / filter named in the call, which decides (select / reject / selectattr / rejectattr / map)"
R_STORED = "stored as a value, not used (dict / namespace build a container)"
TOLERATED = {
    "filter:default": {"0": (R_DOCUMENTED + " (its purpose)", _BOTH), "1": (R_OPTIONAL, _BOTH), "2": (R_TRUTH, ("semistrict",))},
    "filter:d": {"0": (R_DOCUMENTED + " (alias of default)", _BOTH), "1": (R_OPTIONAL, _BOTH), "2": (R_TRUTH, ("semistrict",))},
    "filter:bool": {"0": (R_TRUTH + " (filters.rs: 'behaves the same as the if statement')", ("semistrict",))},
    "filter:tojson": {"0": (R_DOCUMENTED + ": serialised like none (null)", _BOTH), "1": (R_OPTIONAL, _BOTH)},
    "filter:pprint": {"0": (R_DOCUMENTED + ": debug representation of any value", _BOTH)},
    "filter:urlencode": {"0": (R_DOCUMENTED + " (filters.rs: 'If the value is none or undefined, an empty string is returned')", _BOTH)},
    "filter:batch": {"2": (R_OPTIONAL, _BOTH)}, "filter:slice": {"2": (R_OPTIONAL, _BOTH)}, "filter:indent": {"1": (R_OPTIONAL, _BOTH), "2": (R_OPTIONAL, _BOTH), "3": (R_OPTIONAL, _BOTH)},
    "filter:join": {"1": (R_OPTIONAL, _BOTH)}, "filter:round": {"1": (R_OPTIONAL, _BOTH)}, "filter:split": {"1": (R_OPTIONAL, _BOTH), "2": (R_OPTIONAL, _BOTH)},
    "filter:trim": {"1": (R_OPTIONAL, _BOTH)},
    "filter:select": {"1": (R_OPTIONAL, _BOTH), "2": (R_FORWARDED, _BOTH)}, "filter:reject": {"1": (R_OPTIONAL, _BOTH), "2": (R_FORWARDED, _BOTH)},
    "filter:selectattr": {"2": (R_OPTIONAL, _BOTH), "3": (R_FORWARDED, _BOTH)}, "filter:rejectattr": {"2": (R_OPTIONAL, _BOTH), "3": (R_FORWARDED, _BOTH)},
    "filter:map": {"2": (R_FORWARDED, _BOTH)},
    "test:defined": {"0": (R_DOCUMENTED + " (its purpose)", _BOTH)}, "test:undefined": {"0": (R_DOCUMENTED + " (its purpose)", _BOTH)}, "test:none": {"0": (R_VALUE_TEST, _BOTH)},
    "function:debug": {"*": (R_DOCUMENTED + ": debug representation of any value", _BOTH)},
    "function:dict": {"*": (R_STORED, _BOTH)}, "function:namespace": {"*": (R_STORED, _BOTH)},
    "function:range": {"2": (R_OPTIONAL, _BOTH), "3": (R_OPTIONAL, _BOTH)}, "function:joiner": {"1": (R_OPTIONAL, _BOTH)},
}
for _t in ["boolean", "divisibleby", "escaped", "safe", "even", "odd", "false", "true", "float", "int", "integer", "iterable", "mapping", "number",
           "sequence", "string", "sameas", "eq", "equalto", "==", "ne", "!=", "lt", "lessthan", "<", "le", "<=", "gt", "greaterthan", ">", "ge", ">="]:
    TOLERATED["test:" + _t] = {"*": (R_VALUE_TEST, _BOTH)}
TOLERATED["test:in"] = {"0": (R_VALUE_TEST + " (the searched item; the container in position 1 is iterated and must fail)", _BOTH)}


def tolerated(kind, name, pos):
    """modes among strict / semistrict in which an undefined in this cell may get through, with the reason"""
    if pos.startswith("kw:"):
        return (R_KWARG, _BOTH)
    cell = TOLERATED.get("%s:%s" % (kind, name), {})
    return cell.get(pos) or cell.get("*") or (None, ())


def builtin_must_fail(kind, name, pos, print_row, for_row=None):
    """modes in which the call gets through although the cell is not allowed to (a lazy result may defer the failure
    to the moment it is consumed: then the `for` position must fail with UndefinedError)"""
    allowed = tolerated(kind, name, pos)[1]
    bad = []
    for i in (0, 1):
        if MODES[i] in allowed or print_row[i][0] == "err":
            continue
        if for_row is not None and for_row[i] == ("err", 13):
            continue
        bad.append(MODES[i])
    return bad


def names_from_defaults_rs(repo):
    """names registered by build_builtin_filters / build_builtin_tests / build_globals of defaults.rs; raises when the
    parse looks implausible (a sweep over the wrong names tests nothing)"""
    src = open(os.path.join(repo, "minijinja/src/defaults.rs")).read()
    out = {}
    for key, fns in (("filters", ("build_builtin_filters", "get_builtin_filters")), ("tests", ("build_builtin_tests", "get_builtin_tests")),
                     ("globals", ("build_globals", "get_globals"))):
        names = []
        for fn in fns:
            m = re.search(r"fn\s+%s\s*\(" % fn, src)
            if not m:
                continue
            b = src.find("{", m.end())
            depth, e = 0, b
            while e < len(src):
                if src[e] == "{":
                    depth += 1
                elif src[e] == "}":
                    depth -= 1
                    if depth == 0:
                        break
                e += 1
            names = sorted(set(re.findall(r'rv\.insert\(\s*"([^"]+)"', src[b:e])))
            if names:
                break
        out[key] = names
    if len(out["filters"]) < 30 or len(out["tests"]) < 25 or len(out["globals"]) < 3 or "upper" not in out["filters"] or "startingwith" not in out["tests"] or "range" not in out["globals"]:
        raise RuntimeError("cannot read the built-in names from defaults.rs: %d filters, %d tests, %d functions" % (len(out["filters"]), len(out["tests"]), len(out["globals"])))
    return out


def call_src(kind, name, recv, args, kwargs):
    a = list(args) + ["%s=%s" % (k, v) for k, v in kwargs.items()]
    if kind == "filter":
        return "%s|%s%s" % (recv, name, ("(" + ", ".join(a) + ")") if a else "")
    if kind == "test":
        return "%s is %s%s" % (recv, name, ("(" + ", ".join(a) + ")") if a else "")
    return "%s(%s)" % (name, ", ".join(a))


def sweep_cases(names):
    """[(site id, kind, name, argument position, expression)] - one operand replaced at a time"""
    out = []
    def variants(kind, name, recv, args, kwargs, ci):
        slots = ([("0", None)] if recv is not None else []) + [(str(i + 1), i) for i in range(len(args))] + [("kw:" + k, k) for k in kwargs]
        for un, ue in SWEEP_UNDEFS:
            for sn, sl in slots:
                r, a, kw = recv, list(args), dict(kwargs)
                if sl is None:
                    r = ue if kind != "filter" or ue == "u" else "(" + ue + ")"
                elif isinstance(sl, int):
                    a[sl] = ue
                else:
                    kw[sl] = ue
                yield "%s:%s:%s:%s#%d" % (kind, name, sn, un, ci), sn, call_src(kind, name, r, a, kw)
    unlisted = []
    for f in names["filters"]:
        calls = FILTER_CALLS.get(f)
        if calls is None:
            unlisted.append("filter " + f)
            calls = [("x", [], {})]
        for ci, (recv, args, kw) in enumerate(calls):
            for sid, pos, e in variants("filter", f, recv, args, kw, ci):
                out.append((sid, "filter", f, pos, e))
    for t in names["tests"]:
        if t in CMP_TESTS:
            # operator-named tests are reachable through select / reject only
            for un, ue in SWEEP_UNDEFS:
                out.append(("test:%s:0:%s" % (t, un), "test", t, "0", "[%s, 1]|select(%r, 1)|list" % (ue, t)))
                out.append(("test:%s:1:%s" % (t, un), "test", t, "1", "x|select(%r, %s)|list" % (t, ue)))
            if not t.isalpha():
                continue
            calls = [("1", ["2"])]
        else:
            calls = TEST_CALLS.get(t)
        if calls is None:
            unlisted.append("test " + t)
            calls = [("x", [])]
        for ci, (recv, args) in enumerate(calls):
            for sid, pos, e in variants("test", t, recv, args, {}, ci):
                out.append((sid, "test", t, pos, e))
    for g in sorted(set(names["globals"]) | set(FUNC_CALLS)):
        calls = FUNC_CALLS.get(g)
        if calls is None:
            unlisted.append("function " + g)
            calls = [(["x"], {})]
        for ci, (args, kw) in enumerate(calls):
            for sid, pos, e in variants("function", g, None, args, kw, ci):
                out.append((sid, "function", g, pos, e))
            if not args and not kw:
                for un, ue in SWEEP_UNDEFS:
                    out.append(("function:%s:1:%s#%d" % (g, un, ci), "function", g, "1", "%s(%s)" % (g, ue)))
    return out, unlisted


# ----------------------------------------------------------------------------------------------
def main():
    chk = Check("C12", "proof")
    chk.cov["trusted_base"] = TRUSTED_COMMON + [
        "Print Assumptions of the C12 theorems: see coverage.theorems",
        "the theorems are about the reference interpreter Lang/Interp.v (core fragment, 12 filters, 5 tests, range); the engine is tied to it by the differential run (i) and checked directly - without any model - by (ii) and (iii)",
        "tools/langenc.py + Lang/Codec.v (AST encoding), tools/proggen.py (generator / source printer) and the probe / sweep tables of this file are unverified glue"]
    chk.assumptions = [
        "run_monotone is proved for the fragment Lang/Interp.v models; for the remaining built-ins (every filter, test and global function of Environment::new(), each argument position) the relation is checked on the implementation by the sweep, not proved",
        "the matrix is read as a statement about the language's own sites (print statement, for loop, if / elif / not / and / or / conditional expression / loop filter / |bool, attribute - subscript - slice - |attr access, is defined / is undefined / default) in every syntactic position, plus the filters documented as iterating their operand; string coercion inside filters (documented separately in utils.rs) is reported in coverage.string_coercion_table but is not part of the property's matrix"]
    okm, blog = build_models("C12")
    proofs_ok = chk.run_proofs()
    okc, clog = cargo_build(["prog", "c12"], release=False)
    okr, clog2 = cargo_build(["prog"], release=True)
    if not (okc and okr):
        chk.violation("harness does not build against the current tree", {"theorem_or_correspondence": "build harness/src/bin/prog.rs, c12.rs", "log": (clog + clog2)[-1500:]}, True)
        chk.finish()
    if not okm:
        chk.violation("model build failed", {"theorem_or_correspondence": "coq/theories/C12 build", "log": blog[-1500:]}, True)
        chk.finish()
    hist = collections.Counter()
    nontriv = set()
    evaluations = 0
    phase = {}
    def tick(name, _t=[chk.t0]):
        now = time.time()
        phase[name] = round(now - _t[0], 1)
        _t[0] = now
    tick("build+proofs")

    def known_site(site, row):
        """a known finding is its exact site AND its exact outcome pattern (k = renders, e = fails)"""
        base = site.split("#")[0]
        pat = "".join("k" if o[0] == "ok" else "e" for o in row)
        return chk.match_known(lambda k: base in k["match"]["sites"] and k["match"]["pattern"] == pat)

    reported = collections.Counter()

    def report_mono(src, ctx, rel, extra, cap=4, fmt=False):
        """re-renders in a fresh process (a loaded machine must never produce a false alarm) and reports"""
        if reported["mono"] >= cap:
            return
        row = render4([(src, ctx)], release=rel, fmt=fmt)[0]
        mv = mono_violation(row)
        if not mv:
            hist["unreproducible"] += 1
            return
        reported["mono"] += 1
        rp = {"template": src, "context": ctx, "profile": "release" if rel else "debug", "formatter": "custom" if fmt else "default", "outcomes": row_show(row)}
        rp.update(extra)
        chk.violation("success under %s is not the identical success under %s" % (MODES[mv[0]], MODES[mv[1]]), rp)

    # ------------------------------------------------------------------------------------------
    # replay: one template (optionally with its probe description) through (ii) and (iii)
    # ------------------------------------------------------------------------------------------
    if chk.replay:
        rp = json.load(open(chk.replay))["replay"]
        if "template" in rp:
            ctx = rp.get("context", CTX)
            fmt = rp.get("formatter") == "custom"
            for rel in ((False,) if fmt else (False, True)):
                row = render4([(rp["template"], ctx)], release=rel, fmt=fmt)[0]
                evaluations += 4
                mv = mono_violation(row)
                if mv:
                    chk.violation("success under %s is not the identical success under %s" % (MODES[mv[0]], MODES[mv[1]]),
                                  {"template": rp["template"], "context": ctx, "profile": "release" if rel else "debug", "outcomes": row_show(row)})
                if "probe" in rp:
                    site, cls, tmpl, operand = rp["probe"]
                    rt, rm = reference_template(site, cls, tmpl, operand)
                    ref = render4([(rt, ctx)], release=rel, fmt=fmt)[0][rm] if rt else None
                    dev = judge_probe(site, cls, row, ref)
                    k = known_site(site, row) if dev else None
                    if k:
                        chk.known_finding(k["id"], k["what"])
                    if dev and not k:
                        chk.violation("matrix: " + "; ".join(dev), {"template": rp["template"], "context": ctx, "probe": rp["probe"], "outcomes": row_show(row)})
                if "like" in rp:
                    ref = render4([(rp["like"], ctx)], release=rel, fmt=fmt)[0]
                    if row != ref:
                        chk.violation("source of undefined does not behave like a missing variable",
                                      {"template": rp["template"], "like": rp["like"], "context": ctx, "site": rp.get("site"), "outcomes": row_show(row), "outcomes_of_missing_variable": row_show(ref)})
                if str(rp.get("site", "")).startswith("builtin:"):
                    _, bk, bn, bp = rp["site"].split(":", 3)
                    badm = builtin_must_fail(bk, bn, bp, row)
                    k = known_site(rp["site"], row) if badm else None
                    if k:
                        chk.known_finding(k["id"], k["what"])
                    if badm and not k:
                        chk.violation("built-in %s %s, argument position %s: an undefined operand does not make the call fail under %s" % (bk, bn, bp, " and ".join(badm)),
                                      {"template": rp["template"], "context": ctx, "outcomes": row_show(row), "site": rp["site"]})
                if str(rp.get("site", "")).startswith("iterate:filter:"):
                    badm = [MODES[i] for i in (0, 1) if row[i][0] != "err"]
                    k = known_site(rp["site"], row) if badm else None
                    if k:
                        chk.known_finding(k["id"], k["what"])
                    if badm and not k:
                        chk.violation("matrix, iterate site %s: iterating an undefined does not fail under %s" % (rp["site"], " and ".join(badm)),
                                      {"template": rp["template"], "context": ctx, "outcomes": row_show(row), "site": rp["site"]})
                if "ast" in rp:
                    body = eval(rp["ast"])
                    model = run_model("C12", "c12", [langenc.request(body, ctx, mode=m)[0] for m in MODES])
                    for j in range(4):
                        if expect_model(row[j]) != model[j]:
                            chk.violation("engine differs from the reference interpreter under " + MODES[j],
                                          {"theorem_or_correspondence": "Lang/Interp.v vs engine", "template": rp["template"], "context": ctx, "ast": rp["ast"],
                                           "engine": show(row[j]), "model": model[j][:40]}, True)
        chk.cov.update({"evaluations": evaluations, "distinct_nontrivial": 0, "rule": "replay of one recorded input", "samples": [rp.get("template", "")]})
        if not proofs_ok:
            chk.violation("proof obligations of C12 do not check", {"theorem_or_correspondence": chk.proof["problems"]}, True)
        chk.finish()

    # ------------------------------------------------------------------------------------------
    # (iii) matrix probes
    # ------------------------------------------------------------------------------------------
    probes = matrix_probes()
    items = [(subst(t, op), CTX) for _, _, t, op in probes]
    refs = [reference_template(s, c, t, op) for s, c, t, op in probes]
    ref_map = {key_of(rt): rt for rt, _ in refs if rt}
    ref_keys = sorted(ref_map)
    deviations = []       # (site, class, template, row, devs)
    matrix_table = {}
    all_probes, all_items, all_refs = probes, items, refs
    for rel, fmt in ((False, False), (True, False), (False, True)):
        if (rel or fmt) and not chk.thorough:
            # quick tier: the site x consumer product runs on the debug build with the default formatter only
            sel = [i for i, pr in enumerate(all_probes) if not pr[0].startswith("px:")]
        else:
            sel = list(range(len(all_probes)))
        probes, items, refs = [all_probes[i] for i in sel], [all_items[i] for i in sel], [all_refs[i] for i in sel]
        ref_keys = sorted(set(key_of(rt) for rt, _ in refs if rt))
        rows = render4(items, release=rel, fmt=fmt)
        ref_rows = dict(zip(ref_keys, render4([(ref_map[k], CTX) for k in ref_keys], release=rel, fmt=fmt)))
        evaluations += 4 * (len(items) + len(ref_keys))
        for (site, cls, tmpl, op), (src, _), row, (rt, rm) in zip(probes, items, rows, refs):
            ref = ref_rows[key_of(rt)][rm] if rt else None
            dev = judge_probe(site, cls, row, ref)
            mv = mono_violation(row)
            if not rel and not fmt:
                hist["probe_" + ("multi_template_" if site.startswith("mt:") else "product_" if site.startswith("px:") else "") + cls] += 1
                matrix_table[site] = row_show(row)
                if len(set(o[0] for o in row)) > 1:
                    nontriv.add(key_of(src))
            if fmt:
                hist["probe_custom_formatter"] += 1
            if mv:
                report_mono(src, CTX, rel, {"probe": [site, cls, tmpl, op]}, fmt=fmt)
            if dev:
                deviations.append((site, cls, tmpl, op, src, row, dev, rel, fmt))
    probes, items, refs = all_probes, all_items, all_refs
    seen_dev = set()
    for site, cls, tmpl, op, src, row, dev, rel, fmt in deviations:
        k = known_site(site, row)
        if k:
            chk.known_finding(k["id"], k["what"])
            hist["probe_known_" + k["id"]] += 0 if (rel or fmt) else 1
            continue
        if site in seen_dev or len(seen_dev) >= 8:
            continue
        seen_dev.add(site)
        rt, rm = reference_template(site, cls, tmpl, op)
        row = render4([(src, CTX)], release=rel, fmt=fmt)[0]
        dev = judge_probe(site, cls, row, render4([(rt, CTX)], release=rel, fmt=fmt)[0][rm] if rt else None)
        if not dev:
            hist["unreproducible"] += 1
            continue
        chk.violation("matrix, %s site %s%s: %s" % (cls, site, " (custom formatter installed)" if fmt else "", "; ".join(dev)),
                      {"template": src, "context": CTX, "probe": [site, cls, tmpl, op], "profile": "release" if rel else "debug",
                       "formatter": "custom" if fmt else "default", "outcomes": row_show(row)})
    tick("matrix probes")
    # the core probes against the interpreter and the documented table
    core_cases = [[s, MODE_CODE[m]] for s in range(len(CORE)) for m in MODES]
    model_m = run_model("C12", "c12-matrix", core_cases)
    doc_m = run_model("C12", "c12-doc", core_cases)
    kern_m = kernel_eval("C12.Runner.matrix", core_cases, "k_C12_matrix", imports="Common.Base C12.Runner")
    core_rows = render4([(t.replace("@", op), {}) for _, _, t, op in CORE])
    evaluations += 4 * len(CORE)
    core_bad = []
    for s in range(len(CORE)):
        for j, m in enumerate(MODES):
            e = expect_model(core_rows[s][j])
            mm, dd = model_m[4 * s + j], doc_m[4 * s + j]
            if not (e == mm == dd):
                core_bad.append({"site": CORE[s][0], "mode": m, "template": CORE[s][2].replace("@", CORE[s][3]), "engine": e, "interpreter": mm, "documented": dd})
    for b in core_bad[:4]:
        if b["engine"] != b["documented"]:
            chk.violation("matrix: engine departs from the documented cell at %s under %s" % (b["site"], b["mode"]),
                          {"template": b["template"], "context": {}, "probe": list(CORE[[c[0] for c in CORE].index(b["site"])]), "cell": b})
        else:
            chk.violation("matrix: the interpreter departs from engine and documentation at %s under %s" % (b["site"], b["mode"]),
                          {"theorem_or_correspondence": "C12.Runner.matrix vs engine", "cell": b}, True)
    kern_matrix_ok = kern_m is not None and kern_m == model_m
    chk.cov["matrix_core"] = {"cells": 4 * len(CORE), "engine_interpreter_documentation_agree": 4 * len(CORE) - len(core_bad), "kernel_agrees_with_extraction": kern_matrix_ok}

    # sources of undefined: every engine-produced undefined behaves like a missing variable at every site
    sp = source_probes()
    like_map = {key_of(u): u for _, _, u in sp}
    like_keys = sorted(like_map)
    n_src_viol = 0
    src_seen = collections.Counter()
    for rel in ((False, True) if chk.thorough else (False,)):
        rows = render4([(t, CTX) for _, t, _ in sp], release=rel)
        like_rows = dict(zip(like_keys, render4([(like_map[k], CTX) for k in like_keys], release=rel)))
        evaluations += 4 * (len(sp) + len(like_keys))
        for (site, t, u), row in zip(sp, rows):
            ref = like_rows[key_of(u)]
            if not rel:
                hist["probe_source_of_undefined"] += 1
                if len(set(o[0] for o in row)) > 1:
                    nontriv.add(key_of(t))
            if any(o[0] == "skip" for o in row + ref):
                hist["probe_source_syntax_error"] += 1
                continue
            if row != ref and n_src_viol < 12 and src_seen[site.split(":")[1]] < 2:
                row2, ref2 = render4([(t, CTX)], release=rel)[0], render4([(u, CTX)], release=rel)[0]
                if row2 == ref2:
                    hist["unreproducible"] += 1
                    continue
                n_src_viol += 1
                src_seen[site.split(":")[1]] += 1
                diff = [m for m, a, b in zip(MODES, row2, ref2) if a != b]
                chk.violation("source of undefined %s at site %s does not behave like a missing variable under %s" % (site.split(":")[1], site.split(":")[2], ", ".join(diff)),
                              {"template": t, "like": u, "context": CTX, "profile": "release" if rel else "debug", "site": site,
                               "outcomes": row_show(row2), "outcomes_of_missing_variable": row_show(ref2)})
    chk.cov["sources_of_undefined"] = {"sources": len(UNDEF_SOURCES), "sites": len(SOURCE_SITES), "cells": len(sp)}
    tick("sources of undefined")
    tick("matrix core + kernel")
    # ------------------------------------------------------------------------------------------
    # (ii) sweep of the built-ins
    # ------------------------------------------------------------------------------------------
    rc, o, e = sh([bin_path("c12")])
    try:
        names = json.loads(o)
    except Exception:
        names = None
    if not names or not names.get("filters") or not names.get("tests"):
        chk.violation("cannot enumerate the built-ins of Environment::new()", {"theorem_or_correspondence": "harness/src/bin/c12.rs", "stderr": e[-500:]}, True)
        chk.finish()
    try:
        src_names = names_from_defaults_rs(REPO)
    except Exception as ex:
        chk.violation("cannot read the built-in names from defaults.rs", {"theorem_or_correspondence": "minijinja/src/defaults.rs build_builtin_filters / build_builtin_tests / build_globals", "error": str(ex)}, True)
        chk.finish()
    missing_at_runtime = {k: sorted(set(src_names[k]) - set(names[k])) for k in src_names}
    if any(missing_at_runtime.values()):
        chk.violation("built-ins registered in defaults.rs are absent from Environment::new() of the harness", {"theorem_or_correspondence": "defaults.rs vs harness/src/bin/c12.rs", "missing": missing_at_runtime}, True)
        chk.finish()
    sweep, unlisted = sweep_cases(names)
    s_items, s_meta = [], []
    for sid, kind, name, pos, expr in sweep:
        for pn, pt in POSITIONS:
            s_items.append((pt.replace("@", expr), CTX))
            s_meta.append((sid, kind, name, pos, pn, expr))
    profiles = (False, True) if chk.thorough else (False,)
    iter_dev = {}
    iter_seen = {}
    cell_seen = {}
    coercion = {}
    for rel in profiles:
        rows = render4(s_items, release=rel)
        evaluations += 4 * len(s_items)
        for (src, _), meta, row in zip(s_items, s_meta, rows):
            sid, kind, name, pos, pn, expr = meta
            mv = mono_violation(row)
            if mv:
                report_mono(src, CTX, rel, {"site": sid}, cap=8)
            if rel:
                continue
            hist["sweep_" + kind] += 1
            if len(set(o[0] for o in row)) > 1:
                nontriv.add(src)
            if any(o[0] == "crash" for o in row):
                hist["sweep_crash"] += 1
            # iterating an undefined operand must fail under strict and semistrict
            # (judged on the print position; a lazy result may defer the failure to the moment it is consumed by `for`)
            if kind == "filter" and pos.isdigit() and int(pos) in ITERATING.get(name, []) and sid.split(":")[3].split("#")[0] == "u" and pn in ("print", "for"):
                iter_seen.setdefault(("iterate:filter:%s:%s" % (name, pos), sid), {})[pn] = (src, row)
            un = sid.rsplit("#", 1)[0].rsplit(":", 1)[1]
            if un in ("u", "missing-attr") and pn in ("print", "for"):
                cell_seen.setdefault((kind, name, pos, sid), {})[pn] = (src, row)
            if kind == "filter" and pos == "0" and pn == "print" and sid.split(":")[3].startswith("u") and sid.endswith("#0"):
                coercion[name] = row_show(row)
    for (key, sid), d in iter_seen.items():
        if "print" in d and "for" in d:
            bad = [MODES[i] for i in (0, 1) if d["print"][1][i][0] != "err" and d["for"][1][i] != ("err", 13)]
            if bad:
                iter_dev.setdefault(key, (d["print"][0], d["print"][1], bad))
    for site, (src, row, bad) in sorted(iter_dev.items()):
        k = known_site(site, row)
        if k:
            chk.known_finding(k["id"], k["what"])
            hist["sweep_known_" + k["id"]] += 1
        else:
            chk.violation("matrix, iterate site %s: iterating an undefined does not fail under %s" % (site, " and ".join(bad)),
                          {"template": src, "context": CTX, "outcomes": row_show(row), "site": site})
    # every (built-in, position) cell: an undefined must make the call fail under strict and semistrict unless TOLERATED
    cell_dev, cells, cells_tolerated = {}, set(), set()
    for (kind, name, pos, sid), d in cell_seen.items():
        if "print" not in d:
            continue
        cells.add((kind, name, pos))
        if tolerated(kind, name, pos)[1]:
            cells_tolerated.add((kind, name, pos))
        bad = builtin_must_fail(kind, name, pos, d["print"][1], d["for"][1] if "for" in d else None)
        if bad:
            cell_dev.setdefault("builtin:%s:%s:%s" % (kind, name, pos), (d["print"][0], d["print"][1], bad))
    n_cell_viol = 0
    for site, (src, row, bad) in sorted(cell_dev.items()):
        k = known_site(site, row)
        if k:
            chk.known_finding(k["id"], k["what"])
            hist["sweep_known_" + k["id"]] += 1
            continue
        if n_cell_viol >= 8:
            continue
        row2 = render4([(src, CTX)])[0]
        _, kind, name, pos = site.split(":", 3)
        bad2 = builtin_must_fail(kind, name, pos, row2)
        if not bad2:
            hist["unreproducible"] += 1
            continue
        n_cell_viol += 1
        chk.violation("built-in %s %s, argument position %s: an undefined operand does not make the call fail under %s (the cell is not in the table of tolerated positions)" % (kind, name, pos, " and ".join(bad2)),
                      {"template": src, "context": CTX, "outcomes": row_show(row2), "site": site})
    chk.cov["builtin_cells"] = {"cells (built-in x argument position)": len(cells), "tolerated_by_table": len(cells_tolerated), "must_fail": len(cells) - len(cells_tolerated),
                                "known_gaps": sorted(s for s in cell_dev if known_site(s, cell_dev[s][1])),
                                "tolerated_table": {"%s:%s:%s" % c: tolerated(*c)[0][:60] + " [" + ",".join(tolerated(*c)[1]) + "]" for c in sorted(cells_tolerated)}}
    ops = operator_cases()
    o_items = []
    for oid, e, is_expr in ops:
        if is_expr:
            for pn, pt in POSITIONS:
                o_items.append((pt.replace("@", e), CTX))
        else:
            o_items.append((e, CTX))
    for rel in profiles:
        rows = render4(o_items, release=rel)
        evaluations += 4 * len(o_items)
        for (src, _), row in zip(o_items, rows):
            if any(o[0] == "skip" for o in row):
                hist["sweep_operator_syntax_error"] += 0 if rel else 1
                continue
            mv = mono_violation(row)
            if mv:
                report_mono(src, CTX, rel, {"site": "operator/tag sweep"}, cap=12)
            if not rel:
                hist["sweep_operator_or_tag"] += 1
                if len(set(o[0] for o in row)) > 1:
                    nontriv.add(src)
    # every built-in with an undefined operand, printed in the multi-template positions (order of the modes)
    m_items = []
    mt_sc = MT_SWEEP_SCAFFOLDS if chk.thorough else MT_SWEEP_SCAFFOLDS[:3]
    for sid, kind, name, pos, expr in sweep:
        if sid.split(":")[3].split("#")[0] == "u":
            for sn in mt_sc:
                m_items.append((subst(MT_SCAFFOLDS[sn], "{{ %s }}" % expr), CTX))
    for e in OP_EXPRS:
        for sn in mt_sc:
            m_items.append((subst(MT_SCAFFOLDS[sn], "{{ %s }}" % e.replace("@", "u")), CTX))
    for rel in profiles:
        rows = render4(m_items, release=rel)
        evaluations += 4 * len(m_items)
        for (src, _), row in zip(m_items, rows):
            if any(o[0] == "skip" for o in row):
                hist["sweep_multi_template_syntax_error"] += 0 if rel else 1
                continue
            mv = mono_violation(row)
            if mv:
                report_mono(src, CTX, rel, {"site": "multi-template sweep"}, cap=12)
            if not rel:
                hist["sweep_multi_template"] += 1
                if len(set(o[0] for o in row)) > 1:
                    nontriv.add(key_of(src))
    chk.cov["string_coercion_table"] = coercion
    chk.cov["builtins_swept"] = {"filters": len(names["filters"]), "tests": len(names["tests"]), "functions": len(set(names["globals"]) | set(FUNC_CALLS)),
                                 "without_call_table_entry": unlisted, "templates": len(s_items)}

    tick("sweep")
    # ------------------------------------------------------------------------------------------
    # (i) + (ii) generated programs
    # ------------------------------------------------------------------------------------------
    n = 80000 if chk.thorough else 1200
    progs = []
    for j in range(n):
        g = proggen.Gen(chk.rng, {"autoescape": False, "undefined": 15}, max_depth=2 + chk.rng.below(3))
        ctx, kinds = proggen.default_context(chk.rng)
        body = g.template(kinds)
        if j % 4:
            body = inject_body(body, chk.rng, 2 + chk.rng.below(5))
        progs.append((body, ctx))
    g_items = [(proggen.body_src(b), c) for b, c in progs]
    bad = []
    mono_bad = []
    sizes = collections.Counter()
    small_cases = []
    BATCH = 4000
    for b0 in range(0, len(progs), BATCH):
        pb, gb = progs[b0:b0 + BATCH], g_items[b0:b0 + BATCH]
        cases = [langenc.request(b, c, mode=m)[0] for b, c in pb for m in MODES]
        model = run_model("C12", "c12", cases)
        if b0 == 0:
            idx = sorted(range(len(cases)), key=lambda i: len(cases[i]))[:16]
            small_cases = [(cases[i], model[i]) for i in idx]
        for rel in (False, True):
            rows = render4(gb, release=rel)
            evaluations += 4 * len(gb)
            for i0, row in enumerate(rows):
                i = b0 + i0
                if any(o[0] == "skip" for o in row):
                    hist["gen_does_not_load"] += 0 if rel else 1
                    continue
                for j in range(4):
                    if expect_model(row[j]) != model[4 * i0 + j]:
                        bad.append((i, j, rel, row[j], model[4 * i0 + j]))
                mv = mono_violation(row)
                if mv:
                    mono_bad.append((i, rel, mv, row))
                if not rel:
                    pat = "".join("k" if o[0] == "ok" else ("u" if o == ("err", 13) else "e") for o in row)
                    hist["gen_" + pat] += 1
                    sizes["nodes_%d" % (10 * (min(count_nodes(progs[i][0]), 99) // 10))] += 1
                    if len(set(row)) > 1 and count_nodes(progs[i][0]) >= 3:
                        nontriv.add(g_items[i][0] + json.dumps(g_items[i][1], sort_keys=True))
    tick("generated programs")
    # the relation on the implementation
    seen = set()
    for i, rel, mv, row in mono_bad[:20]:
        if len(seen) >= 3:
            break
        body, ctx = progs[i]
        def still(b):
            r = render4([(proggen.body_src(b), ctx)], release=rel)[0]
            return mono_violation(r) is not None
        small = proggen.shrink(body, still, budget=120)
        src = proggen.body_src(small)
        if src in seen:
            continue
        seen.add(src)
        report_mono(src, ctx, rel, {"ast": repr(small)}, cap=12)
    # engine vs interpreter: a disagreement alone is a correspondence failure (no failing input of the property)
    seen = set()
    for i, j, rel, eo, mo in bad[:40]:
        if len(seen) >= 3:
            break
        body, ctx = progs[i]
        def still(b):
            r = render4([(proggen.body_src(b), ctx)], release=rel)[0][j]
            mm = run_model("C12", "c12", [langenc.request(b, ctx, mode=MODES[j])[0]])[0]
            return expect_model(r) != mm and r[0] == eo[0] and mm[:1] == mo[:1]
        small = proggen.shrink(body, still, budget=120)
        src = proggen.body_src(small)
        if src in seen:
            continue
        seen.add(src)
        r = render4([(src, ctx)], release=rel)[0]
        mm = run_model("C12", "c12", [langenc.request(small, ctx, mode=m)[0] for m in MODES])
        if all(expect_model(r[q]) == mm[q] for q in range(4)):
            hist["unreproducible"] += 1
            continue
        if mono_violation(r):
            report_mono(src, ctx, rel, {"ast": repr(small)}, cap=12)
            continue
        chk.violation("engine differs from the reference interpreter under %s (the relation itself holds on this input)" % MODES[j],
                      {"theorem_or_correspondence": "Lang/Interp.v (run_monotone is proved about it) vs engine", "template": src, "context": ctx,
                       "profile": "release" if rel else "debug", "engine": row_show(r),
                       "interpreter": {m: ("".join(chr(c) for c in x[2:]) if x[:1] == [0] else x) for m, x in zip(MODES, mm)}, "ast": repr(small)}, True)
    tick("shrinking")
    # kernel cross-check of the extraction on small programs, all four modes
    kern = kernel_eval("C03.Runner.run", [c for c, _ in small_cases], "k_C12", imports="Common.Base C03.Runner")
    kern_ok = kern is not None and len(kern) == len(small_cases) and all(kern[k] == small_cases[k][1] for k in range(len(small_cases)))

    # ------------------------------------------------------------------------------------------
    tick("kernel cross-check")
    chk.cov["phase_seconds"] = phase
    ok_frac = {m: sum(v for k, v in hist.items() if k.startswith("gen_") and len(k) == 8 and k[4 + i] == "k") / max(1, len(progs)) for i, m in enumerate(MODES)}
    chk.cov["evaluations"] = evaluations
    chk.cov["distinct_nontrivial"] = len(nontriv)
    chk.cov["rule"] = ("one evaluation = one render of one template under one mode by the engine. Cases: (a) typed random core-fragment programs (depth 2-4) with undefined forms at random expression positions x random contexts, x 4 modes, debug + release, each also run by the extracted interpreter; "
                       "(b) matrix probes: print / iterate / truth-test / access / never-fail sites x syntactic positions x 4 kinds of undefined, and the same sites in %d multi-template positions (top level of an extending child before / after extends / between blocks, overriding blocks, super(), self.block(), parent top level, include, import / from-import module top level and macros, call blocks, set blocks), x 4 modes, debug + release + custom formatter; " % len(MT_SCAFFOLDS) +
                       "(c) every filter / test / function of Environment::new() x argument position x 3 kinds of undefined x 5 positions (print, if, for, set, guarded), x 4 modes, plus the operator / tag sweep and all of them printed in 5 multi-template positions. "
                       "non-trivial = distinct (template, context) on which the four modes do NOT all behave alike (some mode fails where another succeeds, or outputs differ) - the cases on which the order of the modes is actually exercised; generated programs additionally need >= 3 statement nodes")
    chk.cov["samples"] = [g_items[0][0], g_items[len(g_items) // 2][0], s_items[len(s_items) // 3][0], items[100][0], items[-40][0]]
    chk.cov["distribution"] = {"outcome_patterns (strict,semistrict,lenient,chainable: k=ok u=UndefinedError e=other error)": {k: v for k, v in hist.items() if k.startswith("gen_")},
                               "probes_and_sweep": {k: v for k, v in hist.items() if not k.startswith("gen_")}, "program_sizes": dict(sizes), "ok_fraction_by_mode": {k: round(v, 3) for k, v in ok_frac.items()}}
    chk.cov["programs"] = len(progs)
    chk.cov["engine_vs_interpreter_disagreements"] = len(bad)
    chk.cov["monotonicity_violations_generated"] = len(mono_bad)
    chk.cov["matrix_probe_table"] = {k: matrix_table[k] for k in sorted(matrix_table) if k.startswith("core:") or k.startswith("access:") or k.startswith("print:top") or k.startswith("print:list") or k.startswith("print:map") or k.startswith("print:join") or k.startswith("iterate:for:") or k.startswith("truth:if:") or (k.startswith("mt:") and k.endswith(":print"))}
    chk.cov["matrix_probes"] = len(probes)
    chk.cov["kernel_crosscheck"] = {"cases": len(small_cases) + 4 * len(CORE), "agree": bool(kern_ok and kern_matrix_ok)}
    if not chk.violations:
        if ok_frac["lenient"] < 0.35 or ok_frac["strict"] < 0.1:
            chk.violation("generator degenerated: too few programs render", {"theorem_or_correspondence": "tools/proggen.py + injector distribution", "ok_fraction": ok_frac}, True)
        if not (kern_ok and kern_matrix_ok):
            chk.violation("kernel evaluation disagrees with the extracted interpreter", {"theorem_or_correspondence": "vm_compute cross-check of extraction"}, True)
        if not proofs_ok:
            chk.violation("proof obligations of C12 do not check", {"theorem_or_correspondence": chk.proof["problems"]}, True)
    chk.finish()


if __name__ == "__main__":
    main()
