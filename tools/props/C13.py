#!/usr/bin/env python3
"""C13 - fuel gives every render a fixed, exact success threshold (DESIGN.md §3 C13)."""
import os, sys, collections, concurrent.futures
sys.path.insert(0, os.path.dirname(os.path.dirname(os.path.abspath(__file__))))
from vlib import *
import fuel_table

BIG = 2**40
EXTREMES = [2**31, 2**32, 2**62, 2**63 - 1, 2**63, 2**63 + 1, 2**64 - 2, 2**64 - 1]
QUICK_PARAMS = [(0, 0, 0), (1, 1, 0), (3, 2, 1), (2, 3, 2), (5, 2, 3), (4, 4, 1), (6, 5, 2), (2, 0, 4), (0, 3, 1), (6, 1, 0), (3, 3, 3), (1, 5, 2), (2, 2, 2), (1, 3, 4)]
FAMILY = ["empty", "with only", "with+autoescape only", "raw text", "arithmetic", "for loop", "nested loops", "if/elif/else",
          "macro calls", "recursive macro", "call block", "include in loop", "include chain", "extends", "3-level super()",
          "import/from import", "set block + filter block", "break/continue/cycle", "recursive loop", "filters", "autoescape/with",
          "include lists/ignore missing", "macro>include>macro", "extends+scoped block+loop+include", "self.block()", "namespace",
          "tests/defined", "slices/literals", "dict items/for-else", "macro defaults/kwargs", "short-circuit", "dynamic extends+super loop",
          "error at end (undefined)", "error inside include",
          "super() as operand (position k%6, chain depth m%3+1)", "super() in three operand positions per level", "macro/self.block()/import in value position",
          "include and call block inside used captures", "host function/filter/test re-entering via macros", "custom formatter re-entering", "super() in value position + include + host callback",
          "debug() / printed loop, namespace, self, macro, State (output must not show the budget)", "block re-entering itself via self.x()",
          "parent definition re-enters the block via self.x() under super() (depth m%3+1)", "blocks a <-> b through self under super()", "re-entry under super() with inner work, includes, value-position super()",
          "fails without fuel: macro recursion beyond the recursion limit", "fails without fuel: self-including template beyond the recursion limit",
          "fails without fuel: with-nesting beyond the recursion limit", "fails without fuel: error kind k%7 behind m%4 levels of macro/include/block", "fails without fuel: strict undefined",
          "fails without fuel: engine size limit k%10 (range cap, string repetition, slice fill, format width, indent)", "nothing to evaluate: text only / comment-split / raw only"]
NPROC = 12


def prun(cmd, cases, timeout=3000):
    """run_lines over several processes (order preserved)."""
    if len(cases) < 400:
        return run_lines(cmd, cases, timeout=timeout)
    size = (len(cases) + NPROC - 1) // NPROC
    chunks = [cases[i:i + size] for i in range(0, len(cases), size)]
    with concurrent.futures.ThreadPoolExecutor(NPROC) as ex:
        outs = list(ex.map(lambda ch: run_lines(cmd, ch, timeout=timeout), chunks))
    return [o for ch in outs for o in ch]


def impl(cases, release):
    return prun([bin_path("c13", release)], cases)


def model(runner, cases):
    return prun([os.path.join(EXTRACT, "C13", "mjmodel"), runner], cases)


def instances(chk):
    rc = run_lines([bin_path("c13")], [[-1, 0, 0, 0]])
    nprogs = rc[0][0] if rc and rc[0] and isinstance(rc[0][0], int) else len(FAMILY)
    out = []
    for p in range(nprogs):
        if chk.thorough:
            params = set(QUICK_PARAMS)
            while len(params) < 150:
                params.add((chk.rng.below(10), chk.rng.below(8), chk.rng.below(6)))
            params = sorted(params)
        else:
            params = QUICK_PARAMS
        for (n, m, k) in params:
            out.append((p, n, m, k))
    return out, nprogs


def strip_top(o):
    """(output without the `-7 top` suffix, top kind or None)"""
    top = None
    if len(o) >= 2 and o[-2] == -7:
        o, top = o[:-2], o[-1]
    if len(o) >= 3 and o[-3] == -8:
        o = o[:-3]
    return o, top


def written_flags(o):
    """(eq, pre) of an error output: the output written before the error equals / is a prefix of the unlimited render's"""
    if len(o) >= 2 and o[-2] == -7:
        o = o[:-2]
    if len(o) >= 3 and o[-3] == -8:
        return o[-2], o[-1]
    return 1, 1


def parse_out(o):
    """-> dict(kind= ok|err|panic|crash, code (root cause), top, same, det, levels, probes)"""
    if not o or o[0] == "CRASH":
        return {"kind": "crash"}
    eq, pre = written_flags(o) if o and o[0] == 1 else (1, 1)
    o, top = strip_top(o)
    if o[0] == 2:
        return {"kind": "panic"}
    if o[0] == 0:
        np_, rest = o[5], o[6:]
        return {"kind": "ok", "same": o[1], "det": o[2], "levels": (o[3], o[4]), "probes": list(zip(rest[0::2], rest[1::2])), "np": np_}
    if o[0] == 1:
        np_, rest = o[3], o[4:]
        return {"kind": "err", "code": o[1], "top": o[1] if top is None else top, "eq": eq, "pre": pre, "det": o[2], "probes": list(zip(rest[0::2], rest[1::2])), "np": np_}
    return {"kind": "crash"}


def phase1(chk, insts):
    """Unlimited run and one run with a budget nobody exhausts: result, cost c, probe positions.
    Returns list of dict(inst, fr, c, events, probes) and a list of problems (violations)."""
    cases = []
    for (p, n, m, k) in insts:
        cases.append([p, n, m, k, -1])
        cases.append([p, n, m, k, BIG])
    outs = {rel: impl(cases, rel) for rel in (False, True)}
    infos, problems = [], []
    scan = []
    for i, inst in enumerate(insts):
        per = {}
        for rel in (False, True):
            free = parse_out(outs[rel][2 * i]); big = parse_out(outs[rel][2 * i + 1])
            per[rel] = (free, big)
        free, big = per[False]
        if per[True] != per[False]:
            problems.append(("debug and release builds disagree on the unlimited / big-budget run", list(inst) + [BIG], {"debug": outs[False][2 * i + 1], "release": outs[True][2 * i + 1]}))
            continue
        if free["kind"] in ("crash", "panic") or big["kind"] in ("crash", "panic"):
            problems.append(("render crashes with budget 2^40 or without fuel", list(inst) + [BIG], {"nofuel": outs[False][2 * i], "big": outs[False][2 * i + 1]}))
            continue
        fr = 0 if free["kind"] == "ok" else free["code"]
        bfr = 0 if big["kind"] == "ok" else big["code"]
        if fr != bfr or free.get("top") != big.get("top") or big.get("eq", 1) != 1 or (big["kind"] == "ok" and big["same"] != 1) or big["det"] != 1 or free["det"] != 1:
            what = ("the output of a render with a fuel budget (2^40, never exhausted) differs from the unlimited-fuel output" if big["kind"] == "ok" and fr == 0 and big["same"] != 1
                    else "a render that fails with %s without fuel fails with %s under a budget of 2^40 that it never exhausts: no budget reproduces the unlimited outcome"
                    % (ERR_NAMES.get(fr, fr), ERR_NAMES.get(bfr, bfr)) if fr != 0 and bfr != 0 and fr != bfr
                    else "budget 2^40 changes the result of the render or repetitions differ")
            problems.append((what, list(inst) + [BIG], {"nofuel": outs[False][2 * i], "big": outs[False][2 * i + 1]}))
            continue
        pc = [a for a, b in big["probes"]]
        if any(a + b != BIG for a, b in big["probes"]) or any(pc[j] > pc[j + 1] for j in range(len(pc) - 1)):
            problems.append(("fuel_levels read during the render do not add up to the budget or consumption decreases (nested evaluation not drawing from the one counter)",
                             list(inst) + [BIG], {"big": outs[False][2 * i + 1]}))
            continue
        info = {"inst": inst, "fr": fr, "fr_top": free.get("top", 0), "probe_c": pc}
        if big["kind"] == "ok":
            cons, rem = big["levels"]
            if cons + rem != BIG or (pc and pc[-1] > cons):
                problems.append(("final fuel_levels do not add up to the budget", list(inst) + [BIG], {"big": outs[False][2 * i + 1]}))
                continue
            info["c"] = cons
        else:
            info["c"] = None
            scan.append(len(infos))
        infos.append(info)
    # renders that end in an error: the state is not returned, so the cost is located as the least budget
    # that does not run out of fuel, searched upwards from the last probe (validated afterwards by the full sweep)
    if scan:
        sc = []
        for j in scan:
            base = infos[j]["probe_c"][-1] if infos[j]["probe_c"] else 0
            for b in range(base, base + 80):
                sc.append(list(infos[j]["inst"]) + [b])
        so = impl(sc, False)
        pos = 0
        for j in scan:
            base = infos[j]["probe_c"][-1] if infos[j]["probe_c"] else 0
            t = None
            for b in range(base, base + 80):
                o = parse_out(so[pos]); pos += 1
                if t is None and not (o["kind"] == "err" and o["code"] == 21):
                    t = b
            infos[j]["c"] = None if t is None else (0 if t == 0 else t - 1)
        for j in scan:
            if infos[j]["c"] is None:
                problems.append(("no budget within 80 of the last probe lets the failing render reach its own error", list(infos[j]["inst"]) + [BIG], {}))
        infos = [x for x in infos if x["c"] is not None]
    for info in infos:
        ev, last = [], 0
        for a in info["probe_c"]:
            ev += [1] * (a - last) + [2]
            last = a
        ev += [1] * (info["c"] - last)
        info["events"] = ev
    return infos, problems


def budgets(chk, c):
    if c <= 300:
        bs = list(range(0, c + 4))
    else:
        bs = set(range(0, 17)) | set(range(c - 48, c + 4))
        while len(bs) < 17 + 52 + 48:
            bs.add(17 + chk.rng.below(c - 48 - 17))
        bs = sorted(bs)
    return bs + EXTREMES


def literal_property(info, rows):
    """The property text evaluated on the implementation's own answers for one render (all budgets tried).
    rows: list of (B, parsed).  Returns list of (what, B)."""
    bad, wrapped = [], []
    ok_b = [b for b, o in rows if not (o["kind"] == "err" and o["code"] == 21)]
    t = min(ok_b) if ok_b else None
    cons = set()
    for b, o in rows:
        if o["kind"] in ("panic", "crash"):
            bad.append(("render with fuel budget panics/crashes", b)); continue
        if o["det"] != 1:
            bad.append(("repetitions of the same render with the same budget differ", b))
        if any(x + y != b for x, y in o["probes"]):
            bad.append(("fuel_levels read during the render do not add up to the budget", b))
        if [x for x, y in o["probes"]] != info["probe_c"][:len(o["probes"])]:
            bad.append(("consumption at the probes differs from the big-budget run", b))
        if o["kind"] == "err" and o["code"] == 21:
            if t is not None and b > t:
                bad.append(("out of fuel above a budget that succeeds (no single threshold)", b))
            if o["top"] != 21:
                wrapped.append((o["top"], b))
            if o["pre"] != 1:
                bad.append(("the output written before running out of fuel is not a prefix of the unlimited render's output", b))
            continue
        if o["kind"] == "ok":
            if info["fr"] != 0 or o["same"] != 1:
                bad.append(("output differs from the unlimited render", b))
            if o["levels"][0] + o["levels"][1] != b:
                bad.append(("final fuel_levels do not add up to the budget", b))
            cons.add(o["levels"][0])
            if len(o["probes"]) != len(info["probe_c"]):
                bad.append(("successful render skipped a probe", b))
        else:
            if o["eq"] != 1:
                bad.append(("a render that fails like the unlimited render wrote different output before the error", b))
            if o["code"] != info["fr"] or o["top"] != info["fr_top"]:
                bad.append(("error differs from the unlimited render's (neither its error nor OutOfFuel)", b))
    if len(cons) > 1:
        bad.append(("consumed fuel of successful renders differs between budgets", rows[-1][0]))
    return bad, wrapped



# ------------------------------------------------------------------------------------------
# cost-table part: fuel_for_instruction as a generated Gallina table
# ------------------------------------------------------------------------------------------
CONTROL = {"Jump", "JumpIfFalse", "JumpIfFalseOrPop", "JumpIfTrueOrPop", "Iterate", "PushLoop", "Include", "FastSuper", "FastRecurse",
           "LoadBlocks", "BuildMacro", "Return", "Enclose", "GetClosure"}
NUMS = ["1", "n", "m", "k", "3.5", "items[0]", "d.x", "items|length", "-n", "(n, m)|length"]
STRS = ["'x'", "s", "d['y']", "d.y", "n|string", "s.upper()", "s|upper", "s|replace('a', 'b')", "items|join(',')", "s|title", "s[:2]"]
SEQS = ["items", "[n, m]", "items[1:]", "range(n)|list", "[*items, *items]", "(n, m)", "[range][0](2)|list", "range(*[1, 3])|list", "items|map('string')|list"]
MISC = ["{'a': n}", "dict(a=n)", "dict(a=1, **d)", "none", "true", "missing", "missing|default(1)", "1 < n < 5", "n >= m", "n <= m", "n != m", "s == 'x'",
        "n in items", "n is odd", "s is string", "missing is defined", "items is sequence", "n is divisibleby(2)", "m is eq(1)", "not flag"]


def sl_num(rng, depth=0):
    if depth > 2 or rng.below(3) == 0:
        return rng.choice(NUMS)
    return "(%s %s %s)" % (sl_num(rng, depth + 1), rng.choice(["+", "-", "*", "//", "%", "/", "**"]), rng.choice(["1", "2", "n + 1", "3"]))


def sl_expr(rng, depth=0):
    r = rng.below(10)
    if r < 3:
        return sl_num(rng)
    if r < 5:
        return "%s ~ %s" % (rng.choice(STRS), rng.choice(STRS + NUMS))
    if r < 6:
        return "%s|%s" % (rng.choice(SEQS), rng.choice(["length", "first", "list", "join('-')", "last"]))
    if r < 7:
        return "%s|%s" % (rng.choice(STRS), rng.choice(["upper", "length", "trim", "e", "safe", "string"]))
    if r < 8:
        return "%s %s %s" % (sl_num(rng, 2), rng.choice(["==", "<", ">", ">=", "<=", "!="]), sl_num(rng, 2))
    if r < 9:
        return rng.choice(SEQS)
    return rng.choice(MISC)


def sl_body(rng, depth, blocks):
    out = []
    for _ in range(1 + rng.below(4)):
        r = rng.below(12)
        if r < 3:
            out.append(rng.choice(["text ", "<b>", "\n", "{{ '{{' }}"]))
        elif r < 6:
            out.append("{{ %s }}" % sl_expr(rng))
        elif r < 7:
            out.append("{%% set v%d = %s %%}" % (rng.below(3), sl_expr(rng)))
        elif depth < 3 and r < 8:
            out.append("{%% with a = %s %%}%s{%% endwith %%}" % (sl_expr(rng), sl_body(rng, depth + 1, blocks)))
        elif depth < 3 and r < 9:
            out.append("{%% autoescape %s %%}%s{%% endautoescape %%}" % (rng.choice(["true", "false", "'html'"]), sl_body(rng, depth + 1, blocks)))
        elif depth < 3 and r < 10:
            out.append("{%% filter %s %%}%s{%% endfilter %%}" % (rng.choice(["upper", "trim", "e"]), sl_body(rng, depth + 1, blocks)))
        elif depth < 3 and r < 11:
            out.append("{%% set c%d %%}%s{%% endset %%}" % (rng.below(3), sl_body(rng, depth + 1, blocks)))
        elif depth < 3:
            blocks[0] += 1
            out.append("{%% block b%d %%}%s{%% endblock %%}" % (blocks[0], sl_body(rng, depth + 1, blocks)))
        else:
            out.append("x")
    return "".join(out)


def executed_stream(dump):
    """main stream with every CallBlock followed by the stream of the block it renders (blocks of a template that
    extends nothing are rendered once, where they are defined).  None when the stream has control flow."""
    def walk(stream, seen):
        out = []
        for ins in stream:
            op = ins.get("op")
            if op in CONTROL:
                return None
            out.append(op)
            if op == "CallBlock":
                name = ins.get("arg")
                if name in seen or name not in dump["blocks"]:
                    return None
                sub = walk(dump["blocks"][name], seen | {name})
                if sub is None:
                    return None
                out += sub
        return out
    return walk(dump["main"], frozenset())


def prun_plain(cmd, cases):
    return prun(cmd, cases) if cases else []


def cost_table_part(chk, tab, mj, insts, infos_by_inst, hook):
    """Returns (violations[(what, replay, nfi)], coverage dict)."""
    viol, cov = [], {}
    ids = {n: i for i, n in enumerate(tab["names"])}
    cost = tab["cost"]
    # --- static: straight-line templates (no hook needed): consumed fuel = sum of the table over the dumped stream
    nsl = 0 if chk.replay else 3000 if chk.thorough else 400
    reqs, srcs = [], []
    for _ in range(nsl):
        src = sl_body(chk.rng, 0, [0])
        srcs.append(src)
        reqs.append({"templates": {"main": src}, "main": "main", "fuel": str(BIG), "ops": ["instructions", "fuel_levels"],
                     "ctx": {"n": 3, "m": 2, "k": 1, "s": "a<b", "items": [0, 1, 2], "d": {"x": 3, "y": "why"}, "flag": True}})
    sl_checked, sl_skipped, sl_errors = 0, 0, 0
    seen_ops = collections.Counter()
    for rel in (False, True):
        res = run_prog(reqs, release=rel)
        mcases, midx = [], []
        for i, r in enumerate(res):
            fl = r.get("fuel_levels") if isinstance(r, dict) else None
            dump = r.get("instructions") if isinstance(r, dict) else None
            if not fl or not dump or "levels" not in fl or "ok" not in fl:
                sl_errors += 1     # the render failed (e.g. an undefined operation): levels are not observable
                continue
            ops = executed_stream(dump)
            if ops is None or any(o not in ids for o in ops):
                sl_skipped += 1
                continue
            consumed = int(fl["levels"][0])
            expect = sum(cost[o] for o in ops)
            if not rel:
                for o in ops:
                    seen_ops[o] += 1
            sl_checked += 1
            if consumed != expect or int(fl["levels"][1]) != BIG - consumed:
                viol.append(("consumed fuel of a straight-line template differs from the sum of fuel_for_instruction over its instruction stream",
                             {"theorem_or_correspondence": "GenFuelTable (translator of vm/fuel.rs) vs State::fuel_levels", "template": srcs[i], "stream": ops,
                              "consumed": consumed, "table_sum": expect, "profile": "release" if rel else "debug"}, True))
            mcases.append([BIG] + [ids[o] for o in ops]); midx.append((i, consumed))
        mo = prun_plain([mj, "c13-trace"], mcases)
        for (i, consumed), mc, o in zip(midx, mcases, mo):
            if o != [0, consumed, BIG - consumed, len(mc) - 1, consumed] and not viol:
                viol.append(("model cost of a straight-line stream differs from the engine's consumed fuel", {"theorem_or_correspondence": "C13.Runner.run_trace vs State::fuel_levels",
                             "template": srcs[i], "model": o, "consumed": consumed}, True))
    cov["straight_line"] = {"templates": nsl, "compared(debug+release)": sl_checked, "skipped_control_flow": sl_skipped, "render_failed": sl_errors}
    # --- dynamic: executed instruction trace through the hook, for the whole program family
    if not hook:
        cov["trace_hook"] = False
        cov["opcodes_exercised"] = sorted(seen_ops)
        return viol, cov
    cov["trace_hook"] = True
    tr_cases = [list(inst) + [BIG] for inst in insts]
    asked_n = 0
    for rel in (False, True):
        free = prun_plain([bin_path("c13_trace", rel)], tr_cases)
        bcases, bmeta, mcases = [], [], []
        for inst, o in zip(insts, free):
            if not o or o[0] not in (0, 1):
                viol.append(("trace run crashed", {"case": list(inst) + [BIG], "output": o[:6]}, False)); continue
            names = o[4:] if o[0] == 0 else o[3:]
            if any(x not in ids for x in names):
                viol.append(("the VM executed an instruction the translator does not know", {"theorem_or_correspondence": "tools/fuel_table.py", "unknown": sorted(set(str(x) for x in names if x not in ids))}, True)); continue
            if not rel:
                for x in names:
                    seen_ops[x] += 1
            info = infos_by_inst.get(inst)
            c = sum(cost[x] for x in names)
            if o[0] == 0 and (o[1] != c or o[2] != BIG - c):
                viol.append(("consumed fuel differs from the sum of fuel_for_instruction over the executed instruction trace (instructions run without being charged to the render's tracker, or charged twice)",
                             {"case": list(inst) + [BIG], "describe": describe(list(inst) + [BIG]), "consumed": o[1], "table_sum_over_executed_trace": c,
                              "executed_instructions": len(names), "profile": "release" if rel else "debug", "how": "./check C13 --replay <this file>"}, False)); continue
            if info is not None and info["c"] != c:
                viol.append(("cost located by the budget sweep differs from the table sum over the executed trace",
                             {"theorem_or_correspondence": "GenFuelTable vs budget sweep", "case": list(inst) + [BIG], "sweep_cost": info["c"], "table_sum": c}, True)); continue
            bs = sorted(set(b for b in [0, 1, 2, c // 3, c // 2, c - 1, c, c + 1, c + 2, 2**63, 2**64 - 1] if b >= 0))
            for b in bs:
                bcases.append(list(inst) + [b]); bmeta.append((names, c)); mcases.append([b] + [ids[x] for x in names])
        outs = prun_plain([bin_path("c13_trace", rel)], bcases)
        mo = prun_plain([mj, "c13-trace"], mcases)
        for case, (names, c), o, m in zip(bcases, bmeta, outs, mo):
            b = case[4]
            asked_n += 1
            got = o[4:] if o and o[0] == 0 else o[3:] if o and o[0] == 1 else None
            # first principles: the budget run executes a prefix of the unlimited trace and stops at the first charged
            # instruction with which consumption reaches the budget
            acc, stop = 0, None
            for j, x in enumerate(names):
                if cost[x]:
                    acc += cost[x]
                    if acc >= b:
                        stop = j + 1
                        break
            exp_ok = stop is None
            exp_len = len(names) if stop is None else stop
            fr_err = bool(o and o[0] == 1 and o[1] != 21)
            ok = got is not None and got == names[:exp_len] and ((o[0] == 0) == exp_ok or (exp_ok and fr_err))
            if ok and o[0] == 0:
                ok = (o[1], o[2]) == (c, b - c)
            if not ok:
                viol.append(("under a budget the executed trace is not the predicted prefix of the unlimited trace",
                             {"case": case, "describe": describe(case), "trace_len": None if got is None else len(got), "expected_len": exp_len,
                              "expected_success": exp_ok, "output": o[:4], "profile": "release" if rel else "debug"}, False))
            exp_m = [0 if exp_ok else 1, c if exp_ok else b, b - c if exp_ok else 0, exp_len, c]
            if m != exp_m:
                viol.append(("model of the tracker over the real cost sequence differs from the first-principles prediction",
                             {"theorem_or_correspondence": "C13.Runner.run_trace / trace_threshold", "case": case, "model": m, "expected": exp_m}, True))
    cov["trace_budget_cases"] = asked_n
    cov["opcodes_exercised"] = sorted(seen_ops)
    cov["opcodes_not_exercised"] = sorted(set(tab["names"]) - set(seen_ops))
    return viol, cov


# ------------------------------------------------------------------------------------------
# entry-point part: one template, context and budget through every way of rendering it
# ------------------------------------------------------------------------------------------
ENTRY_T = ["text only", "text split by comments", "raw block only", "empty", "text + expressions + loop", "a block", "wrapper including a text-only template",
           "wrapper extending a text-only template", "wrapper including a template with expressions", "only a comment"]
ENTRY_E = ["Template::render_captured", "Template::render", "Environment::render_str", "Environment::render_named_str", "second Template handle + render",
           "Template::render_captured_to", "template_from_str + render", "template_from_named_str + render"]


def entry_part(chk):
    viol, cov = [], {}
    if chk.replay:
        rp = json.load(open(chk.replay))["replay"]
        if "entry_case" not in rp:
            return viol, cov
        pairs = [tuple(rp["entry_case"][:2])]
    else:
        pairs = [(t, n) for t in range(len(ENTRY_T)) for n in ((0, 1, 3, 6) if not chk.thorough else range(0, 12))]
    bigs = prun_plain([bin_path("c13_entry")], [[t, n, 0, BIG] for t, n in pairs])
    cases, meta = [], []
    for (t, n), o in zip(pairs, bigs):
        if not o or o[0] != 0 or o[1] != 1 or o[2] + o[3] != BIG:
            viol.append(("render_captured with budget 2^40 fails or does not add up", {"entry_case": [t, n, 0, BIG], "output": o[:6]}, False)); continue
        c = o[2]
        bs = list(range(0, c + 4)) + [2**63, 2**64 - 1]
        if chk.replay:
            bs = [rp["entry_case"][3]]
        for b in bs:
            for e in range(len(ENTRY_E)):
                cases.append([t, n, e, b]); meta.append(c)
    for rel in (False, True):
        outs = prun_plain([bin_path("c13_entry", rel)], cases)
        for case, c, o in zip(cases, meta, outs):
            t, n, e, b = case
            thr = 0 if c == 0 else c + 1
            if b >= thr:
                exp = [0, 1, c, b - c] if e in (0, 5) else [0, 1, -1, -1]
            else:
                exp = [1, 21]
            if o != exp:
                viol.append(("the same template, context and budget give different outcomes through different entry points (no single threshold)",
                             {"entry_case": case, "template": ENTRY_T[t], "n": n, "entry_point": ENTRY_E[e], "budget": b, "cost_by_render_captured": c,
                              "got": o[:6], "expected": exp, "profile": "release" if rel else "debug", "how": "./check C13 --replay <this file>"}, False))
    cov["entry_cases"] = len(cases)
    cov["entry_points"] = len(ENTRY_E)
    cov["entry_templates"] = len(pairs)
    return viol, cov


# ------------------------------------------------------------------------------------------
# history part: one State, a sequence of evaluations, levels after each
# ------------------------------------------------------------------------------------------
OPNAMES = ["call_macro big", "call_macro small", "call_macro empty", "call_macro mid", "render_block bigblock", "render_block smallblock",
           "render_block nest", "call_macro <unknown>", "render_block <unknown>"]
FIXED_SEQS = [[0, 0, 0, 0], [1, 0, 0, 1, 0], [4, 4, 4], [0, 4, 0, 4, 2, 1], [1, 1, 1, 1, 1, 1], [3, 6, 3, 6, 0, 0], [2, 2, 0, 2, 0, 2], [5, 5, 5], [4], [0],
              [7, 0, 8, 0, 7, 0], [6, 0, 6, 4, 6], [1, 5, 2, 0, 0, 5, 1, 2]]


def describe_hist(h):
    n, m, b, init, ops = h
    return {"template": "history template (macros big/small/empty/mid, blocks bigblock/smallblock/nest), n=%d m=%d" % (n, m), "budget": b,
            "state": "render_captured" if init == 0 else "new_state", "operations": [OPNAMES[o] for o in ops]}


def hist_case(h):
    n, m, b, init, ops = h
    return [n, m, b, init, len(ops)] + list(ops)


def triples(o):
    return [tuple(o[i:i + 3]) for i in range(0, len(o) - len(o) % 3, 3)]


def history_part(chk, mj):
    """Returns (violations, coverage)."""
    rng = chk.rng
    viol, cov = [], {}
    if chk.replay:
        rp = json.load(open(chk.replay))["replay"]
        if "history" not in rp:
            return viol, cov
        hs = [tuple(rp["history"][:4]) + (tuple(rp["history"][4]),)]
        skeletons = [(hs[0][0], hs[0][1], hs[0][3], hs[0][4])]
    else:
        skeletons = []
        for (n, m) in [(0, 0), (1, 2), (3, 1)] + ([(5, 4), (2, 7), (8, 0)] if chk.thorough else []):
            for init in (0, 1):
                seqs = [list(x) for x in FIXED_SEQS]
                for _ in range(60 if chk.thorough else 14):
                    seqs.append([rng.below(9) for _ in range(1 + rng.below(8))])
                for ops in seqs:
                    skeletons.append((n, m, init, tuple(ops)))
    # phase A: the cost of every step when fuel never runs out
    big = {rel: prun_plain([bin_path("c13_hist", rel)], [hist_case((n, m, BIG, init, ops)) for n, m, init, ops in skeletons]) for rel in (False, True)}
    hists, meta = [], []
    for j, (n, m, init, ops) in enumerate(skeletons):
        o = big[False][j]
        if big[True][j] != o or not o or o[0] == "CRASH" or o == [2] or len(o) != 3 * (len(ops) + 1):
            viol.append(("history run with budget 2^40 crashes or differs between debug and release", {"history": [n, m, BIG, init, list(ops)], "describe": describe_hist((n, m, BIG, init, ops)),
                                                                                                      "debug": o[:30], "release": big[True][j][:30]}, False))
            continue
        tr = triples(o)
        costs, kinds, prev = [], [], 0
        okb = True
        for (r, c, rem) in tr:
            if c + rem != BIG or c < prev or r == 21:
                okb = False
            costs.append(c - prev); kinds.append(r); prev = c
        if not okb:
            viol.append(("levels of a history with budget 2^40 do not add up / decrease", {"history": [n, m, BIG, init, list(ops)], "describe": describe_hist((n, m, BIG, init, ops)), "output": o[:40]}, False))
            continue
        if chk.replay:
            bs = [hs[0][2]]
        else:
            c0, cum = costs[0], []
            acc = 0
            for c in costs:
                acc += c; cum.append(acc)
            bs = {0, 1, 2, c0, c0 + 1, c0 + 2, 2**63, 2**64 - 1}
            for a in cum:
                bs |= {a, a + 1}
            for c in set(costs[1:]):
                bs |= {c0 + c, c0 + c + 1, c0 + 2 * c, c0 + 2 * c + 1}
            for _ in range(4):
                bs.add(rng.below(cum[-1] + 3))
            bs = sorted(b for b in bs if b >= 0)
        for b in bs:
            hists.append((n, m, b, init, ops)); meta.append((costs, kinds))
    cases = [hist_case(h) for h in hists]
    mcases = [[h[2]] + [x for c in costs for x in [c] + [1] * c] for h, (costs, kinds) in zip(hists, meta)]
    mo = prun_plain([mj, "c13-history"], mcases)
    pinned = 0
    for rel in (False, True):
        outs = prun_plain([bin_path("c13_hist", rel)], cases)
        for h, (costs, kinds), o, m in zip(hists, meta, outs, mo):
            n, mm, b, init, ops = h
            rp = {"history": [n, mm, b, init, list(ops)], "describe": describe_hist(h), "profile": "release" if rel else "debug", "output": o[:40], "how": "./check C13 --replay <this file>"}
            if not o or o[0] == "CRASH" or o == [2]:
                viol.append(("history crashes", rp, False)); continue
            tr = triples(o)
            # first principles: the tracker of the state goes on from where the previous evaluation left it
            acc, exp, dead = 0, [], False
            for j, (c, kind) in enumerate(zip(costs, kinds)):
                if c == 0 or c < b - acc:
                    acc += c
                    exp.append((kind, acc, b - acc))
                else:
                    acc = b
                    exp.append((21, b, 0))
                    if j == 0 and init == 0:
                        exp[-1] = (21, -2, -2)      # the render itself failed: there is no state to go on with
                        dead = True
                        break
            # the property, literally, on the implementation's answers
            prev, bad = 0, None
            for j, (r, c, rem) in enumerate(tr):
                if (c, rem) == (-2, -2):
                    break
                if c + rem != b:
                    bad = "consumed + remaining differs from the budget after step %d of a history on one State" % j
                elif c < prev:
                    bad = "consumed fuel decreases along a history on one State (step %d)" % j
                elif r not in (21, kinds[j] if j < len(kinds) else r):
                    bad = "a step of a history fails with an error that is neither its own nor OutOfFuel (step %d)" % j
                if bad:
                    break
                prev = c
            if bad:
                viol.append((bad, rp, False)); continue
            if tr != exp:
                viol.append(("levels / results along a history differ from the tracker carried from evaluation to evaluation",
                             dict(rp, expected=[list(x) for x in exp], theorem_or_correspondence="history prediction from per-step costs"), True)); continue
            if not dead:
                mexp = [x for (r, c, rem) in exp for x in (1 if r == 21 else 0, c, rem)]
                if m != mexp and rel is False:
                    viol.append(("model tracker run over the history differs from the prediction", {"theorem_or_correspondence": "C13.Runner.run_history", "history": rp["history"], "model": m[:40], "expected": mexp[:40]}, True))
            if rel is False and sum(1 for (r, c, rem) in tr if r == 21) >= 2:
                pinned += 1
    cov["histories"] = len(hists)
    cov["skeletons"] = len(skeletons)
    cov["histories_with_two_or_more_out_of_fuel_steps"] = pinned
    return viol, cov


def describe(case):
    p, n, m, k, b = case[:5]
    return {"program": "%d (%s)" % (p, FAMILY[p] if p < len(FAMILY) else "?"), "n": n, "m": m, "k": k, "budget": b}


def main():
    chk = Check("C13", "proof")
    chk.cov["trusted_base"] = TRUSTED_COMMON + ["Print Assumptions: all fourteen theorems closed under the global context (no axioms)",
                                               "tools/fuel_table.py (translator vm/fuel.rs::fuel_for_instruction + enum Instruction -> C13/GenFuelTable.v; whitelisted arm syntax, fails on anything else); the table is compared with the engine's consumed fuel over dumped straight-line streams and, with the instruction hook, over the executed trace of every program of the family",
                                               "the render is abstract in the theorems (any deterministic step system); that eval_impl asks the one tracker before every instruction of every nested evaluation is established by the correspondence run (34 program shapes incl. macros, includes, inheritance), not by proof"]
    chk.assumptions = ["64-bit target (u64 fuel counter)", "templates do not branch on State::fuel_levels (no builtin does; the harness's probe() returns '')",
                       "modelled: FuelTracker::{new,track,remaining,consumed}, the per-instruction charge in eval_impl, State::fuel_levels; fuel_for_instruction is an arbitrary non-negative cost per instruction"]
    try:
        tab = fuel_table.generate(REPO, os.path.join(COQ, "theories", "C13", "GenFuelTable.v"))
    except (fuel_table.TranslatorError, OSError) as ex:
        chk.violation("the translator cannot read fuel_for_instruction / enum Instruction", {"theorem_or_correspondence": "tools/fuel_table.py", "error": str(ex)}, True)
        chk.finish()
    ok_models, blog = build_models("C13")
    proofs_ok = chk.run_proofs()
    okc, clog = cargo_build(["c13"], release=False)
    okr, clog2 = cargo_build(["c13"], release=True)
    has_feature = "verif_hooks" in open(os.path.join(REPO, "minijinja", "Cargo.toml")).read()
    trace_hook = has_feature and "set_instruction_hook" in open(os.path.join(REPO, "minijinja", "src", "lib.rs")).read()
    feats = ("hooks",) if has_feature else ()
    for rel in (False, True):
        okh, hlog = cargo_build(["c13_hist", "c13_entry"], release=rel)
        okc, clog = okc and okh, clog + hlog
        okt, tlog = cargo_build(["c13_trace", "prog"], release=rel, features=feats)
        okc, clog = okc and okt, clog + tlog
    if not (okc and okr):
        chk.violation("harness does not build against the current /repo tree", {"theorem_or_correspondence": "build of harness/src/bin/c13.rs", "log": (clog + clog2)[-1500:]}, True)
        chk.finish()
    if not ok_models:
        chk.violation("model build failed", {"theorem_or_correspondence": "coq/theories/C13/Model.v build", "log": blog[-1500:]}, True)
        chk.finish()
    only_b = None
    if chk.replay:
        rp = json.load(open(chk.replay))["replay"].get("case")
        insts, nprogs = ([tuple(rp[:4])] if rp else []), len(FAMILY)
        only_b = rp[4] if rp else None
    else:
        insts, nprogs = instances(chk)
    infos, problems = phase1(chk, insts)
    for what, case, extra in problems[:5]:
        chk.violation(what, dict({"case": case, "describe": describe(case), "how": "./check C13 --replay <this file>"}, **extra))
    cases, owner = [], []
    for j, info in enumerate(infos):
        bs = budgets(chk, info["c"]) if only_b is None or only_b == BIG else [only_b]
        for b in bs:
            cases.append(list(info["inst"]) + [b, info["fr"]] + info["events"])
            owner.append(j)
    log("C13: %d programs x params = %d renders, %d (render, budget) cases" % (nprogs, len(infos), len(cases)))
    mod = model("c13", cases)
    spec = model("c13-spec", cases)
    imp = {rel: impl(cases, rel) for rel in (False, True)}
    # kernel cross-check of the extraction on a sample with short event lists
    short = sorted(range(len(cases)), key=lambda i: (len(cases[i]) > 60, i * 7919 % 1009))[:40]
    kern = kernel_eval("run", [cases[i] for i in short], "k_C13_run", imports="Common.Base C13.Runner") if cases else []
    kernel_ok = kern is not None and all(kern[j] == mod[i] for j, i in enumerate(short))
    # --- oracle: the property text on the implementation's own answers, render by render
    rows = collections.defaultdict(list)
    for i, c in enumerate(cases):
        for rel in (False, True):
            rows[(owner[i], rel)].append((c[4], parse_out(imp[rel][i])))
    literal_bad = []
    wrapped_n = collections.Counter()
    for (j, rel), rws in rows.items():
        bad, wrapped = literal_property(infos[j], rws)
        for what, b in bad:
            literal_bad.append((what, list(infos[j]["inst"]) + [b], "release" if rel else "debug"))
        for top, b in wrapped:
            # the root cause is OutOfFuel but the kind handed to the host is a wrapper's: "fails with an out-of-fuel error" is violated
            literal_bad.append(("out-of-fuel failure is reported to the host with error kind %s (OutOfFuel only as source)" % ERR_NAMES.get(top, top),
                                list(infos[j]["inst"]) + [b], "release" if rel else "debug"))
            wrapped_n[ERR_NAMES.get(top, str(top))] += 1
    # --- exact oracle: the specification (threshold = cost + 1, or 0 for cost 0) on every case
    impn = {rel: [strip_top(o)[0] if o and o[0] != "CRASH" else o for o in imp[rel]] for rel in (False, True)}
    spec_bad = [(i, rel) for i in range(len(cases)) for rel in (False, True) if impn[rel][i] != spec[i]]
    model_vs_spec = [i for i in range(len(cases)) if mod[i] != spec[i]]
    mism = [(i, rel) for i in range(len(cases)) for rel in (False, True) if impn[rel][i] != mod[i]]
    # --- cost-table part
    ct_viol, ct_cov = cost_table_part(chk, tab, os.path.join(EXTRACT, "C13", "mjmodel"), list(insts),
                                                                  {x["inst"]: x for x in infos}, trace_hook)
    # --- history part
    hi_viol, hi_cov = history_part(chk, os.path.join(EXTRACT, "C13", "mjmodel"))
    # --- entry-point part
    en_viol, en_cov = entry_part(chk)
    # --- coverage
    hist = collections.Counter()
    nontriv = set()
    for i, c in enumerate(cases):
        info = infos[owner[i]]
        cc, b = info["c"], c[4]
        hist["program=%d" % c[0]] += 1
        hist["cost<=20" if cc <= 20 else "cost<=100" if cc <= 100 else "cost<=300" if cc <= 300 else "cost>300"] += 1
        hist["verdict=" + ("same-as-unlimited" if spec[i][0] == 0 or (spec[i][0] == 1 and spec[i][1] != 21) else "out-of-fuel")] += 1
        if b >= 2**31: hist["budget>=2^31"] += 1
        if b >= 2**63: hist["budget>=2^63"] += 1
        if cc >= 5 and b >= 1 and (b >= cc - 8):
            nontriv.add(tuple(c[:5]))
    chk.cov["evaluations"] = (len(cases) * 2 * 4 + len(insts) * 2 * 2 * 4 + 2 * hi_cov.get("histories", 0) + 2 * en_cov.get("entry_cases", 0) + 2 * ct_cov.get("trace_budget_cases", 0)
                              + 2 * ct_cov.get("straight_line", {}).get("templates", 0))
    chk.cov["renders"] = len(infos)
    chk.cov["programs"] = nprogs
    chk.cov["budget_cases"] = len(cases)
    chk.cov["distinct_nontrivial"] = len(nontriv)
    chk.cov["rule"] = ("%d template programs (macros, call blocks, includes, include chains, inheritance with super() emitted and in every operand position "
                       "at extends depth 1..3, imports, self.block(), recursive loops, macros / includes / call blocks in value position, host functions, filters, tests and a "
                       "custom formatter that re-enter the interpreter, renders ending in an error) x parameter triples (n,m,k) = renders; per render: unlimited run, run at 2^40 (cost c and probe positions), then EVERY "
                       "budget in [0,c+3] when c<=300 (else 0..16, c-48..c+3 and 48 seeded ones) plus 2^31, 2^32, 2^62, 2^63-1, 2^63, 2^63+1, 2^64-2, 2^64-1; every case "
                       "in a debug and a release build, each render 3 times (third on another thread); evaluations = renders executed; non-trivial = distinct "
                       "(program,n,m,k,budget) with cost >= 5 and budget >= max(1, c-8), i.e. around or above the threshold of a render that charges instructions" % nprogs)
    chk.cov["exhaustive"] = False
    pick = [0, len(cases) // 3, len(cases) // 2, len(cases) - 1] if cases else []
    chk.cov["samples"] = [dict(describe(cases[i]), cost=infos[owner[i]]["c"], implementation=imp[False][i][:12]) for i in pick]
    chk.cov["distribution"] = dict(hist)
    chk.cov["out_of_fuel_reported_with_wrapper_kind"] = dict(wrapped_n)
    chk.cov["history_part"] = hi_cov
    chk.cov["entry_point_part"] = en_cov
    chk.cov["cost_table"] = dict(ct_cov, opcodes=len(tab["names"]), zero_cost=sorted(n for n in tab["names"] if tab["cost"][n] == 0))
    chk.cov["max_cost"] = max([x["c"] for x in infos] or [0])
    chk.cov["model_vs_spec_disagreements"] = len(model_vs_spec)
    chk.cov["impl_vs_model_disagreements"] = len(mism)
    chk.cov["kernel_crosscheck"] = {"cases": len(short), "agree": bool(kernel_ok)}
    # --- verdicts
    seen = set()
    index = {tuple(c[:5]): i for i, c in enumerate(cases)}
    for what, case, prof in literal_bad:
        key = (what, case[0])
        if key in seen or len(seen) >= 6:
            continue
        seen.add(key)
        rep = {"case": case, "describe": describe(case), "profile": prof, "how": "./check C13 --replay <this file>"}
        i = index.get(tuple(case))
        if i is not None:
            rel = prof == "release"
            rep["implementation"] = imp[rel][i]
            rep["specification"] = spec[i]
            rep["cost_of_unlimited_run"] = infos[owner[i]]["c"]
            old = model("c13-old-release" if rel else "c13-old-debug", [cases[i]])[0]
            rep["explained_by_isize_counter_model"] = (old[:3] == impn[rel][i][:3])
        chk.violation(what, rep)
    for what, rp, nfi in ct_viol[:4] + hi_viol[:4] + en_viol[:4]:
        chk.violation(what, rp, nfi)
    if not literal_bad and not problems:
        if spec_bad:
            i, rel = spec_bad[0]
            chk.violation("fuel threshold is not cost+1 / levels are not (cost, budget-cost): the implementation keeps a single threshold but not the specified one",
                          {"theorem_or_correspondence": "Spec.threshold vs harness c13", "case": cases[i][:6], "describe": describe(cases[i]),
                           "cost": infos[owner[i]]["c"], "profile": "release" if rel else "debug", "implementation": imp[rel][i], "spec": spec[i]}, True)
        elif mism:
            i, rel = mism[0]
            chk.violation("model and implementation disagree", {"theorem_or_correspondence": "correspondence C13.Runner.run vs harness c13",
                          "case": cases[i][:6], "implementation": imp[rel][i], "model": mod[i]}, True)
        if model_vs_spec:
            i = model_vs_spec[0]
            chk.violation("extracted model differs from extracted spec although exec_matches_spec is proved", {"theorem_or_correspondence": "exec_matches_spec (extraction)", "case": cases[i][:6]}, True)
        if not kernel_ok:
            chk.violation("kernel evaluation disagrees with extracted model", {"theorem_or_correspondence": "vm_compute cross-check of extraction"}, True)
        if not proofs_ok:
            chk.violation("proof obligations of C13 do not check", {"theorem_or_correspondence": chk.proof["problems"]}, True)
    chk.finish()


if __name__ == "__main__":
    main()
