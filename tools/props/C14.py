#!/usr/bin/env python3
"""C14 - errors point at the right template line; reported ranges are valid slices (DESIGN.md §3 C14).

Three kinds of cases (harness/src/bin/c14.rs):
  mode 1  tokenizer: every token span and the lexer error, implementation vs Coq model (Model.v tokenizer),
          and the Coq spec (Spec.v span_ok / located_ok) evaluated on the implementation's own spans;
  mode 2  Instructions line/span tables driven directly, implementation vs model vs the semantic spec;
  mode 0  the whole pipeline (loader, parser, codegen, VM, error formatting): groups of variants of one
          failing template (N lines / H characters inserted), checked on the implementation:
          located, line inside the source and equal to the line of the range start, range a valid slice,
          no formatting panics, debug on = debug off, debug build = release build, planted run-time error
          reported at the planted line, and the N-shift relation between the variants.

What "a line inside the source" means here (Error::line is documented as "the line number where the error
occurred", Error::range as "the byte range of where the error occurred"; the engine, like Rust's str::lines, breaks
lines at "\n" only, so "\r\n" ends a line and a lone "\r" does not): the line of a position is 1 + the number of
"\n" in front of it.  A source therefore has 1 + count("\n") lines: the empty source has one (empty) line, and the
text after a trailing newline is a line of its own - an error at the very end of "{# never closed\n" (with
keep_trailing_newline, so that the newline is part of what is tokenized) is on line 2, and 2 is inside the source.
An error is *located* when it has a name and 1 <= line <= 1 + count("\n"), and when it has a range, the line is the
line of the start of the range.  This holds for every whitespace configuration (keep_trailing_newline, trim_blocks,
lstrip_blocks), for every way of getting at a template (loader, add_template_owned, template_from_str = render_str,
template_from_named_str) and for the expression API (compile_expression / eval, name "<expression>").
"""
import os, sys, collections, concurrent.futures
sys.path.insert(0, os.path.dirname(os.path.dirname(os.path.abspath(__file__))))
from vlib import *

JOBS = 16
FIELDS = "kind name line nlines rtag rs re rok lor hsrc sok fmt".split()
NF = len(FIELDS)


# ----------------------------------------------------------------------------------------
# encoding
# ----------------------------------------------------------------------------------------
def enc_src(segs):
    """segs = [(rep, text)] -> SRC"""
    segs = [(r, t) for r, t in segs if r > 0 and t != ""]
    out = [len(segs)]
    for rep, text in segs:
        out += [rep, len(text)] + [ord(ch) for ch in text]
    return out


def text_of(segs):
    return "".join(t * r for r, t in segs)


def case_pipe(tpls, flags=0):
    c = [0, flags, len(tpls)]
    for t in tpls:
        c += enc_src(t)
    return c


def case_tok(segs, flags=0):
    return [1, flags] + enc_src(segs)


def blen(s):
    return len(s.encode("utf8"))


def dec_pipe(o):
    """-> [(stage, [err dict])] for debug off / on; None when the output is malformed"""
    if not o or o[0] == "CRASH":
        return None
    if o == [2]:
        return [(9, []), (9, [])]
    i = 0
    res = []
    try:
        for _ in (0, 1):
            st = o[i]; i += 1
            if st in (0, 9):
                res.append((st, []))
                continue
            n = o[i]; i += 1
            errs = []
            for _ in range(n):
                errs.append(dict(zip(FIELDS, o[i:i + NF]))); i += NF
            res.append((st, errs))
    except Exception:
        return None
    return res


def prun(cmd, cases, timeout=1800):
    """run_lines over JOBS processes (contiguous chunks, order preserved)"""
    if not cases:
        return []
    k = max(1, min(JOBS, len(cases) // 8 or 1))
    size = (len(cases) + k - 1) // k
    chunks = [cases[i:i + size] for i in range(0, len(cases), size)]
    with concurrent.futures.ThreadPoolExecutor(max_workers=k) as ex:
        outs = list(ex.map(lambda ch: run_lines(cmd, ch, timeout=timeout), chunks))
    return [o for ch in outs for o in ch]


def model_cmd(runner):
    return ["bash", "-c", "ulimit -s unlimited 2>/dev/null; exec %s %s" % (os.path.join(EXTRACT, "C14", "mjmodel"), runner)]


# ----------------------------------------------------------------------------------------
# generators
# ----------------------------------------------------------------------------------------
PADS = ["x\n", "p€d é\n", "\n", "{# c #}\n", "pad\r\n", "{{ 1 }}\n"]
HPADS = [" ", "€", "abé "]

BASES = [
    "hello {{ name }}!\n{% for x in seq %}\n  <{{ x|upper }}>\n{% endfor %}\nbye\n",
    "{% if a == 1 and (b >= 2) %}\n  {{ [1, 2][0] ~ 'txt' }}\n{% else %}\n{# note #} t\n{% endif %}",
    "{% set v = {'k': 10} %}\n{{ v.k + 1 }} {{- s -}} \n{% with q = 1 %}{{ q }}{% endwith %}\n",
    "{% macro m(a, b=2) %}\n{{ a }}{{ b }}\n{% endmacro %}\n{{ m(1) }}",
    "a {%- if s is defined +%} b\n{{ \"q\" }}{#- c -#}\n\n{% endif %} {{ seq|join(', ') }}\r\nend",
]
BASES_MB = [
    "héllo € {{ name }}!\n{% for x in seq %}\n  «{{ x|upper }}»\n{% endfor %}\nbyé\n",
    "{% if a == 1 %}\n  {{ 't€t' ~ \"\U0001d11e\" }}é\n{% else %}\n{# nöte #} t\n{% endif %}",
    "é{% set v = 'ü' %}€\né{{ v }} {{- s -}}　\n{% with q = 1 %}{{ q }}{% endwith %}€",
]
INSERTS = ["€", "'", "\"", "{#", ")", "{{", "{%", "}}", "%}", "?", "(", " in ", "{{ '",
           "340282366920938463463374607431768211456 ", "é", "{% for in seq %}",
           "{{ \"é\\xZZ\" }}", "'日本\\u12'", " ~ \"🐍\\x\""]


def mutants(base):
    """(name, text) - planted at every character position, incl. the end of the input"""
    out = []
    n = len(base)
    for i in range(n + 1):
        out.append(("trunc@%d" % i, base[:i]))
        for ins in INSERTS:
            out.append(("ins%r@%d" % (ins, i), base[:i] + ins + base[i:]))
        if i < n:
            out.append(("del@%d" % i, base[:i] + base[i + 1:]))
    return out


CONSTRUCTS = [
    # (name, templates with exactly one '@' line, index of the planted template)
    ("top", ["a\nb\n@\nc\n"]),
    ("for", ["{% for x in seq %}\n  a\n@\n{% endfor %}\n"]),
    ("for-else", ["{% for x in [] %}\nq\n{% else %}\n@\n{% endfor %}"]),
    ("if", ["{% if one %}\n@\n{% else %}\nx\n{% endif %}"]),
    ("else", ["{% if zero %}\nx\n{% elif zero %}\n{% else %}\n\n@\n{% endif %}"]),
    ("with", ["{% with q = 1 %}\n@\n{% endwith %}"]),
    ("set-block", ["{% set cap %}\n@\n{% endset %}{{ cap }}"]),
    ("filter-block", ["{% filter upper %}\n@\n{% endfilter %}"]),
    ("autoescape", ["{% autoescape true %}\n@\n{% endautoescape %}"]),
    ("macro", ["{% macro m(a) %}\n  t\n@\n{% endmacro %}\nx\n{{ m(1) }}\n"]),
    ("call-block", ["{% macro m() %}[{{ caller() }}]{% endmacro %}\n{% call m() %}\n@\n{% endcall %}"]),
    ("block", ["t\n{% block b %}\n@\n{% endblock %}"]),
    ("child-block", ["{% extends 't1' %}\n{% block b %}\n\n@\n{% endblock %}", "pre\n{% block b %}x{% endblock %}\npost"]),
    ("super", ["{% extends 't1' %}\n{% block b %}{{ super() }}{% endblock %}", "p\n{% block b %}\n@\n{% endblock %}"]),
    ("parent-body", ["{% extends 't1' %}\n{% block b %}{% endblock %}", "\n@\n{% block b %}{% endblock %}"]),
    ("include", ["a\n{% include 't1' %}\n", "x\ny\n@\n"]),
    ("include-nested", ["a\n{% include 't1' %}\n", "\n\n{% include 't2' %}", "x\n@"]),
    ("from-import", ["{% from 't1' import m %}\n{{ m() }}", "\n{% macro m() %}\n@\n{% endmacro %}"]),
    ("import-as", ["{% import 't1' as lib %}\n\n{{ lib.m() }}", "{% macro m() %}\n\n\n@\n{% endmacro %}"]),
    ("nested-loops", ["{% for x in seq %}{% for y in seq %}\n@\n{% endfor %}{% endfor %}"]),
    ("loop-in-macro", ["{% macro m() %}{% for x in seq %}\n@\n{% endfor %}{% endmacro %}\n{{ m() }}"]),
    ("self-block", ["{{ self.b() }}\n{% block b %}\n\n@\n{% endblock %}"]),
    ("recursive-loop", ["{% for x in [[1]] recursive %}\n{% if x is iterable %}{{ loop(x) }}{% else %}\n@\n{% endif %}{% endfor %}"]),
]
PLANTS = [
    # (text, kind of the root cause, line offset of the failing part inside the plant)
    ("{{ one // zero }}", 3, 0),
    ("{{ s|nofilter }}", 8, 0),
    ("{{ s.nomethod() }}", 11, 0),
    ("{% include 'missing' %}", 5, 0),
    ("{{ s is notest }}", 9, 0),
    ("{{ nofunc() }}", 10, 0),
    ("{% for q in one %}{% endfor %}", 3, 0),
    ("{{ undef.attr }}", 13, 0),
    ("{{ seq|join(1, 2, 3) }}", 6, 0),
    ("t€xt é {{ 'ü' ~ (one // zero) }} tail", 3, 0),
    ("{% set w = one % zero %}", 3, 0),
    ("{% if one // zero %}{% endif %}", 3, 0),
    ("{{ m.a.b.c }}", 13, 0),
    ("{% do nofunc() %}", 10, 0),
    ("{{ [1,\n  2,\n  one // zero] }}", 3, 2),
    ("ok {{ 1 }}\n{{ s|upper|nofilter }}", 8, 1),
    ("{% for in seq %}x{% endfor %}", 18, 0),
]


# failures whose error carries no span (the line comes from the line table via get_line)
SPECIALS = [
    ("required-block", ["{% extends 't1' %}", "a\nb\n@\nc"], ("{% block b required %}{% endblock %}", 3, 0)),
    ("required-block-first-line", ["x\n{% extends 't1' %}", "@"], ("{% block b required %}{% endblock %}", 3, 0)),
    ("required-block-multiline", ["{% extends 't1' %}", "a\n@\nc"], ("{% block b required %}\n\n{% endblock %}", 3, 0)),
]


# ---- the run-time matrix: every failing instruction kind inside every enclosing construct, under every undefined mode ----
MORE_CONSTRUCTS = [
    ("after-ns-set", ["{% set ns = namespace(v=0) %}\n{% set ns.v = 1 %}\nx\n@\ny"]),
    ("after-ns-set-in-loop", ["{% set ns = namespace(v=0) %}{% for x in seq %}\n{% set ns.v = x %}\n@\n{% endfor %}"]),
    ("call-block-args", ["{% macro m(a) %}[{{ caller() }}]{% endmacro %}\nq\n{% call m(seq|length) %}\nz\n@\n{% endcall %}"]),
    ("call-block-params", ["{% macro m() %}{{ caller(1) }}{% endmacro %}\n{% call(p) m() %}\n{{ p }}\n@\n{% endcall %}"]),
    ("call-block-after-stmt", ["{% macro m() %}{{ caller() }}{% endmacro %}\n\n{% call m() %}\n{% set w = seq|length %}{{ w }}\n@\n{% endcall %}\nz"]),
    ("ns-in-include", ["a\n{% include 't1' %}", "{% set ns = namespace() %}{% set ns.q = 2 %}\n\n@\n"]),
    ("ns-in-macro", ["{% macro m() %}{% set ns = namespace() %}\n{% set ns.q = 2 %}\n@\n{% endmacro %}\n{{ m() }}"]),
    ("ns-in-child-block", ["{% extends 't1' %}\n{% block b %}{% set ns = namespace() %}\n{% set ns.q = 1 %}\n\n@\n{% endblock %}", "p\n{% block b %}{% endblock %}"]),
    ("call-in-imported-macro", ["{% from 't1' import outer %}\n{{ outer() }}", "{% macro inner() %}{{ caller() }}{% endmacro %}\n{% macro outer() %}\n{% call inner() %}\n@\n{% endcall %}{% endmacro %}"]),
    ("with-in-for-in-setblock", ["{% set cap %}{% for x in seq %}{% with y = x %}\n@\n{% endwith %}{% endfor %}{% endset %}\n{{ cap }}"]),
]
STMT_PLANTS = [
    "{% autoescape cfg.mode %}x{% endautoescape %}", "{% set f = not cfg.missing %}", "{% set f = 1 if cfg.missing %}", "{% set f = 1 if cfg.missing else 2 %}",
    "{% include cfg.mode %}", "{% include one %}", "{% include [cfg.mode, 'nope'] %}", "{% for q in one %}{% endfor %}", "{% for a, b in seq %}{% endfor %}",
    "{% set a, b = one %}", "{% for q in cfg.missing %}{% endfor %}", "{% do nofunc() %}", "{% do one // zero %}", "{% set ns.v = one // zero %}",
    "{% set ns.v = cfg.missing.x %}", "{% set nons.v = 1 %}", "{% with q = one // zero %}{% endwith %}", "{% if cfg.missing %}{% endif %}",
    "{% if not cfg.missing.deep %}{% endif %}", "{% filter nofilter %}x{% endfilter %}", "{% set q | nofilter %}x{% endset %}", "{% call nomacro() %}{% endcall %}",
    "{% from cfg.mode import x %}", "{% import cfg.mode as x %}", "{{ cfg.missing }}", "{% for q in seq if q // zero %}{% endfor %}",
]
EXPR_FAILS = [
    # chained comparisons, failing at every link position
    "one in zero == 1", "1 == one in zero", "1 < 2 in one", "1 < one in zero < 3", "0 < 1 < (one in zero)", "1 < cfg.missing < 3", "cfg.missing < 1 < 3",
    "1 < 2 < cfg.missing", "1 < 2 == cfg.missing.x", "one not in zero != 2", "1 <= one >= cfg.missing != 4", "one in zero",
    # operators
    "one + s", "s - 1", "s * s", "one / s", "one // zero", "one % zero", "s ** 2", "-s", "one ~ nofunc()", "not cfg.missing.x", "cfg.missing and 1", "zero or cfg.missing.x",
    # attribute / item access
    "seq[cfg.missing.x]", "cfg.missing.a.b", "m.a.b.c", "one.x.y", "seq[one // zero]", "seq[0:one // zero]",
    # filters, tests, calls
    "s|nofilter", "s|upper|nofilter|lower", "seq|join(1, 2, 3)", "s is notest", "nofunc()", "s.nomethod()", "range(one // zero)", "cfg.mode(1)",
    "seq|map('nofilter')|list", "s|default(one // zero)", "one is divisibleby(cfg.missing.x)",
    # literals and conditionals
    "{'a': one // zero}", "[1, one // zero][0]", "(1, cfg.missing.x)", "one if cfg.missing.x else 2", "(one // zero) if one else 2",
]
STMT_WRAPS = ["{{ # }}", "{% set v = # %}", "{% if # %}y{% endif %}", "{{ [1, #] }}", "{{ s ~ (#) }}", "{% with q = # %}{{ q }}{% endwith %}", "{{ range(#) }}",
              "{% for q in [#] %}{{ q }}{% endfor %}", "{% do # %}", "{% set ns.v = # %}", "{{ (#)|string }}", "{% autoescape # %}x{% endautoescape %}", "{% include # %}"]


# constructs whose span covers 2..10 lines: (text, offsets of the first / last line on which the root cause may be reported:
# the line on which the failing part is written)
MULTI_PLANTS = [
    ("{% include [\n 'a',\n 'b',\n 'c',\n 'd',\n 'e'\n] %}", 0, 0),
    ("{{ nofunc(\n\n\n\n\n) }}", 0, 0),
    ("{{ nofunc(\n 1,\n 2,\n 3,\n 4,\n 5,\n 6,\n 7,\n 8) }}", 0, 0),
    ("{{ m['a\nb\nc\nd\ne\nf'].x.y }}", 0, 0),
    ("{{ s\n |upper\n |nofilter\n |lower\n |trim }}", 2, 2),
    ("{{ 'multi\nline\nstring\nliteral\nhere' // zero }}", 0, 0),
    ("{{ (one +\n one +\n one +\n one //\n zero) +\n 1 }}", 0, 4),
    ("{{ seq|join(\n 1,\n 2,\n 3\n) }}", 0, 0),
    ("{{ s.nomethod(\n\n\n\n\n\n\n\n\n) }}", 0, 0),
    ("{% for q in\n\n\n\n one %}{% endfor %}", 0, 4),
    ("{% set v =\n [1,\n 2,\n one // zero,\n 4,\n 5] %}", 3, 3),
    ("{% if one and\n not (one in\n zero)\n and 2 %}{% endif %}", 1, 2),
    ("{% with a = 1,\n b = one // zero,\n c = 3\n %}{% endwith %}", 1, 1),
    ("{% call nomacro(\n 1,\n 2,\n 3,\n 4) %}\nbody\n{% endcall %}", 0, 0),
    ("{% call nomacro() %}\nbody {{ 1 }}\n{{ 2 }}\n\n{{ seq|length }}\n{% endcall %}", 0, 0),
    ("{% autoescape\n\n\n\n\n cfg.mode %}x{% endautoescape %}", 0, 5),
    ("{{ range(\n 1,\n 2,\n 3,\n 4,\n 5) }}", 0, 0),
    ("{{ {'a': 1,\n 'b': 2,\n 'c': one // zero,\n 'd': 4}\n }}", 2, 2),
    ("{% do nofunc(1,\n 2)\n\n\n %}", 0, 0),
]


def build_matrix_groups(chk):
    rng = chk.rng
    constructs = CONSTRUCTS + MORE_CONSTRUCTS
    combos = []
    for cname, tpls in constructs:
        for mp in MULTI_PLANTS:
            for um in ((0, 3) if not chk.thorough else range(4)):
                combos.append((cname, tpls, mp, um))
    # statement-level plants: the full cross product with the constructs and the undefined modes, always
    for cname, tpls in constructs:
        for pt in STMT_PLANTS:
            for um in range(4):
                combos.append((cname, tpls, pt, um))
    ex = [(cname, tpls, w.replace("#", e), um) for cname, tpls in constructs for e in EXPR_FAILS for w in STMT_WRAPS for um in range(4)]
    want = 40000 if chk.thorough else 2600
    step = max(1, len(ex) // want)
    combos += ex[rng.below(step)::step]
    groups = []
    for cname, tpls, ptext, um in combos:
        lo_off = hi_off = 0
        if isinstance(ptext, tuple):
            ptext, lo_off, hi_off = ptext
            # a failing call is reported where the call starts; for the other multi-line constructs any line from the start of
            # the enclosing expression to its end is accepted (the line must still be the line of the start of the range)
            if not any(x in ptext for x in ("nofunc(", "nomethod(", "nomacro(", "range(", "join(", "include [")):
                hi_off = ptext.count("\n")
        which = [i for i, t in enumerate(tpls) if "@" in t][0]
        t = tpls[which]
        at = t.index("@")
        pre, post = t[:at], t[at + 1:]
        pline = 1 + pre.count("\n")

        def mk(segs):
            ts = [[(1, x)] for x in tpls]
            ts[which] = segs
            return ts
        variants = [{"n": 0, "h": 0, "pb": 0, "hb": 0, "at": 0, "tpls": mk([(1, pre + ptext + post)])}]
        nl = rng.choice([1, 2, 17])
        pad = rng.choice(["x\n", "p€d é\n", "\n"])
        variants.append({"n": nl, "h": 0, "pb": nl * blen(pad), "hb": 0, "at": blen(pre), "where": "plant", "pad": pad,
                         "tpls": mk([(1, pre), (nl, pad), (1, ptext + post)])})
        if rng.chance(1, 3):
            nl = rng.choice([1, 3])
            variants.append({"n": nl, "h": 0, "pb": nl * 2, "hb": 0, "at": 0, "where": "top", "pad": "x\n", "tpls": mk([(nl, "x\n"), (1, pre + ptext + post)])})
        api = rng.choice([0, 1] + ([2, 3] if len(tpls) == 1 else []))
        groups.append({"family": "runtime", "matrix": True, "construct": cname, "plant": ptext, "which": which, "pline": pline, "pend": pline + hi_off,   # from the first line of the enclosing expression / statement to the failing part
                       "pstart": pline, "sizable": True,
                       "pkind": 0, "flags": (um << 7) | (api << 4) | (rng.choice(WS_ALL) if rng.chance(1, 4) else 0), "variants": variants})
    return groups


# ---- marker templates: every identifier is unique, so an instruction that carries one names the statement that produced it ----
MARK_STMTS = ["{{ U }}", "{{ U.attr|upper }}", "{% set U = not U.missing %}", "{% set U = 1 if U.x %}", "{% autoescape U.mode %}x{% endautoescape %}",
              "{% if U %}{{ U }}{% endif %}", "{% for U in U %}{{ U }}{% endfor %}", "{% set ns.U = U %}", "{{ U(U, k=U) }}", "{{ U is defined }}",
              "{% with U = U %}{{ U }}{% endwith %}", "{% do U(U) %}", "{{ U < U < U }}", "{{ U if U else U }}", "{% include U %}", "{{ U[U] ~ U }}",
              "{{ U|default(U) }}", "{% set U, U = U %}", "{{ not U }}", "{{ -U + U * U }}", "{{ U.U(U) }}", "{% set U = U in U == U %}"]
MARK_ENCLOSERS = [("{% call U() %}", "{% endcall %}"), ("{% call(U) U(U) %}", "{% endcall %}"), ("{% macro U(U) %}", "{% endmacro %}"), ("{% for U in U %}", "{% endfor %}"),
                  ("{% if U %}", "{% endif %}"), ("{% with U = U %}", "{% endwith %}"), ("{% set U %}", "{% endset %}"), ("{% filter upper %}", "{% endfilter %}"),
                  ("{% autoescape true %}", "{% endautoescape %}"), ("{% block U %}", "{% endblock %}")]


def build_marker_templates(chk):
    """-> [(text, {line: (lo, hi)})]: the lines within which an instruction naming an identifier of that line must be recorded"""
    rng = chk.rng
    out = []
    for _ in range(400 if chk.thorough else 60):
        counter = [0]
        lines = []       # (text, closes_index or None)
        spans = {}       # index of an opening line -> index of its closing line

        def uniq(tpl):
            while "U" in tpl:
                counter[0] += 1
                tpl = tpl.replace("U", "\0%d\0" % counter[0], 1)
            return tpl.replace("\0", "uq", 1) if False else "".join(("uq%sa" % part) if i % 2 else part for i, part in enumerate(tpl.split("\0")))

        def body(depth):
            for _ in range(1 + rng.below(3)):
                w = rng.below(10)
                if depth < 3 and w < 4:
                    op, cl = rng.choice(MARK_ENCLOSERS)
                    if op.startswith("{% block") and depth > 0:
                        op, cl = MARK_ENCLOSERS[0]
                    i = len(lines)
                    lines.append(uniq(op))
                    body(depth + 1)
                    spans[i] = len(lines)
                    lines.append(cl)
                elif w < 5:
                    lines.append(uniq("{% set ns.U = U %}"))
                else:
                    lines.append(uniq(rng.choice(MARK_STMTS)))
        body(0)
        text = "\n".join(lines)
        iv = {i + 1: (i + 1, spans.get(i, i) + 1) for i in range(len(lines))}
        out.append((text, iv))
    return out


# ---- compile errors of every kind in templates that the LOADER hands out at render time (include / extends / import / from) ----
BROKEN = [   # (text of the bad line, the error is on that line)
    ("{{ 'abc", False), ("{{ € }}", True), ("{% nope %}", True), ("{{ 1 + }}", True), ("{{ \"\\xZZ\" }}", True), ("{{ \"é\\u12\" }}", True),
    ("{% set x = '日本\\400' %}", True), ("{% endfor %}", True), ("{% for x in %}", True), ("{{ 99999999999999999999999999999999999999999 }}", True),
    ("{% macro m(a, a) %}{% endmacro %}", True), ("{% raw %}", False), ("{#", False), ("{{ 'x' 'y\\ud800' }}", True), ("{% set a.b = 1 %}", True),
    ("{% block q %}{% endblock %}{% block q %}{% endblock %}", True), ("{{ (1, }}", True), ("{{ 1_ }}", True), ("{% if x %}", False),
]
LAZY_CONSTRUCTS = [
    ("lazy-include", ["a\n{% include 't1' %}\n", "@"]),
    ("lazy-include-nested", ["a\n{% include 't1' %}\n", "\n\n{% include 't2' %}", "@"]),
    ("lazy-from-import", ["{% from 't1' import m %}\n{{ m() }}", "@"]),
    ("lazy-import-as", ["x\n{% import 't1' as lib %}", "@"]),
    ("lazy-extends", ["{% extends 't1' %}\n{% block b %}{% endblock %}", "@"]),
    ("lazy-include-in-loop", ["{% for x in seq %}\n{% include 't1' %}{% endfor %}", "@"]),
    ("lazy-include-in-macro", ["{% macro m() %}\n{% include 't1' %}{% endmacro %}\n\n{{ m() }}", "@"]),
    ("lazy-include-in-child-block", ["{% extends 't1' %}\n{% block b %}\n{% include 't2' %}{% endblock %}", "p{% block b %}{% endblock %}", "@"]),
    ("lazy-include-list", ["{% include ['nope', 't1'] %}", "@"]),
    ("lazy-include-in-call-block", ["{% macro m() %}{{ caller() }}{% endmacro %}\n{% call m() %}\n{% include 't1' %}{% endcall %}", "@"]),
]
LAZY_BODIES = ["@", "x\ny\n@\nz\n", "é€\n\n{{ 1 }} @ tail\n", "{% macro m() %}{% endmacro %}\n@"]


def build_lazy_groups(chk):
    rng = chk.rng
    groups = []
    for cname, tpls in LAZY_CONSTRUCTS:
        which = len(tpls) - 1
        for bad, on_line in BROKEN:
            for body in (LAZY_BODIES if chk.thorough else [LAZY_BODIES[0], rng.choice(LAZY_BODIES[1:])]):
                at = body.index("@")
                pre, post = body[:at], body[at + 1:]
                pline = 1 + pre.count("\n")

                def mk(segs):
                    ts = [[(1, x)] for x in tpls]
                    ts[which] = segs
                    return ts
                variants = [{"n": 0, "h": 0, "pb": 0, "hb": 0, "at": 0, "tpls": mk([(1, pre + bad + post)])}]
                nl = rng.choice([1, 2, 17])
                pad = rng.choice(["x\n", "p€d é\n", "\n"])
                variants.append({"n": nl, "h": 0, "pb": nl * blen(pad), "hb": 0, "at": 0, "where": "top", "pad": pad,
                                 "tpls": mk([(nl, pad), (1, pre + bad + post)])})
                g = {"family": "runtime", "matrix": True, "construct": cname, "plant": bad + " in " + repr(body), "which": which, "pkind": 0,
                     "flags": rng.choice(WS_ALL) if rng.chance(1, 4) else 0, "variants": variants}
                if on_line:
                    g.update({"pline": pline, "pend": pline, "pstart": pline, "sizable": True})
                else:
                    g.update({"pline": 1, "pend": 10 ** 9, "pstart": 1})      # reported where the input ends
                groups.append(g)
    return groups


# ---- the recursion limit tripping at every depth: self-importing / self-including templates, recursive macros and loops ----
REC_TPLS = [   # (templates, line of the recursive construct in t0)
    (["{% import 't0' as x %}"], 1), (["{% from 't0' import y %}"], 1), (["a\n\n{% import 't0' as x %}"], 3), (["a{{ 1 }}\n{% from 't0' import y %}"], 2),
    (["{% include 't0' %}"], 1), (["x\n{% include 't1' %}", "\n{% import 't0' as q %}"], None), (["{% macro m() %}{{ m() }}{% endmacro %}\n{{ m() }}"], None),
    (["\n{% for x in [[[[[[[[[[[[]]]]]]]]]]]] recursive %}{{ loop(x) }}\n{% endfor %}"], None),
    (["{% set ns = namespace() %}\n{% with a = 1 %}{% with b = 2 %}\n{% import 't0' as x %}{% endwith %}{% endwith %}"], None),   # (the limit may also trip on a {% with %} of line 2)
]


def build_recursion_groups(chk):
    groups = []
    for ti, (tpls, line) in enumerate(REC_TPLS):
        for limit in range(1, 61 if chk.thorough else 31):
            g = {"family": "runtime", "matrix": True, "construct": "recursion-%d" % ti, "plant": "recursion_limit=%d" % limit, "which": 0, "pkind": 0,
                 "flags": 512 | (limit << 12), "variants": [{"n": 0, "h": 0, "pb": 0, "hb": 0, "at": 0, "tpls": [[(1, x)] for x in tpls]}]}
            if line is not None:
                g.update({"pline": line, "pend": line, "pstart": line})
            groups.append(g)
    return groups


# ---- garbage inside a valid template: P + g + R with P + R valid and g a character no token starts with, planted between the
# tokens of a tag: the only legitimate error is the lexer's, at g ----
GARBAGE_BASES = BASES + BASES_MB + [
    "a\nb {{ 'x'\n\n }}", "{% if a\n == 'y'\n %}\nq{% endif %}", "{{ [1,\n 'two' ,\n 3] }}", "{{ 'a'\n 'b'\n }}é", "{% set v = \"s\"\n\n %}\n{{ v\n|upper }}",
    "{{ {'k':\n 'v'}\n['k'] }}", "x {{- 'p' ~\n 'q' -}} y\n{% for i in\n seq %}{{ i }}{% endfor %}"]


def build_garbage_groups(chk, token_spans):
    """token_spans[i] = [(kind, start_byte, end_byte)] of GARBAGE_BASES[i] (from the tokenizer run)"""
    rng = chk.rng
    groups = []
    for bi, base in enumerate(GARBAGE_BASES):
        raw = base.encode("utf8")
        offs = set()
        after_str = set()
        prev_kind = 0
        for kind, a, b in token_spans[bi]:
            if kind != 0:
                if kind not in (1, 3):   # in front of the tag start the text is still data
                    offs.add(a)
                    if prev_kind == 6:
                        after_str.add(a)
                if kind not in (2, 4):   # after the end of the tag the text is data again
                    offs.add(b)
                    if kind == 6:
                        after_str.add(b)
            prev_kind = kind
        offs = sorted(offs)
        if not chk.thorough:
            offs = [o for o in offs if rng.chance(1, 2)]
        for o in offs:
            gch = rng.choice(["?", "€", "$", "`", "\\"]) if not chk.thorough else None
            for gch in ([gch] if gch else ["?", "€", "$", "`", "\\"]):
                text = (raw[:o] + gch.encode("utf8") + raw[o:]).decode("utf8")
                line = 1 + raw[:o].count(b"\n")
                groups.append({"family": "syntax", "base": "garbage-%d" % bi, "mutation": "garbage %r at byte %d" % (gch, o), "which": 0, "flags": rng.choice([0, 0, 2, 16, 32, 48]),
                               "garbage": [line, o, o + blen(gch)], "after_string": o in after_str, "variants": [{"n": 0, "h": 0, "pb": 0, "hb": 0, "at": 0, "tpls": [[(1, text)]]}]})
    return groups


# ---- source prefixes: BOM, zero-width / format characters, NUL, CR / CRLF first lines: every range moves by the bytes of the prefix ----
SRC_PREFIXES = ["\ufeff", "\u200b", "\u2060", "a\ufeffb", "\x00", "\ufeff\ufeff", "\ufeffé", "\r\n", "\r", "\ufeff\r\n", "\u200b\r", "\n\ufeff"]


SIZES = [33 * 1024, 64 * 1024 + 1, 1024 * 1024]


def add_size_variants(chk, groups, num, den):
    """the same failing template made large: text appended after the end (nothing may change) and, in a second variant, also
    inserted above (the N-shift)"""
    rng = chk.rng
    for g in groups:
        if not g.get("sizable") or not rng.chance(num, den):
            continue
        w = g["which"]
        base = g["variants"][0]["tpls"]
        size = rng.choice(SIZES[:2]) if (not chk.thorough or rng.chance(9, 10)) else SIZES[2]
        line = rng.choice(["padding text line\n", "t€xt é\n", "{{ 1 }} {# c #}\n"])
        k = size // blen(line) + 1
        ts = [list(x) for x in base]
        ts[w] = ts[w] + [(1, "\n"), (k, line)]
        g["variants"].append({"n": 0, "h": 0, "pb": 0, "hb": 0, "at": 0, "where": "top", "size": size, "tpls": ts})
        if rng.chance(1, 2):
            nl = rng.choice([5, 700])
            ts2 = [list(x) for x in ts]
            ts2[w] = [(nl, line)] + ts2[w]
            g["variants"].append({"n": nl, "h": 0, "pb": nl * blen(line), "hb": 0, "at": 0, "where": "top", "pad": line, "size": size, "tpls": ts2})


def add_prefix_variants(chk, groups, num, den):
    rng = chk.rng
    for g in groups:
        if g["family"] not in ("syntax", "runtime") or (g.get("flags", 0) >> 12) or not rng.chance(num, den):
            continue
        w = g["which"]
        base = g["variants"][0]["tpls"]
        if text_of(base[w]) == "":
            continue
        for pfx in ([rng.choice(SRC_PREFIXES)] if not chk.thorough else [rng.choice(SRC_PREFIXES[:7]), rng.choice(SRC_PREFIXES[7:])]):
            ts = [list(x) for x in base]
            ts[w] = [(1, pfx)] + ts[w]
            n = pfx.count("\n")
            g["variants"].append({"n": n, "h": 0 if n else 1, "pb": blen(pfx) if n else 0, "hb": 0 if n else blen(pfx), "at": 0, "where": "top", "pad": pfx, "prefix": True, "tpls": ts})


def build_runtime_groups(chk):
    groups = []
    rng = chk.rng
    combos = [(cname, tpls, plant) for cname, tpls in CONSTRUCTS for plant in PLANTS] + SPECIALS
    for cname, tpls, (ptext, pkind, poff) in combos:
        which = [i for i, t in enumerate(tpls) if "@" in t][0]
        for _once in (0,):
            t = tpls[which]
            at = t.index("@")
            pre, post = t[:at], t[at + 1:]
            pline = 1 + pre.count("\n")
            variants = []

            def mk(nl, pad, where, hpad, hn, other=None, _pre=pre, _post=post, _ptext=ptext):
                """where: 'top' | 'plant' (insertion point of the N lines); hpad*hn inserted at the start of the plant line"""
                segs = []
                if where == "top":
                    segs += [(nl, pad), (1, _pre)]
                else:
                    segs += [(1, _pre), (nl, pad)]
                segs += [(hn, hpad), (1, _ptext + _post)]
                ts = [[(1, x)] for x in tpls]
                ts[which] = segs
                if other is not None:
                    oi, on, opad = other
                    ts[oi] = [(on, opad)] + ts[oi]
                return ts

            variants.append({"n": 0, "h": 0, "pb": 0, "hb": 0, "at": 0, "tpls": mk(0, "", "top", "", 0)})
            nset = [1, 2, 17, 255, 65000] if chk.thorough else [rng.choice([1, 2]), rng.choice([17, 255])]
            if not chk.thorough and rng.chance(1, 6):
                nset.append(65000)
            for nl in nset:
                pad = PADS[2] if nl == 65000 else rng.choice(PADS)
                for where in (("top", "plant") if chk.thorough or nl < 255 else (rng.choice(["top", "plant"]),)):
                    variants.append({"n": nl, "h": 0, "pb": nl * blen(pad), "hb": 0, "at": 0 if where == "top" else blen(pre),
                                     "where": where, "pad": pad, "tpls": mk(nl, pad, where, "", 0)})
            hset = [1, 7, 65533, 65536, 70000] if chk.thorough else [rng.choice([1, 7]), rng.choice([65533, 65534, 65535, 65536, 70000])]
            if not chk.thorough and not rng.chance(1, 4):
                hset = hset[:1]
            for hn in hset:
                hpad = HPADS[0] if hn > 1000 and not rng.chance(1, 4) else rng.choice(HPADS)
                if hn > 1000:
                    hpad = hpad[0]
                variants.append({"n": 0, "h": hn, "pb": 0, "hb": hn * blen(hpad), "at": blen(pre), "where": "plant", "pad": hpad,
                                 "tpls": mk(0, "", "top", hpad, hn)})
            if len(tpls) > 1 and (chk.thorough or rng.chance(1, 2)):
                oi = rng.choice([i for i in range(len(tpls)) if i != which])
                on = rng.choice([1, 3, 40])
                variants.append({"n": 0, "h": 0, "pb": 0, "hb": 0, "at": 0, "other": [oi, on, blen(PADS[0]) * on], "tpls": mk(0, "", "top", "", 0, (oi, on, PADS[0]))})
            groups.append({"family": "runtime", "construct": cname, "plant": ptext, "which": which, "pline": pline + poff, "pend": pline + ptext.count("\n"), "pstart": pline, "pkind": pkind, "sizable": True,
                           "variants": variants})
    return groups


FUEL_TPLS = [
    ["{% import 't1' as lib %}\n\n{{ lib.m() }}", "{% macro m() %}\nx{{ 1 }}\n{% endmacro %}"],
    ["{% from 't1' import m %}\n{{ m() }}", "\n{% macro m() %}\n{{ one }}\n{% endmacro %}"],
    ["a\n{% from 't1' import m as q %}{{ q() }}", "{% macro m() %}z{% endmacro %}"],
    ["{% extends 't1' %}\n{% block b %}\n{{ super() }}{{ one }}\n{% endblock %}", "p\n{% block b %}\n{{ s }}\n{% endblock %}\nq"],
    ["a\n{% include 't1' %}\nb{% include ['nope', 't1'] ignore missing %}", "x\n{{ seq|join(',') }}\n"],
    ["{% for x in seq %}\n  {{ loop.index }}{% if x == 2 %}{% continue %}{% endif %}\n{% else %}e{% endfor %}\n{% set v = [1, 2] %}{% with q = v[0] %}\n{{ q }}{% endwith %}"],
    ["{% macro m(a, b=2) %}\n{{ a }}{{ b }}{{ caller() }}\n{% endmacro %}\n{% call m(1) %}c{% endcall %}\n{% filter upper %}f{% endfilter %}{% set cap %}\nx{% endset %}{% autoescape true %}{{ s }}{% endautoescape %}\n{% do seq|length %}"],
    ["{% for x in [[1], [2]] recursive %}\n{% if x is iterable %}{{ loop(x) }}{% else %}\n{{ x }}{% endif %}{% endfor %}\n{{ {'a': 1}.a ~ (1 if one else 2) ~ seq[0:2] }}"],
]


def build_fuel_groups(chk):
    groups = []
    top = 90 if chk.thorough else 45
    for ti, tpls in enumerate(FUEL_TPLS):
        for k in range(1, top + 1):
            groups.append({"family": "fuel", "construct": "fuel-tpl-%d" % ti, "plant": "fuel=%d" % (k - 1), "which": 0, "flags": k << 12,
                           "variants": [{"n": 0, "h": 0, "pb": 0, "hb": 0, "at": 0, "tpls": [[(1, x)] for x in tpls]}]})
    return groups


WS_ALL = [0, 2, 4, 6, 8, 10, 12, 14]   # bit1 keep_trailing_newline, bit2 trim_blocks, bit3 lstrip_blocks
EOI_OPENERS = ["{#", "{# never closed", "{#-", "{% raw %}x", "{% raw -%} y", "{{ '", "{{ \"abc", "{{", "{%", "{%-", "{% if x %}", "{{ a +",
               "{% for x in seq %}\ny", "{{ (", "{{ x", "{% if x", "{{ 1 }}{% endif", "text only", "{{ one // zero }}", "{% include 'missing' %}", ""]
EOI_PREFIXES = ["", "\n", "x\n", "a\r\nb\r\n", "a\rb\r", "é€\n\n", "{{ 1 }}\n", "{% if one %}\n"]
EOI_TRAILERS = ["", "\n", "\n\n", "\r\n", "\r", "\n\r\n", " \n", "\n ", "\n\n\n"]


def build_eoi_groups(chk):
    """failing constructs at the very end of the input, after trailing newlines, in empty sources and in sources that
    consist of newlines only, under every whitespace configuration and through every template API"""
    rng = chk.rng
    groups = []
    k = 0
    for pre in EOI_PREFIXES:
        for op in EOI_OPENERS:
            for tr in EOI_TRAILERS:
                text = pre + op + tr
                if chk.thorough:
                    combos = [(ws, api) for ws in WS_ALL for api in (0, 1, 2, 3)]
                else:
                    combos = [(2, k % 4), (rng.choice(WS_ALL), rng.below(4)), (14, (k + 1) % 4)]
                    if rng.chance(1, 3):
                        combos.append((0, rng.below(4)))
                k += 1
                for ws, api in combos:
                    variants = [{"n": 0, "h": 0, "pb": 0, "hb": 0, "at": 0, "tpls": [[(1, text)]]}]
                    # (nothing is inserted above an empty text: the last inserted newline would become the
                    # trailing newline that Tokenizer::new strips)
                    if text != "" and rng.chance(1, 3):
                        nl = rng.choice([1, 2, 17])
                        pad = rng.choice(["x\n", "p€d\r\n", "\n"])
                        variants.append({"n": nl, "h": 0, "pb": nl * blen(pad), "hb": 0, "at": 0, "where": "top", "pad": pad,
                                         "tpls": [[(nl, pad), (1, text)]]})
                    groups.append({"family": "syntax", "base": "eoi", "mutation": "eoi:%r+%r+%r ws=%d api=%d" % (pre, op, tr, ws, api), "which": 0,
                                   "flags": ws | (api << 4), "variants": variants})
    return groups


BAD_ESCAPES = ["\\xZZ", "\\x1", "\\x", "\\xé1", "\\u12", "\\uZZZZ", "\\u", "\\u12é4", "\\400", "\\777", "\\ud800", "\\udc00", "\\ud800\\u0041",
               "\\ud800x", "\\ud800\\ud800", "\\"]   # the last one: the backslash escapes the closing quote -> unterminated
GOOD_ESCAPES = ["\\n", "\\x41", "\\u00e9", "\\ud83d\\udc0d", "\\101", "\\q", "\\\\", "\\'\\\""]
LIT_PREFIXES = ["", "a", "é", "€", "🐍", "日本", "aé€🐍b", "ééé", "\u0080\u07ff\u0800\uffff\U00010000"]   # 1-, 2-, 3-, 4-byte characters
LIT_SUFFIXES = ["", "z", "é€"]
LIT_CONTEXTS = ["{{ @ }}", "{% set x = @ %}", "{{ s ~ @ }}", "{{ range(1, @) }}", "{% if s == @ %}y{% endif %}", "{% include @ %}",
                "{{ {'k': @} }}", "{{ [\n 1,\n @ ] }}", "{{ @|upper }}", "{% for c in @ %}{{ c }}{% endfor %}"]
LIT_LINE_PREFIXES = ["", "line one\n", "é€ text ", "日本\n  ", "{{ 1 }}🐍 ", "a\r\n\r\n"]


def build_literal_groups(chk):
    """erroneous (and, as controls, valid) string literals: every kind of bad escape x 1/2/3/4-byte characters in front of
    the first backslash x single/multi-line literal x position of the literal, in templates and in expressions"""
    rng = chk.rng
    groups = []
    combos = []
    for esc in BAD_ESCAPES + GOOD_ESCAPES:
        for lp in LIT_PREFIXES:
            for ls in LIT_SUFFIXES:
                for q in "'\"":
                    for ml in (0, 1, 2):           # literal on one line / newline before / newline after the escape
                        for ctx in LIT_CONTEXTS + ["expr:@", "expr:s ~\n @", "expr:[1, @]"]:
                            for pre in LIT_LINE_PREFIXES:
                                combos.append((esc, lp, ls, q, ml, ctx, pre))
    want = 30000 if chk.thorough else 2200
    step = max(1, len(combos) // want)
    off = rng.below(step)
    picked = combos[off::step]
    # every bad escape with every literal prefix at least once, whatever the sampling
    for esc in BAD_ESCAPES:
        for lp in LIT_PREFIXES:
            picked.append((esc, lp, rng.choice(LIT_SUFFIXES), rng.choice("'\""), 0, rng.choice(LIT_CONTEXTS), rng.choice(LIT_LINE_PREFIXES)))
            picked.append((esc, lp, "", "\"", 0, "expr:@", ""))
    for esc, lp, ls, q, ml, ctx, pre in picked:
        body = (lp + "\n" if ml == 1 else lp) + esc + ("\n" + ls if ml == 2 else ls)
        lit = q + body + q
        is_expr = ctx.startswith("expr:")
        text = (ctx[5:] if is_expr else pre + ctx).replace("@", lit)
        variants = [{"n": 0, "h": 0, "pb": 0, "hb": 0, "at": 0, "tpls": [[(1, text)]]}]
        if rng.chance(1, 3):
            nl = rng.choice([1, 2, 17])
            pad = "\n" if is_expr else rng.choice(["x\n", "p€d é\n", "\n"])
            variants.append({"n": nl, "h": 0, "pb": nl * blen(pad), "hb": 0, "at": 0, "where": "top", "pad": pad, "tpls": [[(nl, pad), (1, text)]]})
        if rng.chance(1, 3):
            hn = rng.choice([1, 3, 7])
            hpad = " " if is_expr else rng.choice(HPADS + ["日"])
            variants.append({"n": 0, "h": hn, "pb": 0, "hb": hn * blen(hpad), "at": 0, "where": "top", "pad": hpad, "tpls": [[(hn, hpad), (1, text)]]})
        ws = rng.choice(WS_ALL) if rng.chance(1, 3) else 0
        fl = (64 | ws) if is_expr else (ws | (rng.below(4) << 4))
        groups.append({"family": "expr" if is_expr else "syntax", "base": "literal", "construct": "literal",
                       "mutation": "literal:%r in %r after %r" % (lit, ctx, pre), "plant": "literal:%r in %r" % (lit, ctx),
                       "which": 0, "flags": fl, "variants": variants})
    return groups


EXPRS = ["", " ", "\t", "\n", "\n\n ", "\r\n", "(", "1 +", "1 +\n", "a.\n", "[1,\n2", "'abc", "\"a\nb", "1 2", "€", "a b", "a[", "{", "1 if",
         "\n\n)", "x(\n1,\n", "99999999999999999999999999999999999999999", "1_", "a\r\n+\r\n", "not", "a ~", "{'a':", "a is", "a|", "é",
         # errors while evaluating
         "one // zero", "\n\none // zero", "s|nofilter", "undef.x", "seq[\n one // zero]", "nofunc()\n", "s is notest", "[1,\r\n 2,\r\n one % zero]",
         "m.a.b.c", "seq|join(1,2,3)", "s.nomethod()\n\n", "(one,\n zero,\n one // zero)", "{'k': 1 // zero}", "1 if one // zero else 2",
         "t€xt ~ 'é' ~ (one // zero)", "seq|map('nofilter')|list", "range(1, 2, 0)|list"]


def build_expr_groups(chk):
    """Environment::compile_expression + Expression::eval: empty, blank, truncated and multi-line expressions"""
    rng = chk.rng
    groups = []
    for text in EXPRS:
        for ws in (WS_ALL if chk.thorough else [0, rng.choice(WS_ALL[1:])]):
            variants = [{"n": 0, "h": 0, "pb": 0, "hb": 0, "at": 0, "tpls": [[(1, text)]]}]
            for nl in ([] if text == "" else [1, 3, 255] if chk.thorough else [rng.choice([1, 3]), 255]):
                pad = rng.choice(["\n", "\r\n", " \n"])
                variants.append({"n": nl, "h": 0, "pb": nl * blen(pad), "hb": 0, "at": 0, "where": "top", "pad": pad,
                                 "tpls": [[(nl, pad), (1, text)]]})
            hn = rng.choice([1, 7])
            variants.append({"n": 0, "h": hn, "pb": 0, "hb": hn, "at": 0, "where": "top", "pad": " ", "tpls": [[(hn, " "), (1, text)]]})
            groups.append({"family": "expr", "construct": "expression", "plant": text, "which": 0, "flags": 64 | ws, "variants": variants})
    return groups


def build_lineending_groups(chk):
    """the run-time families with \\r\\n and lone \\r line endings, through every API"""
    rng = chk.rng
    groups = []
    combos = [(cname, tpls, plant) for cname, tpls in CONSTRUCTS for plant in PLANTS] + SPECIALS
    for cname, tpls, (ptext, pkind, poff) in combos:
        which = [i for i, t in enumerate(tpls) if "@" in t][0]
        for nl in (("\r\n", "\r") if chk.thorough else (rng.choice(["\r\n", "\r\n", "\r"]),)):
            apis = [0, 1] + ([2, 3] if len(tpls) == 1 else [])
            for api in (apis if chk.thorough else [rng.choice(apis)]):
                t = tpls[which]
                at = t.index("@")
                pre = t[:at].replace("\n", nl)
                post = t[at + 1:].replace("\n", nl)
                plant = ptext.replace("\n", nl)
                # the failing part of the plant starts after `poff` line ends of the plant
                cut = 0
                for _ in range(poff):
                    cut = plant.index(nl, cut) + len(nl)
                pline = 1 + (pre + plant[:cut]).count("\n")
                base = [[(1, x.replace("\n", nl))] for x in tpls]
                base[which] = [(1, pre + plant + post)]
                variants = [{"n": 0, "h": 0, "pb": 0, "hb": 0, "at": 0, "tpls": base}]
                n = rng.choice([1, 2, 17])
                pad = "x" + nl
                padded = [list(x) for x in base]
                padded[which] = [(n, pad)] + padded[which]
                # lone \r does not end a line: the inserted text then shifts offsets only
                variants.append({"n": n if "\n" in nl else 0, "h": 0, "pb": n * blen(pad), "hb": 0, "at": 0, "where": "top", "pad": pad, "tpls": padded})
                ws = rng.choice(WS_ALL)
                groups.append({"family": "runtime", "construct": cname + (":crlf" if "\n" in nl else ":cr"), "plant": ptext, "which": which,
                               "pline": pline, "pend": 1 + (pre + plant).count("\n"), "pstart": pline, "pkind": pkind, "flags": ws | (api << 4), "variants": variants})
    return groups


def build_syntax_groups(chk):
    """failing templates from mutations; each group: base variant + top insertions"""
    rng = chk.rng
    groups = []
    allm = []
    for bi, b in enumerate(BASES + BASES_MB):
        for name, text in mutants(b):
            allm.append((bi, name, text))
    # a few hand-written ones (the defects of DESIGN §1.9 are instances of the mutation families too)
    for text in ["{{ 'abc", "{{ € }}", "{% for in seq %}x{% endfor %}", "{#", "{{", "", "\n", "{% raw %}x", "{{ 1_ }}", "{{ 1.5e }}",
                 "{{ 'a\\", "{{ 'a\\q' }}", "{{ 0x }}", "{% block a %}{% endblock %}{% block a %}{% endblock %}", "{% extends 'a' %}{% extends 'b' %}",
                 "{% endfor %}", "{% for x in seq %}", "{{ a b }}", "{% if %}", "{{ (1, }}", "{{ {1 }}", "{% macro m(a, a) %}{% endmacro %}",
                 "{% set a.b = 1 %}", "{% break %}", "{{ x[ }}", "{{ x. }}", "{{ 1 if }}", "{% call x %}{% endcall %}", "é\n€{{\n\n'x\n"]:
        allm.append((-1, "hand", text))
    if not chk.thorough:
        keep = 2600
        hand = [m for m in allm if m[0] == -1]
        rest = [m for m in allm if m[0] != -1]
        step = max(1, len(rest) // keep)
        off = rng.below(step)
        allm = hand + rest[off::step]
    for bi, name, text in allm:
        if bi != -1 and rng.chance(1, 3):
            text = rng.choice(["é ", "日本🐍é ", "€\n«» "]) + text
            name = "nonascii-prefix+" + name
        variants = [{"n": 0, "h": 0, "pb": 0, "hb": 0, "at": 0, "tpls": [[(1, text)]]}]
        if chk.thorough:
            nset = [1, 2, 17, 255] + ([65000] if rng.chance(1, 8) else [])
            hset = [rng.choice([1, 7])] + ([rng.choice([65533, 65536, 70000])] if rng.chance(1, 8) else [])
        else:
            nset = [rng.choice([1, 2, 17, 255])] + ([65000] if rng.chance(1, 40) else [])
            hset = ([rng.choice([1, 7])] if rng.chance(1, 2) else []) + ([rng.choice([65533, 65534, 65535, 65536, 70000])] if rng.chance(1, 25) else [])
        for nl in nset:
            pad = PADS[2] if nl == 65000 else rng.choice(PADS)
            variants.append({"n": nl, "h": 0, "pb": nl * blen(pad), "hb": 0, "at": 0, "where": "top", "pad": pad,
                             "tpls": [[(nl, pad), (1, text)]]})
        for hn in hset:
            hpad = " " if hn > 1000 else rng.choice(HPADS)
            variants.append({"n": 0, "h": hn, "pb": 0, "hb": hn * blen(hpad), "at": 0, "where": "top", "pad": hpad,
                             "tpls": [[(hn, hpad), (1, text)]]})
        ws = rng.choice(WS_ALL) if (chk.thorough or rng.chance(2, 5)) else 0
        api = rng.below(4) if rng.chance(1, 2) else 0
        groups.append({"family": "syntax", "base": bi, "mutation": name, "which": 0, "flags": ws | (api << 4), "variants": variants})
    return groups


def build_table_cases(chk):
    rng = chk.rng
    cases = []
    n = 3000 if chk.thorough else 400

    def rspan():
        if rng.chance(1, 8):
            return [0, 0, 0, 0, 0, 0]
        l = rng.choice([0, 1, 2, 3, 65535])
        return [l, rng.below(4), rng.below(50), min(65535, l + rng.below(2)), rng.below(4), rng.below(50)]
    for _ in range(n):
        nops = rng.below(40)
        ops = []
        for _ in range(nops):
            w = rng.below(10)
            if w < 3:
                ops += [0, 0, 0, 0, 0, 0, 0]
            elif w < 6:
                ops += [1, rng.choice([0, 1, 2, 3, 65535]), 0, 0, 0, 0, 0]
            else:
                ops += [2] + rspan()
        qs = list(range(0, nops + 3)) + [2**32 - 1]
        cases.append([2, nops] + ops + [len(qs)] + qs)
    return cases


# ----------------------------------------------------------------------------------------
# the oracle on the implementation's pipeline output
# ----------------------------------------------------------------------------------------
def loc(e):
    return (e["kind"], e["name"], e["line"], e["rtag"], e["rs"], e["re"])


def invariants(res, what):
    """property clauses that concern a single run.  Returns a list of failure strings."""
    bad = []
    if res is None:
        return ["%s: process crashed / malformed output" % what]
    for dbg, (stage, errs) in enumerate(res):
        w = "%s debug=%d" % (what, dbg)
        if stage == 9:
            bad.append(w + ": loading/rendering panicked instead of returning an error")
            continue
        for k, e in enumerate(errs):
            we = "%s error#%d(kind %s)" % (w, k, ERR_NAMES.get(e["kind"], e["kind"]))
            located = e["name"] != -1 or e["line"] != 0
            if k == 0 and (e["name"] < 0 or e["line"] < 1):
                bad.append(we + ": the returned error does not name a template and a line (name=%d line=%d)" % (e["name"], e["line"]))
            if k > 0 and (e["name"] < 0 or e["line"] < 1):
                bad.append(we + ": a cause in the chain of the returned error is not located (name=%d line=%d)" % (e["name"], e["line"]))
            if located and e["name"] >= 0 and not (1 <= e["line"] <= e["nlines"]):
                bad.append(we + ": line %d outside the %d lines of t%d" % (e["line"], e["nlines"], e["name"]))
            if e["rtag"] == 1 and e["rok"] == 0:
                bad.append(we + ": range %d..%d is not a valid slice of the source" % (e["rs"], e["re"]))
            if e["rtag"] == 1 and e["rok"] == 1 and e["lor"] > 0 and e["line"] != min(e["lor"], 65535):
                bad.append(we + ": line %d but the range starts on line %d" % (e["line"], e["lor"]))
            if e["hsrc"] == 1 and e["sok"] == 0:
                bad.append(we + ": template_source() is not the source of the named template")
            if e["fmt"] != 0:
                bad.append(we + ": formatting panicked (mask %d: 1={} 2={:#} 4={:?} 8={:#?} 16=display_debug_info)" % e["fmt"])
        if dbg == 1 and res[0][0] != 9 and stage != 9:
            if res[0][0] != stage or [loc(e) for e in res[0][1]] != [loc(e) for e in errs]:
                bad.append("%s: error location differs between debug off and on" % what)
    return bad


def check_group(g, outs):
    """outs[profile][variant index] = decoded result.  Returns list of (failure string, variant index)."""
    fails = []
    for prof in (False, True):
        pn = "release" if prof else "debug"
        for vi, v in enumerate(g["variants"]):
            for b in invariants(outs[prof][vi], pn):
                fails.append((b, vi))
    # debug build == release build
    for vi, v in enumerate(g["variants"]):
        a, b = outs[False][vi], outs[True][vi]
        if a is not None and b is not None and 9 not in (a[0][0], a[1][0], b[0][0], b[1][0]):
            if [(s, [loc(e) for e in es]) for s, es in a] != [(s, [loc(e) for e in es]) for s, es in b]:
                fails.append(("debug and release builds report different locations", vi))
    base = outs[False][0]
    if base is None or base[1][0] == 9:
        return fails
    bstage, berrs = base[1]
    # garbage between the tokens of an otherwise valid template: the error is the lexer's, at the garbage
    if "garbage" in g:
        gl, ga, gb = g["garbage"]
        if bstage != 1 or not berrs:
            fails.append(("an illegal character inside a tag produced no load error", 0))
        else:
            e = berrs[0]
            if (e["line"], e["rs"]) != (gl, ga):
                fails.append(("an illegal character planted on line %d (byte %d) of an otherwise valid template is reported on line %d (range %d..%d)"
                              % (gl, ga, e["line"], e["rs"], e["re"]), 0))
    # planted run-time error: the root cause is reported in the planted template at the planted line
    if g["family"] == "runtime" and "pline" in g:
        if bstage == 0 or not berrs:
            if not g.get("matrix"):
                fails.append(("the planted failure produced no error", 0))
        else:
            root = berrs[-1]
            # (the kind of the root cause is not part of the property: e.g. an unknown function inside a macro
            # is an InvalidOperation; only its location is checked)
            if root["name"] != g["which"] or not (g["pline"] <= root["line"] <= g.get("pend", g["pline"])):
                fails.append(("planted in t%d line %d, root cause reported in t%d line %d" % (g["which"], g["pline"], root["name"], root["line"]), 0))
    # the shift relation
    for prof in (False, True):
        for vi, v in enumerate(g["variants"][1:], 1):
            r = outs[prof][vi]
            if r is None or r[1][0] == 9:
                continue
            stage, errs = r[1]
            if stage != bstage or len(errs) != len(berrs):
                fails.append(("inserting text changed the error chain (stage %d -> %d, %d -> %d errors)" % (bstage, stage, len(berrs), len(errs)), vi))
                continue
            for k, (e0, e1) in enumerate(zip(berrs, errs)):
                exp = dict(e0)
                if "other" in v:
                    oi, on, ob = v["other"]
                    if e0["name"] == oi:
                        exp["line"] = e0["line"] + on if e0["line"] else 0
                        exp["rs"], exp["re"] = (e0["rs"] + ob, e0["re"] + ob) if e0["rtag"] else (0, 0)
                elif e0["name"] == g["which"]:
                    tot = v["pb"] + v["hb"]
                    at = v["at"]
                    if e0["rtag"]:
                        exp["rs"] = e0["rs"] + (tot if e0["rs"] >= at else 0)
                        exp["re"] = e0["re"] + (tot if e0["re"] >= at else 0)
                        moved = e0["rs"] >= at
                    else:
                        moved = e0["line"] >= g.get("pstart", 1) if v.get("where") == "plant" else True
                    if e0["line"] and moved:
                        exp["line"] = e0["line"] + v["n"]
                if loc(exp) != loc(e1):
                    fails.append(("inserting %d line(s)/%d column(s) above: error#%d expected (kind,name,line,range)=%s got %s" % (v["n"], v["h"], k, loc(exp), loc(e1)), vi))
    return fails


def describe_group(g, vi=0):
    v = g["variants"][vi]
    d = {k: g[k] for k in g if k != "variants"}
    d["variant"] = {k: v[k] for k in v if k != "tpls"}
    d["templates"] = []
    for t in v["tpls"]:
        s = text_of([(min(r, 3), x) for r, x in t])
        d["templates"].append({"segments": [(r, x if len(x) < 200 else x[:200] + "...") for r, x in t], "text_with_repeats_capped_at_3": s if len(s) < 600 else s[:600] + "..."})
    return d


# ----------------------------------------------------------------------------------------
def main():
    chk = Check("C14", "proof")
    chk.cov["trusted_base"] = TRUSTED_COMMON + [
        "Print Assumptions: every theorem of Props/C14.v closed under the global context (no axioms)",
        "core::slice::binary_search_by is modelled from its source (Rust 1.95); on the strictly increasing keys the tables hold, its result is fixed by its documented contract",
        "the scanner half of the tokenizer model counts characters where the code counts bytes (ASCII delimiters in UTF-8 only occur on character boundaries); tied to the code by the token-span correspondence",
        "parser span expansion beyond expand_span, codegen line assignment and the VM's process_err are not modelled: covered by the oracle on the implementation (planted line, line-of-range, N-shift) only",
    ]
    chk.assumptions = [
        "templates of at most 65 535 lines (u16 line counter; beyond that lines saturate, modelled and compared but outside the property)",
        "sources shorter than 4 GiB (offsets are u32)",
        "modelled: lexer.rs Tokenizer::{advance,loc,span,syntax_error} + tokenize_root/handle_start_marker/tokenize_block_or_var/eat_string/eat_identifier/eat_number(decimal) for the default syntax and whitespace configuration; parser.rs expand_span; instructions.rs add_line_record/add_with_line/add_with_span/get_line/get_span; debug.rs caret arithmetic",
        "harness built without the `unicode` feature (identifiers are ASCII), with `debug`",
    ]
    ok_models, blog = build_models("C14")
    chk.notes["t_models_s"] = round(time.time() - chk.t0, 1)
    proofs_ok = chk.run_proofs()
    chk.notes["t_proofs_s"] = round(time.time() - chk.t0, 1)
    okc, clog = cargo_build(["c14"], release=False)
    okr, clog2 = cargo_build(["c14"], release=True)
    if not (okc and okr):
        chk.violation("harness does not build against the current /repo tree", {"theorem_or_correspondence": "build of harness/src/bin/c14.rs", "log": (clog + clog2)[-1500:]}, True)
        chk.finish()
    if not ok_models:
        chk.violation("model build failed", {"theorem_or_correspondence": "coq/theories/C14/Model.v build", "log": blog[-1500:]}, True)
        chk.finish()

    if chk.replay:
        rp = json.load(open(chk.replay))["replay"]
        if "group" in rp:
            groups, tokcases, tabcases = [rp["group"]], [], []
        elif rp.get("case", [9])[0] == 1:
            groups, tokcases, tabcases = [], [rp["case"]], []
        elif rp.get("case", [9])[0] == 3:
            groups, tokcases, tabcases = [], [], []
        else:
            groups, tokcases, tabcases = [], [], [rp["case"]]
    else:
        # tokenizer pre-pass over the valid bases of the garbage family (where their tags' tokens start and end)
        pre = prun([bin_path("c14", False)], [case_tok([(1, b)]) for b in GARBAGE_BASES])
        gspans = []
        for o in pre:
            sp = []
            if o and o[0] == 0:
                for k in range(o[1]):
                    r = o[2 + 7 * k: 9 + 7 * k]
                    sp.append((r[0], r[3], r[6]))
            gspans.append(sp)
        groups = (build_syntax_groups(chk) + build_eoi_groups(chk) + build_literal_groups(chk) + build_garbage_groups(chk, gspans) + build_runtime_groups(chk)
                  + build_matrix_groups(chk) + build_lazy_groups(chk) + build_recursion_groups(chk) + build_lineending_groups(chk)
                  + build_expr_groups(chk) + build_fuel_groups(chk))
        add_size_variants(chk, [g for g in groups if isinstance(g.get("plant"), str) and "\n" in g["plant"] and g.get("sizable")], 1, 3)
        add_size_variants(chk, groups, 1, 40 if chk.thorough else 25)
        add_prefix_variants(chk, groups, 1, 2 if chk.thorough else 4)
        add_prefix_variants(chk, [g for g in groups if g.get("construct", "").startswith("lazy-")], 1, 1)
        tabcases = build_table_cases(chk)
        tokcases = None

    chk.notes["t_built_s"] = round(time.time() - chk.t0, 1)
    # ---- pipeline ----
    flat = []
    index = []
    for gi, g in enumerate(groups):
        for vi, v in enumerate(g["variants"]):
            index.append((gi, vi))
            flat.append(case_pipe(v["tpls"], g.get("flags", 0)))
    raw = {}
    for rel in (False, True):
        raw[rel] = prun([bin_path("c14", rel)], flat)
    outs = [{False: [None] * len(g["variants"]), True: [None] * len(g["variants"])} for g in groups]
    for rel in (False, True):
        for (gi, vi), o in zip(index, raw[rel]):
            outs[gi][rel][vi] = dec_pipe(o)
    hist = collections.Counter()
    nontriv = set()
    pipe_fail = []
    for gi, g in enumerate(groups):
        fails = check_group(g, outs[gi])
        base = outs[gi][False][0]
        if base and base[1][0] in (1, 2) and base[1][1]:
            e = base[1][1][-1]
            hist["%s:%s" % (g["family"], ERR_NAMES.get(e["kind"], e["kind"]))] += 1
            hist["chain_len=%d" % len(base[1][1])] += 1
            for v in g["variants"]:
                nontriv.add((g["family"], g.get("construct", g.get("base")), g.get("plant", g.get("mutation")), g.get("flags", 0), v["n"], v["h"], v.get("where"), v.get("pad")))
            fl = g.get("flags", 0)
            hist["whitespace_config=%d" % (fl & 14)] += 1
            hist["api=%s" % ("expression" if fl & 64 else ["loader", "add_template_owned", "template_from_str", "template_from_named_str"][(fl >> 4) & 3])] += 1
        elif base and base[1][0] == 0:
            hist["%s:no-error" % g["family"]] += 1
        if fails:
            pipe_fail.append((gi, fails))

    chk.notes["t_pipeline_s"] = round(time.time() - chk.t0, 1)
    # ---- tokenizer: every single-template source of the pipeline run, plus saturation cases ----
    if tokcases is None:
        tokcases = []
        seen = set()
        for g in groups:
            if g["family"] != "syntax":
                continue
            for v in g["variants"]:
                c = case_tok(v["tpls"][0], g.get("flags", 0) & 14)
                if tuple(c) not in seen:
                    seen.add(tuple(c)); tokcases.append(c)
        rng = chk.rng
        for nl in [65533, 65534, 65535, 65536, 70000]:
            for tail in ["{{ € }}", "a\n{{ x }}\n{{ 'q", "{{ x }}\n\n{#"]:
                tokcases.append(case_tok([(nl, "\n"), (1, tail)]))
                tokcases.append(case_tok([(nl, "\n"), (1, tail)], 2))
        for b in BASES + BASES_MB:
            tokcases.append(case_tok([(1, b)], 2))
    tok = {"model": prun(model_cmd("c14"), tokcases), "impl": {}}
    for rel in (False, True):
        tok["impl"][rel] = prun([bin_path("c14", rel)], tokcases)
    spec_in = []
    spec_idx = []
    for i, c in enumerate(tokcases):
        for rel in (False, True):
            o = tok["impl"][rel][i]
            if o and o[0] == 0:
                o = list(o)
                # a lexer-level error without any location (BadEscape from unescape(): the parser locates it on the
                # last consumed token, checked in the pipeline run) is not judged here
                if len(o) >= 6 and o[-6] == 1 and o[-4] == 0 and o[-3] == 0 and len(o) == 2 + 7 * o[1] + 6:
                    o = o[:-6] + [0]
                spec_in.append(c[1:] + o[1:]); spec_idx.append((i, rel))
    spec_out = prun(model_cmd("c14-spec-tok"), spec_in)
    tok_spec_fail = [(i, rel, so) for (i, rel), so in zip(spec_idx, spec_out) if so != [1]]
    tok_panic = [(i, rel) for i in range(len(tokcases)) for rel in (False, True) if tok["impl"][rel][i] and tok["impl"][rel][i][0] != 0]
    tok_mism = []
    unsupported = 0
    for i, c in enumerate(tokcases):
        if tok["model"][i] == [7] or (c[1] & 12):
            # raw blocks, floats, ... and trim_blocks / lstrip_blocks are outside the modelled fragment: these sources are
            # still checked with the spec on the implementation's own spans
            unsupported += 1
            continue
        for rel in (False, True):
            if tok["impl"][rel][i] != tok["model"][i]:
                tok_mism.append((i, rel))
    for i, c in enumerate(tokcases):
        o = tok["impl"][False][i]
        if o and o[0] == 0:
            hist["tokens:%s" % ("lexer-error" if o[2 + 7 * o[1]] == 1 else "ok")] += 1
            if o[1] > 1:
                nontriv.add(("tok",) + tuple(c[:400]))

    # ---- a pipeline syntax error is located at a lexer error or at a token span of the tokenizer ----
    tokmap = {}
    for i, c in enumerate(tokcases):
        tokmap[tuple(c)] = i
    copy_fail = []
    for gi, g in enumerate(groups):
        if g["family"] != "syntax":
            continue
        for vi, v in enumerate(g["variants"]):
            r = outs[gi][False][vi]
            i = tokmap.get(tuple(case_tok(v["tpls"][0], g.get("flags", 0) & 14)))
            if r is None or i is None or r[1][0] != 1 or not r[1][1]:
                continue
            e = r[1][1][0]
            o = tok["model"][i] if tok["model"][i] and tok["model"][i][0] == 0 and not (tokcases[i][1] & 12) else tok["impl"][False][i]
            if not o or o[0] != 0 or e["kind"] not in (4, 12) or e["rtag"] != 1:
                continue
            nt = o[1]
            cands = set()
            for k in range(nt):
                s = o[2 + 7 * k + 1: 2 + 7 * k + 7]
                cands.add((s[0], s[2], s[5]))
            t = o[2 + 7 * nt:]
            if t and t[0] == 1:
                cands.add((t[2], t[4], t[5]))
            if (e["line"], e["rs"], e["re"]) not in cands:
                copy_fail.append((gi, vi, (e["line"], e["rs"], e["re"])))

    chk.notes["t_tokenizer_s"] = round(time.time() - chk.t0, 1)
    # ---- the locations compiled into the instruction tables (mode 3): every template of the run-time groups ----
    stat_cases, stat_meta = [], []
    if not chk.replay or groups:
        seen3 = set()
        for gi, g in enumerate(groups):
            for vi, v in enumerate(g["variants"]):
                if (g["family"] == "syntax" and vi > 1) or g["family"] == "expr":
                    continue
                if v["n"] > 300 or v["h"] > 300 or "size" in v:
                    continue
                for ti, t in enumerate(v["tpls"]):
                    c = [3, g.get("flags", 0) & 14] + enc_src(t)
                    if tuple(c) in seen3:
                        continue
                    seen3.add(tuple(c)); stat_cases.append(c); stat_meta.append((gi, vi, ti))
    elif rp.get("case", [9])[0] == 3:
        stat_cases, stat_meta = [rp["case"]], [(0, 0, 0)]
    marker_iv = {}
    if not chk.replay:
        for text, iv in build_marker_templates(chk):
            marker_iv[len(stat_cases)] = iv
            stat_cases.append([3, 0] + enc_src([(1, text)])); stat_meta.append((-1, 0, 0))
    elif "marker_intervals" in rp:
        marker_iv[0] = {int(k): tuple(v) for k, v in rp["marker_intervals"].items()}
    stat = {rel: prun([bin_path("c14", rel)], stat_cases) for rel in (False, True)}
    stat_bad = []
    marker_instr = 0
    stat_instr = 0
    for i, c in enumerate(stat_cases):
        for rel in (False, True):
            o = stat[rel][i]
            if not o or o[0] == 1:
                continue
            if o[0] != 0:
                stat_bad.append((i, rel, "compiling panicked"))
                continue
            nl, n = o[1], o[2]
            if rel is False:
                stat_instr += n
            for k in range(n):
                mline, ltag, line, stag, sl, so, eo, ok = o[3 + 8 * k: 11 + 8 * k]
                # line 0 = "no line" (Error::line() maps it to None).  The BeginCapture/PushWith instructions of an
                # {% import %} that is the first statement carry it; they cannot fail, so no returned error shows it.
                if ltag == 1 and line != 0 and not (1 <= line <= nl):
                    stat_bad.append((i, rel, "instruction %d: line %d outside the %d lines of the template" % (k, line, nl))); break
                if stag == 1 and ok != 1:
                    stat_bad.append((i, rel, "instruction %d: span %d..%d (line %d) is not a valid slice starting on that line" % (k, so, eo, sl))); break
                if stag == 1 and (ltag != 1 or line != sl):
                    stat_bad.append((i, rel, "instruction %d: line %s but its span starts on line %d" % (k, line if ltag else None, sl))); break
            if i in marker_iv:
                # every instruction is recorded within the source lines of the statement that produced it: an instruction that
                # carries a unique identifier of line L lies within the lines of the statement written on line L, and so does
                # an instruction between two instructions of one single-line statement
                iv = marker_iv[i]
                recs = [o[3 + 8 * k: 11 + 8 * k] for k in range(n)]
                marked = [(k, r[0]) for k, r in enumerate(recs) if r[0] > 0]
                marker_instr += len(marked) if rel is False else 0
                for k, ml in marked:
                    lo, hi = iv.get(ml, (ml, ml))
                    if not (recs[k][1] == 1 and lo <= recs[k][2] <= hi):
                        stat_bad.append((i, rel, "instruction %d carries an identifier of the statement on line %d (lines %d..%d) but is recorded on line %s"
                                         % (k, ml, lo, hi, recs[k][2] if recs[k][1] else None))); break
                else:
                    for (k1, m1), (k2, m2) in zip(marked, marked[1:]):
                        if m1 == m2 and iv.get(m1, (m1, m1))[0] == iv.get(m1, (m1, m1))[1]:
                            badk = [k for k in range(k1 + 1, k2) if not (recs[k][1] == 1 and recs[k][2] == m1)]
                            if badk:
                                stat_bad.append((i, rel, "instruction %d lies between two instructions of the one-line statement on line %d but is recorded on line %s"
                                                 % (badk[0], m1, recs[badk[0]][2] if recs[badk[0]][1] else None))); break
        if stat[False][i] != stat[True][i]:
            stat_bad.append((i, True, "debug and release builds compile different location tables"))

    # ---- tables ----
    tab = {"model": prun(model_cmd("c14"), tabcases), "spec": prun(model_cmd("c14-spec-tab"), tabcases), "impl": {}}
    for rel in (False, True):
        tab["impl"][rel] = prun([bin_path("c14", rel)], tabcases)
    tab_bad = [(i, rel) for i in range(len(tabcases)) for rel in (False, True) if tab["impl"][rel][i] != tab["spec"][i]]
    tab_mism = [(i, rel) for i in range(len(tabcases)) for rel in (False, True) if tab["impl"][rel][i] != tab["model"][i]]
    tab_thm = [i for i in range(len(tabcases)) if tab["model"][i] != tab["spec"][i]]
    for c in tabcases:
        if c[1] >= 3:
            nontriv.add(tuple(c))
        hist["table_ops=%d" % (c[1] // 10 * 10)] += 1

    chk.notes["t_tables_s"] = round(time.time() - chk.t0, 1)
    # ---- kernel cross-check of the extraction on small cases ----
    small = [c for c in tokcases if len(c) < 160][:: max(1, len(tokcases) // 25)][:25] + [c for c in tabcases if len(c) < 200][:15]
    kern_ok, kern_n = True, 0
    if small and not chk.replay:
        kern = kernel_eval("run", small, "k_C14_run", imports="Common.Base C14.Runner")
        ext = prun(model_cmd("c14"), small)
        kern_ok = kern is not None and kern == ext
        kern_n = len(small)

    # ---- evidence ----
    nvar = len(flat)
    chk.cov["evaluations"] = nvar * 4 + len(tokcases) * 2 + len(tabcases) * 2 + len(stat_cases) * 2
    chk.cov["distinct_nontrivial"] = len(nontriv)
    chk.cov["rule"] = ("pipeline: %d groups (a failing template + its N-line / H-column insertion variants), %d variants, each loaded+rendered in a debug and a release build "
                       "with env debug off and on and every error of the cause chain formatted 5 ways; tokenizer: %d sources through implementation (2 builds), extracted model and extracted spec; "
                       "tables: %d op sequences, every index queried; the line/span compiled for every instruction of every template (lines in range, spans valid, line = span start line).  non-trivial = distinct variant of a group whose base template really fails (an error with a location was returned), "
                       "distinct tokenizer source with more than one token, distinct table sequence of >= 3 operations" % (len(groups), nvar, len(tokcases), len(tabcases)))
    chk.cov["exhaustive"] = False
    chk.cov["distribution"] = dict(hist)
    chk.cov["groups"] = {f: sum(1 for g in groups if g["family"] == f) for f in ("syntax", "runtime", "expr", "fuel")}
    chk.cov["inserted_lines_tested"] = sorted({v["n"] for g in groups for v in g["variants"]})
    chk.cov["inserted_columns_tested"] = sorted({v["h"] for g in groups for v in g["variants"]})
    chk.cov["template_sizes_tested"] = dict(collections.Counter(str(v["size"]) for g in groups for v in g["variants"] if "size" in v))
    chk.cov["tokenizer"] = {"cases": len(tokcases), "outside_modelled_fragment": unsupported, "impl_vs_model_disagreements": len(tok_mism),
                            "spec_failures_on_impl_spans": len(tok_spec_fail)}
    chk.cov["tables"] = {"cases": len(tabcases), "impl_vs_model_disagreements": len(tab_mism), "impl_vs_spec": len(tab_bad), "model_vs_spec": len(tab_thm)}
    chk.cov["compiled_tables"] = {"templates": len(stat_cases), "instructions_checked": stat_instr, "marker_templates": len(marker_iv), "instructions_naming_their_statement": marker_instr, "failures": len(stat_bad)}
    chk.cov["kernel_crosscheck"] = {"cases": kern_n, "agree": kern_ok}
    if groups:
        chk.cov["samples"] = [describe_group(groups[i], min(1, len(groups[i]["variants"]) - 1)) for i in (0, len(groups) // 2, len(groups) - 1)]

    # ---- verdicts ----
    known_fixed = 0
    # one report per class of failure (digits / quoted parts of the message dropped), at most 12
    seen_cls = collections.Counter()
    kf = chk.match_known(lambda k: k["id"] == "empty-expression-unlocated")
    kf_str = chk.match_known(lambda k: k["id"] == "lexer-error-after-string-swallowed")
    kf_imp = chk.match_known(lambda k: k["id"] == "import-first-instructions-stale-line")
    kf_call = chk.match_known(lambda k: k["id"] == "filter-reported-on-last-argument-line")
    for gi, fails in pipe_fail:
        g = groups[gi]
        blank_expr = bool(g.get("flags", 0) & 64) and text_of(g["variants"][0]["tpls"][0]).strip() == ""
        imp_rec = g.get("construct", "").startswith("recursion-") and any(("{% import" in text_of(t) or "{% from" in text_of(t)) for t in g["variants"][0]["tpls"])
        ml_call = (g.get("matrix") and isinstance(g.get("plant"), str) and "\n" in g["plant"]
                   and "|join(" in g["plant"])
        for what, vi in fails:
            if kf_call and ml_call and what.startswith("planted in t%d line %d, root cause reported in t%d line " % (g["which"], g["pline"], g["which"])):
                got = int(what.rsplit(" ", 1)[1])
                if g["pstart"] < got <= g["pstart"] + g["plant"].count("\n"):
                    chk.known_finding(kf_call["id"], "a filter with arguments on several lines is reported on the line of its last argument: %r (starts on line %d, reported on line %d)"
                                      % (g["plant"], g["pstart"], got))
                    continue
            if kf_str and g.get("after_string") and what.startswith("an illegal character planted"):
                chk.known_finding(kf_str["id"], "a lexer error right after a string literal is swallowed: %r reports the end of the input on the line of the string"
                                  % text_of(g["variants"][0]["tpls"][0]))
                continue
            if kf_imp and imp_rec and ("is not located (name=0 line=0)" in what or "does not name a template and a line (name=0 line=0)" in what
                                       or ": line 0 outside the" in what or what.startswith("planted in t0 line")):
                chk.known_finding(kf_imp["id"], "recursion limit tripping on the first instructions of an import: %r with %s reports no line / the line of the previous statement"
                                  % (text_of(g["variants"][0]["tpls"][0]), g["plant"]))
                continue
            if kf and blank_expr and ("does not name a template and a line (name=0 line=0)" in what
                                      or ": line 0 outside the" in what or ": line 0 but the range starts on line" in what
                                      or (what.startswith("inserting") and "expected (kind,name,line,range)=(4, 0, 0," in what)):
                # known finding: exactly the unlocated end-of-input error of a blank expression; anything else
                # about these inputs (invalid range, formatting panic, ...) is still a violation
                chk.known_finding(kf["id"], "compile_expression(%r): 'unexpected end of input' carries no line (Error::line() is None, range 0..0)"
                                  % text_of(g["variants"][0]["tpls"][0]))
                continue
            cls = re.sub(r"\d+|\(.*?\)", "#", what)
            if seen_cls[cls] >= 1 or len(seen_cls) >= 12:
                continue
            seen_cls[cls] += 1
            chk.violation("error location property fails: " + what,
                          {"group": g, "failing_variant": vi, "describe": describe_group(g, vi), "all_failures": [f for f, _ in fails][:8],
                           "how": "./check C14 --replay <this file>"})
    chk.cov["pipeline_groups_failing"] = len(pipe_fail)
    for i, rel, so in tok_spec_fail[:3]:
        chk.violation("a span / lexer error location produced by the tokenizer violates the property (invalid slice, wrong line or reversed)",
                      {"case": tokcases[i], "source": text_of_case(tokcases[i]), "profile": "release" if rel else "debug",
                       "implementation": tok["impl"][rel][i][:80], "spec": so, "how": "./check C14 --replay <this file>"})
    for i, rel in tok_panic[:3]:
        chk.violation("the tokenizer panicked", {"case": tokcases[i], "source": text_of_case(tokcases[i]), "profile": "release" if rel else "debug",
                                                 "implementation": tok["impl"][rel][i][:10]})
    for i, rel in tab_bad[:3]:
        chk.violation("get_line/get_span does not return the location in force for the instruction",
                      {"case": tabcases[i], "profile": "release" if rel else "debug", "implementation": tab["impl"][rel][i], "spec": tab["spec"][i]})
    for i, rel, what in stat_bad[:3]:
        chk.violation("compiled location table: " + what, {"case": stat_cases[i], "source": text_of_case(stat_cases[i]), "profile": "release" if rel else "debug",
                                                           **({"marker_intervals": marker_iv[i]} if i in marker_iv else {}),
                                                           "how": "./check C14 --replay <this file>"})
    for gi, vi, l in copy_fail[:3]:
        chk.violation("a syntax error is located at a span the tokenizer never produced", {"group": groups[gi], "failing_variant": vi, "reported": l,
                      "describe": describe_group(groups[gi], vi)})
    if not chk.violations:
        if tok_mism:
            i, rel = tok_mism[0]
            chk.violation("tokenizer model and implementation disagree", {"theorem_or_correspondence": "correspondence C14.Runner.run (mode 1) vs harness c14",
                          "case": tokcases[i][:300], "source": text_of_case(tokcases[i])[:300], "implementation": tok["impl"][rel][i][:120], "model": tok["model"][i][:120]}, True)
        if tab_mism:
            i, rel = tab_mism[0]
            chk.violation("table model and implementation disagree", {"theorem_or_correspondence": "correspondence C14.Runner.run (mode 2) vs harness c14",
                          "case": tabcases[i], "implementation": tab["impl"][rel][i], "model": tab["model"][i]}, True)
        if tab_thm:
            chk.violation("extracted table model differs from extracted spec although get_line_semantic/get_span_semantic are proved",
                          {"theorem_or_correspondence": "get_line_semantic (extraction)", "case": tabcases[tab_thm[0]]}, True)
        if not kern_ok:
            chk.violation("kernel evaluation disagrees with extracted model", {"theorem_or_correspondence": "vm_compute cross-check of extraction"}, True)
        if not proofs_ok:
            chk.violation("proof obligations of C14 do not check", {"theorem_or_correspondence": chk.proof["problems"]}, True)
    chk.finish()


def text_of_case(c):
    """decodes SRC of a mode-1 case for the replay file (repeats capped)"""
    i = 2
    nseg = c[i]; i += 1
    out = []
    for _ in range(nseg):
        rep, ln = c[i], c[i + 1]; i += 2
        out.append((rep, "".join(chr(x) for x in c[i:i + ln]))); i += ln
    return [(r, t) for r, t in out]


if __name__ == "__main__":
    main()
