#!/usr/bin/env python3
"""C15 - an environment's behaviour depends on its contents, not on its history (DESIGN.md §3 C15).

Template names are opaque strings - the universe holds spellings of each other (a, ./a, b, /b observed after every step;
//a, a/, b/../a, A, NFC/NFD, ./b, .//a used by add/get/remove/loader).
Histories over {add_template, add_template_owned (3 Cow combinations), remove_template, clear_templates,
set_loader (closures whose answers change with a clock), add/remove filter/test/global (custom names,
built-ins, user functions/filters/tests taking Kwargs, a global holding a container), clone (continue on either copy), switch, render (any of 4 contexts, into a String or a failing writer, on
this or a new thread; ok / compile-time failure / run-time failure in tojson, in filters, in assert_all_used,
in the sink / failing or panicking Serde contexts incl. #[serde(flatten)] of a Value), values that ESCAPE a render (macro, loop object, namespace, caller; via a
user function or State::lookup; on this or another thread) passed as context to later renders (this thread, a fresh
thread, a thread with earlier renders), NESTED renders (filters, tests, functions, objects'
Display / attribute lookup / methods, formatter, auto-escape callback, loader callback that render a template
themselves on the same environment, a clone, a fresh or an unrelated one, under none/html/json), the ad-hoc entry points render_named_str / render_str / template_from_named_str /
template_from_str / compile_expression(_owned) / undeclared_variables with names that collide with stored or
loader-served templates, set_trim_blocks / set_keep_trailing_newline} are run against the real engine; after EVERY step
the harness reports what every name renders in the current and in the other environment.

Verdicts (on the implementation's own output):
  A. every step's result and every observation equals what the specification (Spec.v, contents only)
     predicts;
  B. (the property as worded) every observation equals what a FRESHLY built environment holding the
     contents the specification predicts renders - the fresh environment is built and rendered by the
     real engine too;
  C. exploration: 8 threads rendering from the shared environment (thread-locals dirtied first, clones
     mutated concurrently) agree with the sequential result.
Model = implementation (correspondence) and model = spec (theorem world_refines_spec re-observed on the
extraction) are checked as well; a failing history is shrunk (steps dropped while it still fails)."""
import os, sys, collections
sys.path.insert(0, os.path.dirname(os.path.dirname(os.path.abspath(__file__))))
from vlib import *

NAMES = ["a", "./a", "b", "/b", "//a", "a/", "b/../a", "A", "\u00e9 (NFC)", "e\u0301 (NFD)", "./b", ".//a"]
REG_NAMES = [["cf", "abs", "kf", "cf3"], ["ct", "odd", "kt", "ct3"], ["cg", "range", "site", "kw"]]
REG_API = [("add_filter", "remove_filter"), ("add_test", "remove_test"), ("add_function", "remove_global")]
STEP_W = 19      # integers per step in a trace: result(2) + cur(8) + present(1) + other(8)


# ---------------------------------------------------------------------------------------------
# readable form of sources and histories (mirrors harness/src/bin/c15.rs::src_text)
MACRO_HEADS = ["{% macro hello() %}{{ 100 + q }}{% endmacro %}{{ stash(hello, 1) }}",
               "{% for i in [1, 2] %}{% if loop.first %}{{ stash(loop, 2) }}{% endif %}{% endfor %}",
               "{% set ns = namespace(v=7) %}{{ stash(ns, 3) }}",
               "{% macro m() %}{{ stash(caller, 4) }}{% endmacro %}{% call m() %}x{% endcall %}"]
ESCAPED = ["nothing", "a macro", "a loop object", "a namespace", "a caller"]
THREADS = ["", " on a fresh thread", " on a fresh thread that rendered 1 template before", " on a fresh thread that rendered 3 templates before"]


def mp(form):
    """source code of the macro page of the given form"""
    return 16 * (3 + 4 * form)


def src_text(x):
    k, p = x % 16, x // 16
    if k == 0 and p % 4 == 3:
        return MACRO_HEADS[(p // 4) % 4] + "{% if f is defined %}{{ f() }}{% else %}{{ 100 + q }}{% endif %}"
    if k == 1: return "{{ %d }}{%% bad" % p
    if k == 2: return "{{ %d }}{%% for x in [1,2] %%}{%% set y %%}a{{ 1 // 0 }}{%% endset %%}{%% endfor %%}" % p
    if k == 15: return "{%% autoescape %s %%}{{ %s }}{%% endautoescape %%}" % (["'none'", "'html'", "'json'"][(p // 3) % 3], expr_text(x))
    if k == 6: return "{%% for i in [1] %%}\\n{{ %d }}{%% endfor %%}" % p
    if k == 7: return "{%% if true %%}{{ %d }}{%% endif %%}\\n" % p
    return "{{ %s }}" % expr_text(x)


def expr_text(x):
    k, p = x % 16, x // 16
    which, v = p % 2, p // 2
    if k == 0 and p % 4 == 3: return "f() if f is defined else 100 + q"
    if k == 1: return "%d +" % p
    if k == 2: return "1 // 0"
    if k == 3: return "%d|%s" % (v, REG_NAMES[0][which])
    if k == 4: return "1 if %d is %s else 0" % (v, REG_NAMES[1][which])
    if k == 5: return "%s(%d)|length" % (REG_NAMES[2][which], v)
    if k == 8: return "(site|string)|length"
    if k == 9: return "(site|tojson)|length"
    if k == 10: return "kw(q, %d, opt=1)" % p
    if k == 11: return "q|kf(%d, opt=1)" % p
    if k == 12: return "(data|tojson)|length"
    if k == 13: return "(data|string)|length"
    if k == 14: return "1 if q is kt(opt=1) else 0"
    if k == 15: return ["site", "site.n", "site.go(1)"][p % 3]
    return "%d" % p


ADHOC = (14, 16, 17, 18, 19, 20, 21)


def describe_step(s):
    op, a, b = s
    n = NAMES[a % 12]
    an = NAMES[a] if 0 <= a < 12 else "oneoff"
    if op == 0: return 'add_template("%s", "%s")' % (n, src_text(b))
    if op == 1: return 'add_template_owned(String "%s", String "%s")' % (n, src_text(b))
    if op == 2: return 'add_template_owned(&str "%s", String "%s")' % (n, src_text(b))
    if op == 3: return 'add_template_owned(String "%s", &str "%s")' % (n, src_text(b))
    if op == 4: return 'remove_template("%s")' % n
    if op == 5: return "clear_templates()"
    if op == 6: return "set_loader(loader#%d%s)" % (a, ", rendering an inner template before it answers" if a >= 4 else "")
    if op == 23: return "set_formatter(%s)" % ("a formatter that renders an inner template first" if a % 2 else "escape_formatter")
    if op == 24: return "set_auto_escape_callback(a callback that renders an inner template first)"
    if op == 7: return "clock := %d" % a
    if op == 8:
        return 'get_template("%s").render(q=%d, f=the escaped value if any)%s%s' % (n, b % 4, " into a failing writer" if (b // 4) % 2 else "", THREADS[(b // 8) % 4])
    if op == 26:
        how = "render_captured + State::lookup(hello|ns)" if (b // 4) % 2 else "render with the stash function armed"
        return 'capture the value escaping from get_template("%s") (%s)%s' % (n, how, THREADS[b % 4])
    if op == 27:
        return "capture the value escaping from an ad-hoc render of a macro page (%s)" % ESCAPED[a % 4 + 1]
    if op in (9, 10):
        k = min(a // 4, 2)
        rn = REG_NAMES[k][a % 4]
        if rn == "site":
            what = ("container#%d" % b) if b < 4 else "object rendering an inner template (%s env, autoescape %s) in Display / .n / .go()" % (
                ["a fresh", "an unrelated"][(b - 4) % 2], ["none", "html", "json"][((b - 4) // 2) % 3])
            return ('add_global("site", %s)' % what) if op == 9 else 'remove_global("site")'
        if op == 9 and b >= 4 and a % 4 < 2:
            return '%s("%s", callable rendering an inner template on %s, autoescape %s)' % (
                REG_API[k][0], rn, ["the same environment", "a clone", "a fresh environment"][(b - 4) % 3], ["none", "html", "json"][((b - 4) // 3) % 3])
        return ('%s("%s", variant %d)' % (REG_API[k][0], rn, b)) if op == 9 else ('%s("%s")' % (REG_API[k][1], rn))
    if op == 11: return "clone; continue on the clone"
    if op == 12: return "clone; continue on the original"
    if op == 13: return "switch to the other environment"
    if op == 14: return 'render_named_str("%s", "%s")' % (an, src_text(b))
    if op == 16: return 'render_str("%s")' % src_text(b)
    if op == 17: return 'template_from_named_str("%s", "%s").render(ctx)' % (an, src_text(b))
    if op == 18: return 'template_from_str("%s").render(ctx)' % src_text(b)
    if op == 19: return 'compile_expression("%s").eval(ctx)' % expr_text(b)
    if op == 20: return 'compile_expression_owned("%s").eval(ctx)' % expr_text(b)
    if op == 21: return 'template_from_named_str("%s", "%s").undeclared_variables(true).len()' % (an, src_text(b))
    if op == 22: return "set_trim_blocks(%s); set_keep_trailing_newline(%s)" % ("true" if a % 4 & 1 else "false", "true" if a % 4 & 2 else "false")
    if op == 15:
        return 'get_template("%s").render(Serde context that %s)%s' % (n, ["errors after handing out a Value", "panics after handing out a Value",
               "flattens a map Value (cannot be converted)", "flattens a safe string (cannot be converted)"][b % 4], THREADS[(b // 4) % 4])
    return "nop"


def steps_of(case):
    return [tuple(case[2 + 3 * i: 5 + 3 * i]) for i in range((len(case) - 2) // 3)]


def case_of(steps, mode=0):
    c = [mode, len(steps)]
    for s in steps:
        c += list(s)
    return c


def describe(case):
    return [describe_step(s) for s in steps_of(case)]


# ---------------------------------------------------------------------------------------------
# generators
def rand_src(rng):
    r = rng.below(100)
    if r < 8: return mp(rng.below(4))                         # lets a macro / loop / namespace / caller escape, calls f
    if r < 22: return 16 * rng.below(40)                      # plain
    if r < 36: return 1 + 16 * rng.below(40)                  # does not compile
    if r < 44: return 2 + 16 * rng.below(40)                  # fails while rendering
    if r < 62: return 3 + rng.below(3) + 16 * rng.below(64)   # uses a filter / test / global function
    if r < 70: return 6 + rng.below(2) + 16 * rng.below(40)   # whitespace-sensitive
    if r < 80: return 8 + rng.below(2)                        # prints / serializes the global container
    if r < 90: return rng.choice([10, 10, 11, 14]) + 16 * rng.below(8)   # Kwargs function / filter / test
    if r < 96: return 12 + rng.below(2)                       # serializes / prints a container of the context
    return 15 + 16 * rng.below(9)                             # prints / asks / calls the global `site` under none/html/json


# registry slots worth touching: r = 4*kind + name
REG_SLOTS = [0, 1, 2, 4, 5, 6, 8, 9, 10, 10, 11, 11]


def rand_name(rng):
    # the four observed spellings most of the time, any of the twelve otherwise
    return rng.choice([0, 0, 0, 1, 1, 2, 3]) if rng.chance(4, 5) else rng.below(12)


def rand_step(rng, used):
    """used: sources that occurred earlier in this history (ad-hoc operations like to repeat them)"""
    def src():
        x = rng.choice(used) if used and rng.chance(1, 3) else rand_src(rng)
        used.append(x)
        return x
    r = rng.below(100)
    if r < 11: return (0, rand_name(rng), src())
    if r < 22: return (1 + rng.below(3), rand_name(rng), src())
    if r < 28: return (4, rand_name(rng), 0)
    if r < 31: return (5, 0, 0)
    if r < 38: return (6, rng.below(8), 0)
    if r < 47: return (7, rng.below(10), 0)
    if r < 55: return (8, rand_name(rng), rng.choice([0, 0, 1, 1, 2, 3, 4, 5, 8, 8, 9, 13, 16, 16, 17, 24]))
    if r < 62: return (9, rng.choice(REG_SLOTS), 1 + rng.below(3) if rng.chance(1, 2) else 4 + rng.below(9))
    if r < 66: return (10, rng.choice(REG_SLOTS), 0)
    if r < 71: return (11 + rng.below(2), 0, 0)
    if r < 76: return (13, 0, 0)
    if r < 80: return (22, rng.below(4), 0)
    if r < 82: return (23 + rng.below(2), rng.below(6), 0) if rng.chance(1, 2) else \
        ((26, rand_name(rng), rng.below(8)) if rng.chance(3, 4) else (27, rng.below(4), 0))
    if r < 96 and r >= 82:
        # ad-hoc entry points; the name collides with a stored / loader-served template 5 times out of 6
        op = rng.choice(ADHOC + (14, 14, 17))
        return (op, rng.below(6) if rng.chance(5, 6) else 99, src())
    return (15, rand_name(rng), rng.choice([0, 1, 2, 2, 3, 6, 10]))


def rand_history(rng, ln):
    used = []
    return [rand_step(rng, used) for _ in range(ln)]


def gen(chk):
    rng = chk.rng
    n_rand = 25000 if chk.thorough else 2000
    hist = []
    for _ in range(n_rand):
        ln = 1 + rng.below(40)
        hist.append(rand_history(rng, ln))
    # all histories up to a length over a reduced alphabet (one name, both tiers, failing adds, loader, clone)
    alpha = [(0, 0, 80), (0, 0, 17), (1, 0, 96), (1, 0, 33), (4, 0, 0), (5, 0, 0), (6, 1, 0), (7, 1, 0),
             (8, 0, 0), (11, 0, 0), (13, 0, 0), (9, 1, 2), (0, 0, 16 * 3 + 3),
             (14, 0, 16 * 5 + 6), (17, 0, 80), (0, 0, 16 * 5 + 6), (22, 1, 0)]
    # second family: renders that could leave traces (Kwargs call sites, containers that fail to serialize,
    # failing writers, other threads), different contexts through the same stored template
    alpha2 = [(1, 0, 10 + 16 * 5), (0, 1, 8), (0, 2, 9), (0, 3, 12), (9, 11, 1), (9, 11, 2), (9, 10, 1), (9, 10, 2),
              (8, 0, 0), (8, 0, 1), (8, 0, 9), (8, 2, 0), (8, 1, 4), (11, 0, 0)]
    # third family: nested / re-entrant renders (objects, filters, formatters that render a template themselves)
    alpha3 = [(9, 10, 6), (9, 10, 5), (1, 0, 15 + 16 * 3), (0, 1, 15), (0, 2, 15 + 16 * 5), (0, 3, 15 + 16 * 4),
              (9, 0, 7), (0, 1, 3), (8, 0, 0), (8, 0, 8), (23, 3, 0), (11, 0, 0)]
    # fourth family: values that escape a render (macro, namespace, ...) and are called in later renders on this,
    # a fresh, or a used thread
    alpha4 = [(1, 0, mp(0)), (1, 1, mp(2)), (26, 0, 1), (26, 0, 2), (26, 0, 5), (27, 0, 0), (8, 0, 8), (8, 0, 16), (8, 0, 0),
              (11, 0, 0), (4, 0, 0)]
    # fifth family: name spellings (add / remove / get / loader under "a", "./a", "//a", "a/") and Serde contexts that
    # fail to convert between healthy renders of templates that print the context's embedded values
    alpha5 = [(0, 1, 80), (1, 0, 96), (4, 1, 0), (4, 0, 0), (1, 4, 112), (4, 4, 0), (6, 1, 0), (7, 1, 0), (8, 1, 0), (8, 4, 0),
              (0, 2, 13), (0, 3, 12), (15, 2, 2), (15, 2, 0), (15, 2, 6)]
    maxlen = 4 if chk.thorough else 3
    exhaustive = []
    for al in (alpha, alpha2, alpha3, alpha4, alpha5):
        ex = [[]]
        for _ in range(maxlen):
            ex = [h + [s] for h in ex for s in al]
            exhaustive += ex
    alpha = alpha + alpha2 + alpha3 + alpha4 + alpha5
    return hist, exhaustive, alpha, maxlen


# ---------------------------------------------------------------------------------------------
# the fresh environment a step's predicted contents describe
ENV_W = 24       # integers per environment in a contents line: src[4] cfg[4] loader now regs[12] cfg escaped
INITIAL = (-1, -1, -1, -1, -1, -1, -1, -1, -1, 0) + (-1, 0, -1, -1) * 3 + (0, 0)
CFG_I = 22


def parse_contents(line, nsteps):
    """-> per step [(src[4], cfg[4], loader, now, regs[6], cfg) for cur, same or None for other]"""
    out = []
    i = 0
    for _ in range(nsteps):
        i += 2
        envs = []
        cur = line[i:i + ENV_W]; i += ENV_W
        envs.append(tuple(cur))
        present = line[i]; i += 1
        if present == 1:
            envs.append(tuple(line[i:i + ENV_W])); i += ENV_W
        else:
            envs.append(None)
        out.append(envs)
    return out


def fresh_history(cont, then=None):
    """Builds the environment the contents describe (each template is added under the configuration it
    is held with; the current configuration is set last), optionally followed by one more step."""
    tpl, tcfg, loader, now, regs, cfg = cont[0:4], cont[4:8], cont[8], cont[9], cont[10:22], cont[22]
    steps = [(7, now, 0)]
    if loader >= 0:
        steps.append((6, loader, 0))
    for r in range(12):
        initial = 0 if r % 4 == 1 else -1
        if regs[r] == initial:
            continue
        steps.append((10, r, 0) if regs[r] < 0 else (9, r, regs[r]))
    cur = 0
    for n in range(4):
        if tpl[n] >= 0:
            if tcfg[n] != cur:
                steps.append((22, tcfg[n], 0)); cur = tcfg[n]
            steps.append(((tpl[n] + n) % 4, n, tpl[n]))      # any of the four add flavours
    if cfg != cur:
        steps.append((22, cfg, 0))
    if cont[23] > 0:
        steps.append((27, cont[23] - 1, 0))   # a value of the same kind, escaped from an ad-hoc render
    if then is not None:
        steps.append(tuple(then))
    return tuple(steps)


def evaluate(hists, profiles=(False, True), want_model=True, chunk_main=None, chunk_fresh=None):
    """Runs histories through implementation, model, spec; returns dict with traces and, per history,
    the first failure of oracle A / B (or None).  chunk_*=1 runs every history / every fresh
    environment in a process of its own (no other environment was ever created in that process)."""
    cases = [case_of(h) for h in hists]
    res = {"cases": cases}
    impl = {rel: run_impl("c15", cases, release=rel, chunk=chunk_main) for rel in profiles}
    spec = run_model("C15", "c15-spec", cases)
    cont = run_model("C15", "c15-contents", cases)
    res.update(impl=impl, spec=spec)
    if want_model:
        res["model"] = run_model("C15", "c15", cases)
    # oracle B: fresh environments
    parsed = [parse_contents(cont[i], len(hists[i])) for i in range(len(hists))]
    fresh = collections.OrderedDict()
    for i, p in enumerate(parsed):
        for k, envs in enumerate(p):
            for e in envs:
                if e is not None:
                    fresh[(e, None)] = None
            if hists[i][k][0] in ADHOC:
                # oracle (b): the ad-hoc operation on a fresh environment holding the contents before it
                fresh[(p[k - 1][0] if k else INITIAL, tuple(hists[i][k]))] = None
    keys = list(fresh)
    fout = {rel: run_impl("c15", [case_of(fresh_history(e, st), mode=1) for e, st in keys], release=rel, chunk=chunk_fresh) for rel in profiles}
    fresh_obs = {rel: dict(zip(keys, fout[rel])) for rel in profiles}
    res["fresh_configs"] = len(keys)
    res["contents"] = parsed
    fails = []
    for i, h in enumerate(hists):
        f = None
        for rel in profiles:
            out = impl[rel][i]
            prof = "release" if rel else "debug"
            if out != spec[i]:
                if len(out) != len(spec[i]):
                    f = {"oracle": "A", "profile": prof, "step": None, "implementation": out[:40], "what": "implementation crashed or produced a malformed trace"}
                else:
                    k = next(j for j in range(len(out)) if out[j] != spec[i][j]) // STEP_W
                    f = {"oracle": "A", "profile": prof, "step": k, "step_text": describe_step(h[k]),
                         "implementation": out[k * STEP_W:(k + 1) * STEP_W], "specification": spec[i][k * STEP_W:(k + 1) * STEP_W],
                         "what": "after this step the implementation's result/observations differ from what the contents predict"}
                    seg = out[k * STEP_W:(k + 1) * STEP_W]
                    if any(seg[j] == 4 and seg[j + 1] == 1 for j in (0, 2, 4, 6, 8, 11, 13, 15, 17)):
                        f["what"] = "the engine PANICKED in this step's operation or in one of the renders observed after it (pair 4 1); " + f["what"]
                break
            for k in range(len(h)):
                cur = out[k * STEP_W + 2:k * STEP_W + 10]
                oth = out[k * STEP_W + 11:k * STEP_W + 19]
                if h[k][0] in ADHOC:
                    before = parsed[i][k - 1][0] if k else INITIAL
                    want = fresh_obs[rel][(before, tuple(h[k]))][0:2]
                    if out[k * STEP_W:k * STEP_W + 2] != want:
                        f = {"oracle": "B", "profile": prof, "step": k, "step_text": describe_step(h[k]),
                             "implementation": out[k * STEP_W:k * STEP_W + 2], "fresh_environment_gives": want,
                             "fresh_environment_built_by": [describe_step(s) for s in fresh_history(before)],
                             "what": "the ad-hoc operation's own result differs from what a freshly built environment with the same contents and configuration gives for that source"}
                        break
                for which, obs, e in (("current", cur, parsed[i][k][0]), ("other", oth, parsed[i][k][1])):
                    if e is None:
                        continue
                    if fresh_obs[rel][(e, None)][2:10] != obs:
                        f = {"oracle": "B", "profile": prof, "step": k, "step_text": describe_step(h[k]), "environment": which,
                             "implementation": obs, "fresh_environment_renders": fresh_obs[rel][(e, None)][2:10],
                             "fresh_environment_built_by": [describe_step(s) for s in fresh_history(e)],
                             "what": "after this step the environment renders differently from a freshly built environment with the same contents"}
                        break
                if f: break
            if f: break
        fails.append(f)
    res["fails"] = fails
    return res


def shrink(h):
    """Drops steps while the history still fails an oracle (every candidate in a process of its own)."""
    cur = list(h)
    while True:
        cands = [cur[:i] + cur[i + 1:] for i in range(len(cur))]
        cands = [c for c in cands if c]
        if not cands:
            return cur
        r = evaluate(cands, want_model=False, chunk_main=1)
        nxt = next((c for c, f in zip(cands, r["fails"]) if f), None)
        if nxt is None:
            return cur
        cur = nxt


def minimize(seq, still_fails):
    """Greedy chunk removal (halves, quarters, ... single items) while still_fails(seq) holds."""
    n = 2
    while seq:
        chunk = -(-len(seq) // n)
        removed = False
        for s in range(0, len(seq), chunk):
            cand = seq[:s] + seq[s + chunk:]
            if still_fails(cand):
                seq, n, removed = cand, max(n - 1, 2), True
                break
        if not removed:
            if chunk == 1:
                break
            n = min(n * 2, len(seq))
    return seq


def shrink_batch(pre, target):
    """The target history fails only after other histories ran in the same process (process-global
    state): drops whole histories from the prefix, then steps of the remaining ones, while the target
    still fails."""
    def fails(pfx):
        return evaluate([h for h in pfx if h] + [target], want_model=False, chunk_fresh=1)["fails"][-1]
    pre = minimize(list(pre), fails)
    for j in range(len(pre)):
        pre[j] = minimize(list(pre[j]), lambda hj: fails(pre[:j] + [hj] + pre[j + 1:]))
    return [h for h in pre if h]


def main():
    chk = Check("C15", "proof")
    chk.cov["trusted_base"] = TRUSTED_COMMON + [
        "Print Assumptions: all theorems of Props/C15.v closed under the global context (no axioms)",
        "memo-map 0.3.3 (MemoMap: Mutex<HashMap>) and std::sync::Arc::make_mut are modelled, not verified: association lists with insert-or-replace; a heap of reference-counted cells",
        "the concrete instance of compile/loader/render used for the correspondence (Runner.v c_compile/c_loader/c_render and c15.rs src_text/loader_fn/closure variants) is glue"]
    chk.assumptions = [
        "compile, the loader closures and render are deterministic functions (of source; of closure, clock, name; of compiled template and registry contents) - the theorems assume nothing else; that the ENGINE has no further hidden state is what the correspondence and the fresh-environment oracle test, on the histories run",
        "the alphabet is the property's: configuration setters (set_trim_blocks, set_syntax, ...) are outside it - they are documented to affect only templates loaded later",
        "modelled: loader.rs LoaderStore::{insert_cow both arms, remove, clear, get, set_loader}, MemoMap::{replace, remove, clear, get_or_try_insert, clone}, environment.rs add_/remove_ filter/test/global via Arc::make_mut, derive(Clone), defaults.rs process-wide registry Arcs",
        "thread-safety (oracle C) is exploration: schedules are whatever the OS produced on this run"]
    ok_models, blog = build_models("C15")
    proofs_ok = chk.run_proofs()
    okc, clog = cargo_build(["c15", "c15_mt"], release=False)
    okr, clog2 = cargo_build(["c15", "c15_mt"], release=True)
    if not (okc and okr):
        chk.violation("harness does not build against the current /repo tree", {"theorem_or_correspondence": "build of harness/src/bin/c15.rs", "log": (clog + clog2)[-1500:]}, True)
        chk.finish()
    if not ok_models:
        chk.violation("model build failed", {"theorem_or_correspondence": "coq/theories/C15/Runner.v build", "log": blog[-1500:]}, True)
        chk.finish()
    if chk.replay:
        rp = json.load(open(chk.replay))
        if "batch" in rp["replay"]:
            hists = [[tuple(s) for s in h] for h in rp["replay"]["batch"]]
        else:
            hists = [[tuple(s) for s in rp["replay"]["history"]]]
        n_rand, alpha, maxlen = 0, [], 0
    else:
        rnd, exh, alpha, maxlen = gen(chk)
        hists = rnd + exh
        n_rand = len(rnd)
    cases = [case_of(h) for h in hists]
    r = evaluate(hists)
    # correspondence model vs implementation, theorem re-observed, kernel cross-check of the extraction
    mism = [(i, rel) for i in range(len(hists)) for rel in (False, True) if r["impl"][rel][i] != r["model"][i]]
    model_vs_spec = [i for i in range(len(hists)) if r["model"][i] != r["spec"][i]]
    step = max(1, len(cases) // 30)
    idx = [i for i in range(0, len(cases), step) if len(cases[i]) <= 2 + 3 * 25][:30]
    kern = kernel_eval("run", [cases[i] for i in idx], "k_C15_run", imports="Common.Base C15.Runner")
    kernel_ok = kern is not None and all(j < len(kern) and kern[j] == r["model"][i] for j, i in enumerate(idx))
    # was the implementation the code before the fix?  (diagnosis only)
    old_match = None
    if mism:
        old = run_model("C15", "c15-old", cases)
        old_match = all(r["impl"][rel][i] == old[i] for i, rel in mism)
    # oracle C: concurrency exploration
    n_mt = 0 if chk.replay else (4000 if chk.thorough else 150)
    mt_idx = list(range(0, n_rand, max(1, n_rand // max(1, n_mt))))[:n_mt] if n_mt else ([0] if chk.replay else [])
    mt_cases = [cases[i] for i in mt_idx]
    mt_bad = []
    if mt_cases:
        # reference = the implementation's own sequential observation (first group); agreement of that
        # with the specification is oracle A's business
        for rel in (False, True):
            out = run_impl("c15_mt", mt_cases, release=rel)
            for j, o in enumerate(out):
                groups = {tuple(o[k:k + 8]) for k in range(0, len(o), 8)}
                if len(o) != 8 * (2 + 8 * 3) or len(groups) != 1:
                    mt_bad.append((mt_idx[j], "release" if rel else "debug", sorted(groups, key=str)[:4], o[:8]))
    # ---- coverage ----
    hist_ops = collections.Counter()
    lens = collections.Counter()
    events = collections.Counter()
    nontriv = set()
    for i, h in enumerate(hists):
        lens["len<=3" if len(h) <= 3 else "len<=10" if len(h) <= 10 else "len<=20" if len(h) <= 20 else "len<=40"] += 1
        sp = r["spec"][i]
        vecs = set()
        failed = False
        held = False
        for k, s in enumerate(h):
            hist_ops[describe_step(s).split("(")[0].split(";")[0].split(" :=")[0]] += 1
            line = sp[k * STEP_W:(k + 1) * STEP_W]
            vecs.add(tuple(line[2:10]))
            if line[0] == 1:
                failed = True
                if s[0] in (0, 1, 2, 3) and k > 0 and s[1] < 4 and sp[(k - 1) * STEP_W + 2 + 2 * (s[1] % 4)] == 0:
                    held = True
            if line[10] == 1 and line[11:19] != line[2:10]:
                events["steps where clone and original render differently"] += 1
            cont = r["contents"][i][k][0]
            if s[0] in (8, 15) and k > 0 and s[1] < 4 and cont[s[1] % 4] >= 0 and r["contents"][i][k - 1][0][s[1] % 4] < 0:
                events["renders that obtained a source from the loader and pinned it"] += 1
            if s[0] == 9 and s[2] >= 4 and (s[1] % 4 < 2 or s[1] == 10):
                events["registered callables/objects that render a template themselves (nested renders)"] += 1
            if s[0] in (0, 1, 2, 3) and s[2] % 16 == 15 and line[0] == 2:
                events["templates printing/asking/calling the global object under none/html/json added"] += 1
            if s[0] in (23, 24) or (s[0] == 6 and s[1] >= 4):
                events["formatter / auto-escape callback / loader that renders a template itself installed"] += 1
            if s[0] in (0, 1, 2, 3, 4, 8, 15, 26) and s[1] >= 4:
                events["operations on further name spellings (//a, a/, b/../a, A, NFC/NFD, ./b, .//a)"] += 1
            if s[0] == 15 and line[0] == 1 and line[1] != 5:
                events["renders whose Serde context failed to convert (custom error / flatten)"] += 1
            if s[0] in (26, 27) and line[0] == 6:
                events["captures: a macro / loop object / namespace / caller escaped from a render"] += 1
                if s[0] == 26 and s[2] % 4: events["... captured on a thread of its own"] += 1
            if s[0] == 8 and cont[23] > 0:
                events["renders with an escaped value in the context"] += 1
                if (s[2] // 8) % 4: events["... on a fresh or used thread"] += 1
            if s[0] == 8:
                if (s[2] // 4) % 2: events["renders into a failing writer"] += 1
                if (s[2] // 8) % 2: events["renders on a thread of their own"] += 1
                if s[2] % 4: events["renders with a context other than the observation's (q != 0)"] += 1
                if line[0] == 1 and line[1] == 6: events["renders failing in assert_all_used of a Kwargs function/filter/test"] += 1
                if line[0] == 1 and line[1] == 19: events["renders failing in the sink"] += 1
            if s[0] in (8, 14, 16, 17, 18, 19, 20) and line[0] == 1 and line[1] == 3:
                events["renders failing at run time (InvalidOperation: 1 // 0, tojson of a non-string key)"] += 1
            if s[0] in ADHOC:
                events["ad-hoc operations (render_named_str, render_str, template_from_*, compile_expression*, undeclared_variables)"] += 1
                before = r["contents"][i][k - 1][0] if k else INITIAL
                if 0 <= s[1] < 4 and s[0] in (14, 17, 21):
                    if before[s[1]] >= 0:
                        events["ad-hoc operations named like a stored template"] += 1
                        if before[s[1]] == s[2]:
                            events["... with the very same source"] += 1
                            if before[4 + s[1]] != before[CFG_I]:
                                events["... stored under a configuration that has changed since"] += 1
                    elif before[8] >= 0:
                        events["ad-hoc operations named like a template only the loader could serve"] += 1
            if s[0] == 22 and k > 0 and r["contents"][i][k - 1][0][CFG_I] != s[1] % 4 and any(x >= 0 for x in cont[0:4]):
                events["configuration changes while templates are held"] += 1
            if s[0] == 7 and cont[8] >= 0 and k > 0 and r["contents"][i][k - 1][0][9] != s[1] and any(x >= 0 for x in cont[0:4]):
                events["clock changes while a loader is set and templates are held"] += 1
        if held:
            events["histories with a failing add onto a name that currently renders"] += 1
        if len(vecs) >= 3 and failed:
            nontriv.add(tuple(h))
    chk.cov["evaluations"] = len(hists) * 2 + r["fresh_configs"] * 2 + len(mt_cases) * 2
    chk.cov["distinct_nontrivial"] = len(nontriv)
    chk.cov["rule"] = ("%d seeded random histories (1..40 steps over the whole alphabet, 4 template names, 4 loaders, clock 0..9, 6 registry names) + all %d histories "
                       "of length <= %d over a reduced alphabet of %d steps; each history runs in a debug and a release build with an observation of every name in "
                       "both environments after every step; every distinct predicted contents (%d) is additionally built as a fresh environment and rendered; "
                       "%d histories continue with the 8-thread exploration.  evaluations = engine runs (histories + fresh environments + concurrent runs, x2 profiles). "
                       "non-trivial = distinct history during which the current environment showed >= 3 different observation vectors and at least one operation failed"
                       % (n_rand, len(hists) - n_rand, maxlen, len(alpha), r["fresh_configs"], len(mt_cases)))
    chk.cov["exhaustive"] = False
    chk.cov["exhaustive_subspace_histories"] = len(hists) - n_rand
    chk.cov["samples"] = [describe(cases[i]) for i in sorted({0, min(len(cases) - 1, 7), len(cases) // 2, len(cases) - 1})]
    chk.cov["distribution"] = {"history_length": dict(lens), "operations": dict(hist_ops), "events": dict(events),
                               "observation_comparisons": sum(len(h) for h in hists) * 2 * 2}
    chk.cov["fresh_environments_built"] = r["fresh_configs"]
    chk.cov["model_vs_spec_disagreements"] = len(model_vs_spec)
    chk.cov["impl_vs_model_disagreements"] = len(mism)
    chk.cov["kernel_crosscheck"] = {"cases": len(idx), "agree": bool(kernel_ok)}
    chk.cov["concurrency_exploration"] = {"level": "exploration (not proof): OS-chosen schedules of 8 threads x 3 rounds on a shared environment, thread-locals dirtied first, clones mutated concurrently",
                                          "runs": len(mt_cases) * 2, "disagreements": len(mt_bad)}
    # ---- verdicts ----
    failing = [(i, f) for i, f in enumerate(r["fails"]) if f]
    chk.cov["failing_histories"] = len(failing)
    seen = set()
    # prefer failures that show up when the history runs alone in a process of its own
    cand = sorted(failing, key=lambda t: len(hists[t[0]]))[:3000]
    alone_res = evaluate([hists[i] for i, _ in cand], profiles=(False,), want_model=False, chunk_main=1)["fails"] if cand else []
    # (the fresh environments of this pass share a process, so its oracle-B verdicts come second)
    alone_idx = [(i, f) for (i, f), a in zip(cand, alone_res) if a and a["oracle"] == "A"] + \
                [(i, f) for (i, f), a in zip(cand, alone_res) if a and a["oracle"] != "A"]
    for i, f in alone_idx[:40]:
        alone = evaluate([hists[i]], want_model=False, chunk_main=1, chunk_fresh=1)["fails"][0]
        if not alone:
            continue
        small = shrink(hists[i])
        f2 = evaluate([small], want_model=False, chunk_main=1, chunk_fresh=1)["fails"][0]
        if not f2:
            small, f2 = hists[i], alone
        if tuple(small) in seen:
            continue
        seen.add(tuple(small))
        chk.violation("environment behaviour depends on its history", {
            "history": [list(s) for s in small], "describe": [describe_step(s) for s in small], "failure": f2,
            "shrunk_from_steps": len(hists[i]), "how": "./check C15 --replay <this file>"})
        if len(seen) >= 3:
            break
    if not seen and cand:
        # no failing history fails alone: it needs other environments created earlier in the same process
        i, f = cand[0]
        lo = max(0, i - 60)
        pre = hists[lo:i] if evaluate(hists[lo:i] + [hists[i]], want_model=False, chunk_fresh=1)["fails"][-1] else hists[:i]
        pre = shrink_batch(pre, hists[i])
        f2 = evaluate(pre + [hists[i]], want_model=False, chunk_fresh=1)["fails"][-1] or f
        chk.violation("an environment's behaviour depends on OTHER environments created earlier in the same process (process-global state)", {
            "batch": [[list(s) for s in h] for h in pre + [hists[i]]],
            "describe": [[describe_step(s) for s in h] for h in pre + [hists[i]]], "failure_in_last_history": f2,
            "note": "each history runs on its own new Environment, one after the other in one process; the last one fails only in this company",
            "how": "./check C15 --replay <this file>"})
    for i, prof, groups, final in mt_bad[:2]:
        chk.violation("concurrent renders from a shared environment disagree with the sequential result (exploration; schedule-dependent)", {
            "history": [list(s) for s in hists[i]], "describe": describe(cases[i]), "profile": prof, "observed_groups": groups, "sequential": final,
            "how": "./check C15 --replay <this file> (re-runs the 8-thread exploration on this history)"})
    if not failing and not mt_bad:
        if mism:
            i, rel = mism[0]
            chk.violation("model and implementation disagree", {"theorem_or_correspondence": "correspondence Runner.run vs harness c15",
                          "history": [list(s) for s in hists[i]], "implementation": r["impl"][rel][i][:60], "model": r["model"][i][:60],
                          "implementation_matches_model_of_unfixed_code": old_match}, True)
        if model_vs_spec:
            i = model_vs_spec[0]
            chk.violation("extracted model differs from extracted spec although world_refines_spec is proved", {"theorem_or_correspondence": "world_refines_spec (extraction)", "history": [list(s) for s in hists[i]]}, True)
        if not kernel_ok:
            chk.violation("kernel evaluation disagrees with extracted model", {"theorem_or_correspondence": "vm_compute cross-check of extraction"}, True)
        if not proofs_ok:
            chk.violation("proof obligations of C15 do not check", {"theorem_or_correspondence": chk.proof["problems"]}, True)
    elif old_match:
        chk.notes["diagnosis"] = "every disagreement with the model is reproduced by the model of loader.rs before the fix (insert_cow evicts the other tier before compiling)"
    chk.finish()


if __name__ == "__main__":
    main()
