#!/usr/bin/env python3
"""C16 - Serde round-trip through Value; tojson / JSON auto-escape valid and HTML-safe (DESIGN.md §3 C16).

One case = `tid L sty.. sval..`: the index of a Rust type of harness/src/bin/c16.rs, its type descriptor
(for the Coq model) and a value of that type in the serde data model (prefix form, see c16.rs).
The harness builds the typed Rust value x from the tokens with serde itself, and reports
  shape(Value::from(Serde(&x))), T::deserialize(value) and T::deserialize(&value) re-recorded as tokens,
  `{{ v|tojson }}`, `{{ v|tojson(indent=2) }}` and `{{ v }}` in a template called *.json.
The Coq model (C16/Model.v: ser, de, json_postprocess, json_quote) computes shape, round trip and, for
string values, the tojson text.  The oracle (this file + C16/Spec.v) is evaluated on the implementation's
own answers: round trip = identity on round-trippable types, embedded values come back identical, all
three JSON texts parse with Python's json module to the value expected from the shape, tojson has no < > & '.
"""
import os, sys, json, struct, collections, hashlib
sys.path.insert(0, os.path.dirname(os.path.dirname(os.path.abspath(__file__))))
from vlib import *

# ------------------------------------------------------------------------------------------
# type descriptors (index in TYPES = tid of harness/src/bin/c16.rs::dispatch)
# ------------------------------------------------------------------------------------------
UNIT, BOOL, F64, F32, CHAR, STR, BYTES, USTRUCT, VALUE = ('unit',), ('bool',), ('f64',), ('f32',), ('char',), ('str',), ('bytes',), ('unitstruct',), ('value',)
def I(w): return ('int', w)
def U(w): return ('uint', w)
def OPT(t): return ('option', t)
def SEQ(t): return ('seq', t)
def NEW(t): return ('newtype', t)
def TUP(*ts): return ('tuple', list(ts))
def TSTRUCT(*ts): return ('tuplestruct', list(ts))
def MAP(k, v): return ('map', k, v)
def STRUCT(*fs): return ('struct', list(fs))
def ENUM(*vs): return ('enum', list(vs))
def REF(n): return ('ref', n)
I64, U64 = I(64), U(64)

PRIMS = STRUCT(('b', BOOL), ('i8_', I(8)), ('i16_', I(16)), ('i32_', I(32)), ('i64_', I64), ('u8_', U(8)), ('u16_', U(16)),
               ('u32_', U(32)), ('u64_', U64), ('c', CHAR), ('s', STR))
FLOATS = STRUCT(('f', F64), ('g', F32), ('l', SEQ(F64)))
OPTS = STRUCT(('a', OPT(I64)), ('b', OPT(STR)), ('c', OPT(SEQ(I64))), ('d', OPT(BOOL)))
NEWI, NEWS, TUPS = NEW(I64), NEW(STR), TSTRUCT(I64, STR)
EMPTYS, EMPTYT = STRUCT(), TSTRUCT()
COLOR = ENUM(('Red', 'unit', None), ('Green', 'unit', None), ('<blue>', 'unit', None))
SHAPE = ENUM(('Unit', 'unit', None), ('Other', 'unit', None), ('New', 'new', I64), ('NewOpt', 'new', OPT(I64)), ('NewStr', 'new', STR),
             ('NewUnit', 'new', UNIT), ('Tup', 'tuple', [I64, STR]), ('Tup0', 'tuple', []), ('Struct', 'struct', [('a', I64), ('b', STR)]),
             ('Struct0', 'struct', []), ('Seq', 'new', SEQ(I64)))
DEEP = ENUM(('A', 'new', SHAPE), ('B', 'new', SEQ(SHAPE)), ('C', 'struct', [('s', SHAPE), ('o', OPT(SHAPE)), ('zz', COLOR), ('aa', I64)]),
            ('D', 'tuple', [SHAPE, COLOR]), ('E', 'new', OPT(REF('Deep'))), ('F', 'unit', None))
INNER = STRUCT(('n', NEWI), ('t', TUPS), ('u', USTRUCT), ('k', COLOR))
OUTER = STRUCT(('shapes', SEQ(SHAPE)), ('m', MAP(STR, SEQ(OPT(SHAPE)))), ('t', TUP(NEWI, TUPS, BOOL)), ('o', OPT(INNER)), ('by', BYTES))
WIDE = STRUCT(('a', I(128)), ('b', U(128)))
KEY2 = TSTRUCT(I64, STR)
TREE = ENUM(('Leaf', 'new', I64), ('Node', 'new', SEQ(REF('Tree'))), ('Pair', 'struct', [('l', REF('Tree')), ('r', REF('Tree'))]), ('Nil', 'unit', None))
WITHVAL = STRUCT(('a', I64), ('v', VALUE), ('l', SEQ(VALUE)))
ENUMVAL = ENUM(('N', 'new', VALUE), ('S', 'struct', [('v', VALUE), ('w', VALUE)]), ('T', 'tuple', [VALUE, I64]), ('O', 'new', OPT(VALUE)))
NAMED = {'Deep': DEEP, 'Tree': TREE}

TYPES = {
    0: ('Prims', PRIMS), 1: ('Floats', FLOATS), 2: ('Opts', OPTS), 3: ('()', UNIT), 4: ('UnitS', USTRUCT), 5: ('NewI(i64)', NEWI),
    6: ('NewS(String)', NEWS), 7: ('TupS(i64,String)', TUPS), 8: ('EmptyS{}', EMPTYS), 9: ('EmptyT()', EMPTYT), 10: ('Color', COLOR),
    11: ('Shape', SHAPE), 12: ('Deep', DEEP), 13: ('Outer', OUTER), 14: ('Wide{i128,u128}', WIDE), 15: ('Vec<i64>', SEQ(I64)),
    16: ('Vec<String>', SEQ(STR)), 17: ('(i64,String,bool)', TUP(I64, STR, BOOL)), 18: ('BTreeMap<String,i64>', MAP(STR, I64)),
    19: ('BTreeMap<i64,String>', MAP(I64, STR)), 20: ('BTreeMap<u64,bool>', MAP(U64, BOOL)), 21: ('BTreeMap<bool,i64>', MAP(BOOL, I64)),
    22: ('BTreeMap<char,String>', MAP(CHAR, STR)), 23: ('BTreeMap<Color,Vec<i64>>', MAP(COLOR, SEQ(I64))), 24: ('BTreeMap<Key2,i64>', MAP(KEY2, I64)),
    25: ('Option<Shape>', OPT(SHAPE)), 26: ('Vec<Option<i64>>', SEQ(OPT(I64))), 27: ('Option<Option<i64>>', OPT(OPT(I64))),
    28: ('Option<()>', OPT(UNIT)), 29: ('Option<UnitS>', OPT(USTRUCT)), 30: ('Option<NewOptW(Option<i64>)>', OPT(NEW(OPT(I64)))),
    31: ('String', STR), 32: ('char', CHAR), 33: ('bool', BOOL), 34: ('i64', I64), 35: ('u64', U64), 36: ('f64', F64), 37: ('f32', F32),
    38: ('Bytes', BYTES), 39: ('Vec<Vec<i64>>', SEQ(SEQ(I64))), 40: ('Vec<(i64,Color)>', SEQ(TUP(I64, COLOR))), 41: ('Tree', TREE),
    42: ('Inner', INNER), 43: ('Option<String>', OPT(STR)), 44: ('Option<Vec<Option<String>>>', OPT(SEQ(OPT(STR)))),
    45: ('BTreeMap<String,Option<Shape>>', MAP(STR, OPT(SHAPE))), 46: ('i8', I(8)), 47: ('u8', U(8)), 48: ('i32', I(32)), 49: ('u16', U(16)),
    100: ('WithVal', WITHVAL), 101: ('EnumVal', ENUMVAL), 102: ('Vec<Value>', SEQ(VALUE)), 103: ('BTreeMap<String,Value>', MAP(STR, VALUE)),
    104: ('Value', VALUE), 105: ('(Value,Option<Value>)', TUP(VALUE, OPT(VALUE))),
}
STRING_TID = 31
REC_BUDGET = 3
NPOOL = 10   # embedded template values of c16.rs::POOL


def enc_str(s):
    cps = [ord(c) for c in s] if isinstance(s, str) else list(s)
    return [len(cps)] + cps


def enc_sty(t, rb=REC_BUDGET):
    k = t[0]
    if k == 'unit': return [0]
    if k == 'bool': return [1]
    if k == 'int': return [2, t[1]]
    if k == 'uint': return [3, t[1]]
    if k == 'f64': return [4]
    if k == 'f32': return [5]
    if k == 'char': return [6]
    if k == 'str': return [7]
    if k == 'bytes': return [8]
    if k == 'option': return [10] + enc_sty(t[1], rb)
    if k == 'unitstruct': return [11]
    if k == 'newtype': return [13] + enc_sty(t[1], rb)
    if k == 'seq': return [15] + enc_sty(t[1], rb)
    if k in ('tuple', 'tuplestruct'):
        out = [16 if k == 'tuple' else 17, len(t[1])]
        for x in t[1]: out += enc_sty(x, rb)
        return out
    if k == 'map': return [19] + enc_sty(t[1], rb) + enc_sty(t[2], rb)
    if k == 'struct':
        out = [20, len(t[1])]
        for n, x in t[1]: out += enc_str(n) + enc_sty(x, rb)
        return out
    if k == 'enum':
        out = [30, len(t[1])]
        for n, vk, p in t[1]:
            out += enc_str(n)
            if vk == 'unit': out += [0]
            elif vk == 'new': out += [1] + enc_sty(p, rb)
            elif vk == 'tuple':
                out += [2, len(p)]
                for x in p: out += enc_sty(x, rb)
            else:
                out += [3, len(p)]
                for fn, x in p: out += enc_str(fn) + enc_sty(x, rb)
        return out
    if k == 'value': return [22]
    if k == 'ref':
        return [30, 0] if rb == 0 else enc_sty(NAMED[t[1]], rb - 1)
    raise ValueError(t)


def nullable(t):
    """can a value of this type serialise to `none`?"""
    k = t[0]
    if k in ('unit', 'unitstruct', 'option', 'value'): return True
    if k == 'newtype': return nullable(t[1])
    if k == 'ref': return nullable(NAMED[t[1]])
    return False


def roundtrippable(t, seen=()):
    """The property's domain, from its text: integers (all Rust widths, 128-bit included since c8ac377), no unit-vs-none distinctions (an Option around a payload that
    can itself be none), no embedded template values (those are the handle clause)."""
    k = t[0]
    if k in ('int', 'uint'): return True
    if k == 'value': return False
    if k == 'option': return (not nullable(t[1])) and roundtrippable(t[1], seen)
    if k in ('newtype', 'seq'): return roundtrippable(t[1], seen)
    if k in ('tuple', 'tuplestruct'): return all(roundtrippable(x, seen) for x in t[1])
    if k == 'map': return roundtrippable(t[1], seen) and roundtrippable(t[2], seen)
    if k == 'struct': return all(roundtrippable(x, seen) for _, x in t[1])
    if k == 'enum':
        for n, vk, p in t[1]:
            if vk == 'new' and not roundtrippable(p, seen): return False
            if vk == 'tuple' and not all(roundtrippable(x, seen) for x in p): return False
            if vk == 'struct' and not all(roundtrippable(x, seen) for _, x in p): return False
        return True
    if k == 'ref':
        return True if t[1] in seen else roundtrippable(NAMED[t[1]], seen + (t[1],))
    return True


def has_value(t, seen=()):
    k = t[0]
    if k == 'value': return True
    if k in ('option', 'newtype', 'seq'): return has_value(t[1], seen)
    if k in ('tuple', 'tuplestruct'): return any(has_value(x, seen) for x in t[1])
    if k == 'map': return has_value(t[1], seen) or has_value(t[2], seen)
    if k == 'struct': return any(has_value(x, seen) for _, x in t[1])
    if k == 'enum':
        return any((vk == 'new' and has_value(p, seen)) or (vk == 'tuple' and any(has_value(x, seen) for x in p)) or
                   (vk == 'struct' and any(has_value(x, seen) for _, x in p)) for _, vk, p in t[1])
    if k == 'ref': return False if t[1] in seen else has_value(NAMED[t[1]], seen + (t[1],))
    return False


def must_recurse(t):
    """does every value of t contain a value of a named recursive type?"""
    k = t[0]
    if k == 'ref': return True
    if k == 'newtype': return must_recurse(t[1])
    if k in ('tuple', 'tuplestruct'): return any(must_recurse(x) for x in t[1])
    if k == 'struct': return any(must_recurse(x) for _, x in t[1])
    return False


def may_recurse(t):
    k = t[0]
    if k == 'ref': return True
    if k in ('option', 'newtype', 'seq'): return may_recurse(t[1])
    if k in ('tuple', 'tuplestruct'): return any(may_recurse(x) for x in t[1])
    if k == 'map': return may_recurse(t[1]) or may_recurse(t[2])
    if k == 'struct': return any(may_recurse(x) for _, x in t[1])
    return False


# ------------------------------------------------------------------------------------------
# pools
# ------------------------------------------------------------------------------------------
HTML4 = [60, 62, 38, 39]
SPECIAL = list(range(0, 32)) + [127, 32, 34, 92, 47] + HTML4 + [0x85, 0xA0, 0xE9, 0x20AC, 0x2028, 0x2029, 0xD7FF, 0xE000, 0xFEFF, 0xFFFD,
                                                              0xFFFF, 0x10000, 0x1F600, 0x10FFFF]
PLAIN = [ord(c) for c in "abzAZ09_-.:,;{}[]u"]
ALPHABET = SPECIAL + PLAIN
FIXED_STRINGS = ["", "a", "</script>", "<!--", "]]>", "\\u003c", "\\ud800", "\\ud800\\udc00", "\\u0027'", "\\'", "\\\\'", "\\\"", "'\"'", "\\<", "\\>", "\\&",
                 "a\\", "\\", "\\\\", "\"", "&amp;", "&#39;", "<>&'", "  ", "\x00\x1f\x7f", "tab\there", "line\nbreak\r\n", "null", "true", "1e5",
                 "{\"a\": [1, 2]}", "퟿", "\U0010ffff\U00010000", "\b\f", "é€😀", "'" * 5, "<" * 3 + ">" * 3]


def string_pool(thorough=False):
    pool = [[ord(c) for c in s] for s in FIXED_STRINGS]
    pool += [[c] for c in ALPHABET]
    core = [34, 92, 47, 60, 62, 38, 39, 0, 10, 31, 117, 0x2028, 0x1F600, 97]
    pool += [[a, b] for a in core for b in core]
    if thorough:
        pool += [[a, b] for a in ALPHABET for b in ALPHABET]
        pool += [[a, b, c] for a in core for b in core for c in core]
    pool += [[92, 117, 48, 48, a, b] for a in (51, 50) for b in (99, 101, 54, 55)]   # the text < etc.
    seen, out = set(), []
    for s in pool:
        if tuple(s) not in seen:
            seen.add(tuple(s)); out.append(s)
    return out


def f32_as_f64_bits(b32):
    f = struct.unpack('<f', struct.pack('<I', b32))[0]
    return struct.unpack('<Q', struct.pack('<d', f))[0]


F64_POOL = [0, 1 << 63, 0x3FF0000000000000, 0xBFF8000000000000, 0x3FB999999999999A, 0x7E37E43C8800759C, 1, 0x7FEFFFFFFFFFFFFF,
            0x7FF0000000000000, 0xFFF0000000000000, 0x7FF8000000000000, 0x7FF8000000000001, 0xFFF8000000000000, 0x7FF0000000000001,
            0x4340000000000000, 0x444B1AE4D6E2EF50, 0x3E7AD7F29ABCAF48, 0x4059000000000000, 0xC000000000000000, 0x000FFFFFFFFFFFFF]
F32_POOL = [f32_as_f64_bits(b) for b in (0, 0x80000000, 0x3F800000, 0xBFC00000, 0x7F800000, 0xFF800000, 0x7FC00000, 0xFFC00000, 1,
                                           0x7F7FFFFF, 0x3DCCCCCD, 0x00800000, 0x4B800000, 0x42C80000)]


def int_pool(w, signed):
    if signed:
        lo, hi = -(1 << (w - 1)), (1 << (w - 1)) - 1
        return [lo, lo + 1, -1, 0, 1, hi - 1, hi, 42, -7]
    hi = (1 << w) - 1
    return [0, 1, 2, hi - 1, hi, hi >> 1, (hi >> 1) + 1, 42]


# ------------------------------------------------------------------------------------------
# value generator (trees) and encoders
# ------------------------------------------------------------------------------------------
class Gen:
    def __init__(self, rng):
        self.rng = rng

    def string(self):
        r = self.rng
        w = r.below(10)
        if w == 0: return []
        if w == 1: return list(r.choice(self.pool))
        n = 1 + r.below(6)
        if w < 5: return [r.choice(PLAIN) for _ in range(n)]
        return [r.choice(ALPHABET) for _ in range(n)]

    def integer(self, w, signed):
        r = self.rng
        if r.chance(1, 2): return r.choice(int_pool(w, signed))
        x = r.next() | (r.next() << 64)
        x &= (1 << w) - 1
        if r.chance(1, 2): x &= 0xFF
        if signed and x >= 1 << (w - 1): x -= 1 << w
        return x

    def length(self, depth):
        return self.rng.below(4) if depth < 3 else self.rng.below(2)

    def fields(self, fs, depth, rb):
        return [(n, self.gen(x, depth + 1, rb)) for n, x in fs]

    def gen(self, t, depth=0, rb=REC_BUDGET):
        r = self.rng
        k = t[0]
        if k == 'unit': return ('unit',)
        if k == 'bool': return ('bool', r.below(2))
        if k == 'int': return ('int', t[1], self.integer(t[1], True))
        if k == 'uint': return ('uint', t[1], self.integer(t[1], False))
        if k == 'f64':
            return ('f64', r.choice(F64_POOL) if r.chance(2, 3) else (r.next() if r.chance(1, 2) else struct.unpack('<Q', struct.pack('<d', (r.below(2000001) - 1000000) / 1000.0))[0]))
        if k == 'f32':
            if r.chance(2, 3): return ('f32', r.choice(F32_POOL))
            b = r.next() & 0xFFFFFFFF
            if (b >> 23) & 0xFF == 0xFF: b &= 0xFF800000    # keep random patterns away from NaN payloads
            return ('f32', f32_as_f64_bits(b))
        if k == 'char': return ('char', r.choice(ALPHABET))
        if k == 'str': return ('str', self.string())
        if k == 'bytes': return ('bytes', [r.choice([0, 1, 34, 60, 127, 128, 255, r.below(256)]) for _ in range(r.below(5))])
        if k == 'option':
            if (rb == 0 and may_recurse(t[1])) or r.chance(1, 3): return ('none',)
            return ('some', self.gen(t[1], depth + 1, rb))
        if k == 'unitstruct': return ('unitstruct',)
        if k == 'newtype': return ('newtype', self.gen(t[1], depth + 1, rb))
        if k == 'seq':
            n = 0 if (rb == 0 and may_recurse(t[1])) else self.length(depth)
            return ('seq', [self.gen(t[1], depth + 1, rb) for _ in range(n)])
        if k == 'tuple': return ('tuple', [self.gen(x, depth + 1, rb) for x in t[1]])
        if k == 'tuplestruct': return ('tstruct', [self.gen(x, depth + 1, rb) for x in t[1]])
        if k == 'map':
            n = 0 if (rb == 0 and (may_recurse(t[1]) or may_recurse(t[2]))) else self.length(depth)
            ents = {}
            for _ in range(n):
                key = self.gen(t[1], depth + 1, rb)
                ents[json.dumps(rust_ord(key))] = (key, self.gen(t[2], depth + 1, rb))
            return ('map', [ents[s] for s in sorted(ents, key=lambda s: json.loads(s))])
        if k == 'struct': return ('struct', self.fields(t[1], depth, rb))
        if k == 'enum':
            cands = [i for i, (n, vk, p) in enumerate(t[1]) if not (rb == 0 and (
                (vk == 'new' and must_recurse(p)) or (vk == 'tuple' and any(must_recurse(x) for x in p)) or
                (vk == 'struct' and any(must_recurse(x) for _, x in p))))]
            if depth >= 4:
                flat = [i for i in cands if t[1][i][1] == 'unit']
                cands = flat or cands
            i = r.choice(cands)
            n, vk, p = t[1][i]
            if vk == 'unit': return ('uvar', i, n)
            if vk == 'new': return ('nvar', i, n, self.gen(p, depth + 1, rb))
            if vk == 'tuple': return ('tvar', i, n, [self.gen(x, depth + 1, rb) for x in p])
            return ('svar', i, n, self.fields(p, depth, rb))
        if k == 'value': return ('emb', r.below(NPOOL))
        if k == 'ref': return self.gen(NAMED[t[1]], depth, rb - 1)
        raise ValueError(t)


def rust_ord(v):
    """a JSON-able key that sorts like Rust's derived/std Ord on the key types used (String, ints, bool, char, unit enums, Key2)"""
    k = v[0]
    if k in ('int', 'uint'): return v[2]
    if k in ('bool', 'char'): return v[1]
    if k == 'str': return v[1]
    if k == 'uvar': return v[1]
    if k in ('tstruct', 'tuple'): return [rust_ord(x) for x in v[1]]
    if k == 'newtype': return rust_ord(v[1])
    raise ValueError(v)


def enc_sval(v):
    k = v[0]
    if k == 'unit': return [0]
    if k == 'bool': return [1, v[1]]
    if k == 'int': return [2, v[1], v[2]]
    if k == 'uint': return [3, v[1], v[2]]
    if k == 'f64': return [4, v[1]]
    if k == 'f32': return [5, v[1]]
    if k == 'char': return [6, v[1]]
    if k == 'str': return [7] + enc_str(v[1])
    if k == 'bytes': return [8, len(v[1])] + list(v[1])
    if k == 'none': return [9]
    if k == 'some': return [10] + enc_sval(v[1])
    if k == 'unitstruct': return [11]
    if k == 'uvar': return [12, v[1]] + enc_str(v[2])
    if k == 'newtype': return [13] + enc_sval(v[1])
    if k == 'nvar': return [14, v[1]] + enc_str(v[2]) + enc_sval(v[3])
    if k in ('seq', 'tuple', 'tstruct'):
        out = [{'seq': 15, 'tuple': 16, 'tstruct': 17}[k], len(v[1])]
        for x in v[1]: out += enc_sval(x)
        return out
    if k == 'tvar':
        out = [18, v[1]] + enc_str(v[2]) + [len(v[3])]
        for x in v[3]: out += enc_sval(x)
        return out
    if k == 'map':
        out = [19, len(v[1])]
        for a, b in v[1]: out += enc_sval(a) + enc_sval(b)
        return out
    if k == 'struct':
        out = [20, len(v[1])]
        for n, x in v[1]: out += enc_str(n) + enc_sval(x)
        return out
    if k == 'svar':
        out = [21, v[1]] + enc_str(v[2]) + [len(v[3])]
        for n, x in v[3]: out += enc_str(n) + enc_sval(x)
        return out
    if k == 'emb': return [22, v[1]]
    raise ValueError(v)


def show(v):
    """readable form of a value tree for evidence samples"""
    k = v[0]
    if k == 'str': return "".join(chr(c) for c in v[1]).encode('unicode_escape').decode()
    if k == 'char': return "char:" + chr(v[1]).encode('unicode_escape').decode()
    if k in ('int', 'uint'): return "%d%s%d" % (v[2], 'i' if k == 'int' else 'u', v[1])
    if k in ('f64', 'f32'): return "%s:0x%016x" % (k, v[1])
    if k == 'bool': return bool(v[1])
    if k in ('unit', 'none', 'unitstruct'): return k
    if k == 'bytes': return "bytes:" + bytes(v[1]).hex()
    if k in ('some', 'newtype'): return {k: show(v[1])}
    if k == 'uvar': return "::" + v[2]
    if k == 'nvar': return {"::" + v[2]: show(v[3])}
    if k in ('seq', 'tuple', 'tstruct'): return {k: [show(x) for x in v[1]]}
    if k == 'tvar': return {"::" + v[2]: [show(x) for x in v[3]]}
    if k == 'map': return {'map': [[show(a), show(b)] for a, b in v[1]]}
    if k == 'struct': return {n: show(x) for n, x in v[1]}
    if k == 'svar': return {"::" + v[2]: {n: show(x) for n, x in v[3]}}
    if k == 'emb': return "template-value#%d" % v[1]
    return str(v)


def depth_of(v):
    kids = []
    for x in v[1:]:
        if isinstance(x, tuple) and x and isinstance(x[0], str): kids.append(x)
        elif isinstance(x, list):
            for y in x:
                if isinstance(y, tuple) and y and isinstance(y[0], str): kids.append(y)
                elif isinstance(y, tuple):
                    kids += [z for z in y if isinstance(z, tuple) and z and isinstance(z[0], str)]
    return 1 + max([depth_of(c) for c in kids], default=0)


# ------------------------------------------------------------------------------------------
# parsers of the harness / model output
# ------------------------------------------------------------------------------------------
class P:
    def __init__(self, toks, i=0):
        self.t, self.i = toks, i

    def n(self):
        x = self.t[self.i]; self.i += 1
        if not isinstance(x, int): raise ValueError("not an int: %r" % (x,))
        return x

    def s(self):
        k = self.n()
        return [self.n() for _ in range(k)]


def parse_shape(p):
    tag = p.n()
    if tag == 0: return ('undef',)
    if tag == 1: return ('none',)
    if tag == 2: return ('bool', p.n())
    if tag in (3, 4, 5, 6): return (('i64', 'u64', 'i128', 'u128')[tag - 3], p.n())
    if tag == 7: return ('f64', p.n())
    if tag == 8:
        safe = p.n(); return ('str', safe, tuple(p.s()))
    if tag == 9: return ('bytes', tuple(p.s()))
    if tag == 10:
        tup = p.n(); k = p.n(); return ('seq', tup, tuple(parse_shape(p) for _ in range(k)))
    if tag == 11:
        k = p.n(); ents = []
        for _ in range(k):
            a = parse_shape(p); b = parse_shape(p); ents.append((a, b))
        return ('map', tuple(ents))
    if tag == 12: return ('plain', p.n())
    if tag == 13: return ('invalid',)
    raise ValueError("bad shape tag %r" % tag)


def canon(sh):
    """maps are finite maps: entry order is not part of the shape"""
    if sh[0] == 'seq': return ('seq', sh[1], tuple(canon(x) for x in sh[2]))
    if sh[0] == 'map': return ('map', tuple(sorted(((canon(a), canon(b)) for a, b in sh[1]), key=repr)))
    return sh


def untuple(sh):
    """drops the tuple flag of sequences (not part of the embedded-values clause)"""
    if sh[0] == 'seq': return ('seq', 0, tuple(untuple(x) for x in sh[2]))
    if sh[0] == 'map': return ('map', tuple((untuple(a), untuple(b)) for a, b in sh[1]))
    return sh


def skip_sval(p):
    """consumes one sval from the token stream, returns its tokens"""
    st = p.i
    tag = p.n()
    if tag in (0, 9, 11): pass
    elif tag in (1, 4, 5, 6, 22): p.n()
    elif tag in (2, 3): p.n(); p.n()
    elif tag in (7, 8): p.s()
    elif tag in (10, 13): skip_sval(p)
    elif tag == 12: p.n(); p.s()
    elif tag == 14: p.n(); p.s(); skip_sval(p)
    elif tag in (15, 16, 17):
        for _ in range(p.n()): skip_sval(p)
    elif tag == 18:
        p.n(); p.s()
        for _ in range(p.n()): skip_sval(p)
    elif tag == 19:
        for _ in range(p.n()): skip_sval(p); skip_sval(p)
    elif tag == 20:
        for _ in range(p.n()): p.s(); skip_sval(p)
    elif tag == 21:
        p.n(); p.s()
        for _ in range(p.n()): p.s(); skip_sval(p)
    else: raise ValueError("bad sval tag %r" % tag)
    return p.t[st:p.i]


def parse_rt(p):
    st = p.n()
    if st == 0: return ('ok', tuple(skip_sval(p)))
    if st == 1: return ('err', p.n())
    return ('skip', st)


def parse_text(p):
    st = p.n()
    if st == 0: return ('ok', "".join(chr(c) for c in p.s()))
    return ('err', p.n())


def parse_impl(out):
    """-> dict(shape, rt, rt_ref, plain, indent, auto) or dict(bad=...)"""
    if not out or out[0] != 0:
        return {"bad": out[:4]}
    try:
        p = P(out, 1)
        d = {"shape": parse_shape(p), "rt": parse_rt(p), "rt_ref": parse_rt(p), "plain": parse_text(p), "indent": parse_text(p), "auto": parse_text(p)}
        if p.i != len(out): return {"bad": "trailing tokens"}
        return d
    except (ValueError, IndexError) as e:
        return {"bad": "unparsable: %s" % e}


def parse_model(out):
    if not out or out[0] != 0:
        return {"bad": out[:4]}
    try:
        p = P(out, 1)
        d = {"shape": parse_shape(p), "rt": parse_rt(p)}
        if p.i != len(out): return {"bad": "trailing tokens"}
        return d
    except (ValueError, IndexError) as e:
        return {"bad": "unparsable: %s" % e}


# ------------------------------------------------------------------------------------------
# the oracle: what the shape of Serde(x) must be (embedded values), what JSON must say
# ------------------------------------------------------------------------------------------
POOL_SHAPES = {0: ('str', 1, tuple(ord(c) for c in "<b>&'\"x</b>")), 1: ('undef',), 2: ('plain', 2), 3: ('none',),
               4: ('str', 0, tuple(ord(c) for c in "plain <i>")), 5: ('i64', 42), 6: ('str', 1, ()), 7: ('plain', 7),
               8: ('str', 1, tuple(ord(c) for c in "a long safe string, more than twenty-two bytes <&>")),
               9: ('seq', 0, (('str', 1, (60, 115, 62)), ('undef',)))}
PLAIN_DISPLAY = {2: "<dyn 2>", 7: "<dyn 7>"}


def doc_shape(v):
    """The template value documented for a serde value (docs of `Serde`, serialize.rs header): used as oracle for the
    embedded-values clause only."""
    k = v[0]
    S = lambda cps: ('str', 0, tuple(cps))
    N = lambda name: ('str', 0, tuple(ord(c) for c in name))
    if k in ('unit', 'none', 'unitstruct'): return ('none',)
    if k == 'bool': return ('bool', v[1])
    if k == 'int': return ('i128' if v[1] == 128 else 'i64', v[2])
    if k == 'uint': return ('u128' if v[1] == 128 else 'u64', v[2])
    if k in ('f64', 'f32'): return ('f64', v[1])
    if k == 'char': return S([v[1]])
    if k == 'str': return S(v[1])
    if k == 'bytes': return ('bytes', tuple(v[1]))
    if k in ('some', 'newtype'): return doc_shape(v[1])
    if k == 'uvar': return N(v[2])
    if k == 'nvar': return ('map', ((N(v[2]), doc_shape(v[3])),))
    if k in ('seq', 'tstruct'): return ('seq', 0, tuple(doc_shape(x) for x in v[1]))
    if k == 'tuple': return ('seq', 1, tuple(doc_shape(x) for x in v[1]))
    if k == 'tvar': return ('map', ((N(v[2]), ('seq', 0, tuple(doc_shape(x) for x in v[3]))),))
    if k == 'map': return ('map', tuple((doc_shape(a), doc_shape(b)) for a, b in v[1]))
    if k == 'struct': return ('map', tuple((N(n), doc_shape(x)) for n, x in v[1]))
    if k == 'svar': return ('map', ((N(v[2]), ('map', tuple((N(n), doc_shape(x)) for n, x in v[3]))),))
    if k == 'emb': return POOL_SHAPES[v[1]]
    raise ValueError(v)


class NoJson(Exception):
    pass


def f64_of_bits(b):
    return struct.unpack('<d', struct.pack('<Q', b))[0]


def bits_of_f64(f):
    return struct.unpack('<Q', struct.pack('<d', f))[0]


def is_finite_bits(b):
    return (b >> 52) & 0x7FF != 0x7FF


def json_key(sh):
    k = sh[0]
    if k == 'str': return "".join(chr(c) for c in sh[2])
    if k in ('i64', 'u64', 'i128', 'u128'): return str(sh[1])
    if k == 'bool': return 'true' if sh[1] else 'false'
    if k == 'plain': return PLAIN_DISPLAY.get(sh[1], "?")
    raise NoJson("map key without a string form: %s" % k)


def json_expected(sh):
    """the JSON value of a template value: ('null',) ('bool',b) ('int',n) ('float',bits) ('str',s) ('arr',[..]) ('obj',{..})"""
    k = sh[0]
    if k in ('undef', 'none', 'invalid'): return ('null',)
    if k == 'bool': return ('bool', bool(sh[1]))
    if k in ('i64', 'u64', 'i128', 'u128'): return ('int', sh[1])
    if k == 'f64': return ('float', sh[1]) if is_finite_bits(sh[1]) else ('null',)
    if k == 'str': return ('str', "".join(chr(c) for c in sh[2]))
    if k == 'bytes': return ('arr', [('int', b) for b in sh[1]])
    if k == 'seq': return ('arr', [json_expected(x) for x in sh[2]])
    if k == 'plain': return ('str', PLAIN_DISPLAY.get(sh[1], "?"))
    if k == 'map':
        d = {}
        for a, b in sh[1]:
            key = json_key(a)
            if key in d: raise NoJson("two keys with the same string form")
            d[key] = json_expected(b)
        return ('obj', d)
    raise NoJson(k)


class DupKey(Exception):
    pass


def json_parsed(text):
    """Python's json module as the independent parser; strict: no NaN/Infinity literals, no duplicate keys"""
    def const(c): raise ValueError("non-standard constant " + c)
    def pairs(ps):
        d = {}
        for a, b in ps:
            if a in d: raise DupKey(a)
            d[a] = b
        return ('obj', d)
    def conv(x):
        if x is None: return ('null',)
        if isinstance(x, bool): return ('bool', x)
        if isinstance(x, int): return ('int', x)
        if isinstance(x, float): return ('float', bits_of_f64(x))
        if isinstance(x, str): return ('str', x)
        if isinstance(x, list): return ('arr', [conv(y) for y in x])
        if isinstance(x, tuple) and x[0] == 'obj': return ('obj', {a: conv(b) for a, b in x[1].items()})
        raise ValueError(x)
    return conv(json.loads(text, parse_constant=const, object_pairs_hook=pairs))


def check_json(text_res, expected, html_safe):
    """-> None when fine, else a short reason"""
    if text_res[0] != 'ok':
        return "rendering panicked" if text_res[1] == 98 else "rendering failed with %s" % ERR_NAMES.get(text_res[1], text_res[1])
    text = text_res[1]
    if html_safe:
        for ch in "<>&'":
            if ch in text: return "output contains %r" % ch
    try:
        got = json_parsed(text)
    except DupKey as e:
        return "duplicate object key %r" % (e.args[0],)
    except (ValueError, RecursionError) as e:
        return "not valid JSON (%s)" % str(e)[:80]
    if got != expected:
        return "parses to a different value"
    return None


# ------------------------------------------------------------------------------------------
# re-entrancy programs (tid 200): Serialize impls that convert other data while a conversion runs
# ------------------------------------------------------------------------------------------
PROG_TID = 200
N_INT, N_EMB, N_PROBE, N_SEQ, N_TUPLE, N_MAP, N_STRUCT, N_NVAR, N_TVAR, N_SVAR, N_SOME, N_NESTED, N_DROP, N_CATCH, N_THREAD, N_FAIL, N_PANIC, N_LEAK, N_FLATTEN = range(19)
N_NAMES = ["int", "embedded", "probe", "seq", "tuple", "map", "struct", "newtype-variant", "tuple-variant", "struct-variant", "some",
           "nested-conversion", "nested-conversion(dropped)", "nested-conversion(catch_unwind)", "conversion-on-other-thread", "fail", "panic",
           "value-handed-to-foreign-serializer(handle left behind)", "serde(flatten)-on-value(fails, handle left behind)"]
COMPOUND = (N_SEQ, N_TUPLE, N_MAP, N_STRUCT, N_TVAR, N_SVAR)
UNARY = (N_NVAR, N_SOME, N_NESTED, N_DROP, N_CATCH, N_THREAD)


def enc_node(n):
    k = n[0]
    if k in (N_INT, N_EMB, N_LEAK, N_FLATTEN): return [k, n[1]]
    if k in COMPOUND:
        out = [k, len(n[1])]
        for x in n[1]: out += enc_node(x)
        return out
    if k in UNARY: return [k] + enc_node(n[1])
    return [k]


def show_node(n):
    k = n[0]
    if k == N_INT: return n[1]
    if k == N_EMB: return "template-value#%d" % n[1]
    if k in (N_LEAK, N_FLATTEN): return {N_NAMES[k]: "template-value#%d" % n[1]}
    if k in COMPOUND: return {N_NAMES[k]: [show_node(x) for x in n[1]]}
    if k in UNARY: return {N_NAMES[k]: show_node(n[1])}
    return N_NAMES[k]


def has_kind(n, kinds):
    if n[0] in kinds: return True
    if n[0] in COMPOUND: return any(has_kind(x, kinds) for x in n[1])
    if n[0] in UNARY: return has_kind(n[1], kinds)
    return False


def prog_case(tops):
    out = [PROG_TID, 0, len(tops)]
    for n in tops: out += enc_node(n)
    return out


def gen_progs(chk):
    r = chk.rng
    E = lambda k: (N_EMB, k)
    emb = [E(0), E(1), E(2), (N_PROBE,)]
    inner_plain = (N_STRUCT, [(N_INT, 1), E(8), (N_PROBE,)])
    inners = [
        (N_NESTED, inner_plain), (N_DROP, inner_plain), (N_CATCH, inner_plain), (N_THREAD, inner_plain),
        (N_CATCH, (N_SEQ, [E(0), (N_PANIC,)])), (N_THREAD, (N_SEQ, [E(7), (N_PANIC,)])), (N_NESTED, (N_FAIL,)),
        (N_NESTED, (N_SEQ, [E(6), (N_FAIL,), E(2)])),
        (N_NESTED, (N_MAP, [E(2), (N_NESTED, (N_TUPLE, [E(0), (N_PROBE,)])), E(1), (N_PROBE,)])),     # two levels
        (N_DROP, (N_SEQ, [(N_DROP, (N_INT, 0)), E(0)])),
        (N_THREAD, (N_SEQ, [(N_NESTED, (N_SEQ, [E(2)])), (N_PROBE,), E(0)])),
    ]
    progs = []
    for c in COMPOUND:
        for inner in inners:
            for pos in (0, 2, 4):
                items = list(emb); items.insert(pos, inner)
                progs.append([(c, items)])
    for w in (N_NVAR, N_SOME):
        for inner in inners[:4]:
            progs.append([(N_STRUCT, [(w, inner), E(0), E(1), E(2), (N_PROBE,)])])
    # conversions one after the other on the same thread, after a failed / panicked one
    after = (N_STRUCT, [E(0), E(1), E(2), (N_PROBE,)])
    progs += [[(N_PANIC,), after], [(N_SEQ, [E(0), (N_PANIC,)]), after], [(N_FAIL,), after],
              [(N_SEQ, [(N_NESTED, (N_SEQ, [E(2), (N_PANIC,)])), E(0)]), after, after],
              [(N_SEQ, [(N_CATCH, (N_PANIC,)), E(0), (N_PROBE,)]), after],
              [(N_MAP, [(N_THREAD, (N_PANIC,)), E(1), (N_PROBE,)]), (N_PANIC,), after], [after, after, after]]

    # histories on one thread: conversions that leave handles behind, then conversions with embedded values
    L, F = (lambda k: (N_LEAK, k)), (lambda k: (N_FLATTEN, k))
    leakers = [(N_STRUCT, [L(4), (N_INT, 1)]), F(9), (N_SEQ, [F(4), E(0)]), (N_SEQ, [L(0), (N_PANIC,)]), (N_SEQ, [L(2), (N_FAIL,)]),
               (N_MAP, [(N_NESTED, (N_SEQ, [L(5)])), E(1)]), (N_SEQ, [L(4), L(9), F(3)]), (N_THREAD, (N_SEQ, [L(4)])),
               (N_SEQ, [(N_CATCH, (N_SEQ, [L(8), (N_PANIC,)])), E(0)]), (N_STRUCT, [E(0), L(4), E(2), F(5), E(1), (N_PROBE,)])]
    followers = [after, (N_MAP, [E(0), E(2)]), (N_SEQ, [E(1), E(8), E(7)]), (N_NVAR, E(0)), (N_SVAR, [E(6), E(2)]),
                 (N_TUPLE, [(N_NESTED, (N_STRUCT, [E(8), E(1)])), E(0)]), E(0), (N_SOME, E(2))]
    for lk in leakers:
        for fo in followers:
            progs.append([lk, fo])
    progs += [[leakers[0], leakers[1], after, leakers[3], after], [leakers[6], leakers[6], after, after], [after, leakers[2], after]]

    def rnd(depth):
        w = r.below(22)
        if w >= 20: return (N_LEAK, r.below(NPOOL)) if w == 20 else (N_FLATTEN, r.below(NPOOL))
        if depth >= 4 or w < 6: return [E(r.below(NPOOL)), E(r.below(3)), (N_PROBE,), (N_INT, r.below(100))][r.below(4)]
        if w < 12: return (r.choice(COMPOUND), [rnd(depth + 1) for _ in range(1 + r.below(4))])
        if w < 18: return (r.choice(UNARY), rnd(depth + 1))
        return (N_FAIL,) if w == 18 else (N_PANIC,)
    for _ in range(4000 if chk.thorough else 400):
        progs.append([rnd(0) for _ in range(1 + r.below(3))])
    return [prog_case(t) for t in progs], progs


def parse_prog(out):
    """-> list of (('ok', shape) | ('panic',) | ('err',), flag_after) + [final flag], or None"""
    if not out or out[0] != 0: return None
    try:
        p = P(out, 1)
        res = []
        for _ in range(p.n()):
            st = p.n()
            r = ('ok', canon(parse_shape(p))) if st == 0 else (('panic',) if st == 2 else ('err',))
            res.append((r, p.n()))
        res.append(p.n())
        return res if p.i == len(out) else None
    except (ValueError, IndexError):
        return None


def evaluate_progs(chk, cases, progs, A):
    """re-entrancy clause: every conversion (outermost or nested, on this or another thread, succeeding, failing or panicking)
    leaves the thread's serialization state as it found it; embedded values come back identical wherever they stand"""
    impl = {rel: guarded_impl(cases, rel) for rel in (False, True)}
    model = run_model("C16", "c16-prog", cases)
    spec = run_model("C16", "c16-prog-spec", cases)
    for i, c in enumerate(cases):
        sp, mo = parse_prog(spec[i]), parse_prog(model[i])
        if sp is None or mo != sp:
            A["prog_model_vs_spec"].append((c, model[i][:200], spec[i][:200]))
        n = progs[i]
        nested = n is not None and any(has_kind(t, (N_NESTED, N_DROP, N_CATCH, N_THREAD)) for t in n)
        A["hist"]["prog:" + ("nested conversions" if nested else "no nesting")] += 1
        if n is not None and any(has_kind(t, (N_PANIC, N_FAIL)) for t in n): A["hist"]["prog:with failing/panicking part"] += 1
        leaky = n is not None and any(has_kind(t, (N_LEAK, N_FLATTEN)) for t in n)
        if leaky:
            A["hist"]["prog:history with handles left behind"] += 1
            A["nontriv"].add(hashlib.sha256(fmt_case(c).encode()).digest()[:12])
        if nested: A["nontriv"].add(hashlib.sha256(fmt_case(c).encode()).digest()[:12])
        for rel in (False, True):
            prof = "release" if rel else "debug"
            if impl[rel][i][:1] == ["SKIPPED"]: continue
            got = parse_prog(impl[rel][i])
            if got != mo:
                A["corr_bad"].append((c, prof, "nested conversions", impl[rel][i], model[i]))
            if sp is not None and got != sp:
                if got is None:
                    why = "conversion crashed or gave an unreadable answer: %r" % (impl[rel][i][:3],)
                elif [f for _, f in got[:-1]] + [got[-1]] != [0] * len(got):
                    why = "serializing_for_value() is still true after a conversion finished"
                elif n is not None and any(has_kind(t, (N_LEAK, N_FLATTEN)) for t in n):
                    why = ("after a conversion on the same thread left a value handle behind, an embedded template value did not come back as the "
                           "very same value (a stale or lossy value instead)")
                else:
                    why = ("an embedded template value did not come back as the very same value (or serializing_for_value() was false) "
                           "inside a conversion whose Serialize impls convert other data")
                A["viol"].append((c, None, prof, "reentrancy", why, show_node_list(n)))


def show_node_list(n):
    return None if n is None else [show_node(t) for t in n]


def decode_prog(case):
    """node trees of a tid-200 case (for replays)"""
    p = P(case, 2)
    def node():
        k = p.n()
        if k in (N_INT, N_EMB, N_LEAK, N_FLATTEN): return (k, p.n())
        if k in COMPOUND: return (k, [node() for _ in range(p.n())])
        if k in UNARY: return (k, node())
        return (k,)
    return [node() for _ in range(p.n())]


# ------------------------------------------------------------------------------------------
# JSON of every iterable kind (tid 201): template expressions over the context of c16.rs::json_ctx
# ------------------------------------------------------------------------------------------
JSON_TID = 201
# sources: l list, tup tuple, sl list of hostile strings, m map, one / one_s one-shot iterators, lazy sized iterable,
# lazy0 / skipw / obj iterables that do not know their length (lower size bound 0)
SOURCES = ["l", "tup", "sl", "lazy", "lazy0", "skipw", "obj", "one", "one_s", "range(3)", "range(0)", "m|items", "m|dictsort", "m|list",
           "'a<b'|list", "l[1:]", "l[::-1]", "l[::2]", "lazy0[1:]", "lazy[:2]", "obj[::-1]", "sl[-2:]"]
ADAPTERS = ["%s", "%s|list", "%s|reverse", "%s|chain(range(2))", "%s|chain(sl)", "[]|chain(%s)", "l|chain(%s)", "%s|zip(l)", "lazy0|zip(%s)",
            "%s|map('string')", "%s|select('defined')", "%s|reject('none')", "%s|batch(2)", "%s|slice(2)", "%s|unique", "%s|map('string')|sort",
            "%s|map('string')|select('ne', '1')", "(%s)[1:]", "(%s)[::-1]"]
NESTERS = ["%s", "{'rows': %s, 'n': 1}", "[%s, l]", "{'a': {'b': [%s]}}", "[[%s], {'k': (%s)}]" ]
EXTRA = ["l|select('odd')", "l|reject('odd')", "l|map('abs')", "lazy0|select('even')|map('string')", "m|items|map('first')", "m|items|map('last')|select('odd')",
         "m|dictsort(reverse=true)", "sl|map('upper')", "sl|reverse|chain(one_s)", "one|chain(one_s)", "l|zip(sl, lazy0)", "m", "{'m': m, 'i': m|items}",
         "l|batch(2)|map('list')", "lazy0|slice(3)", "l|sort|reverse", "sl|unique|chain(obj)", "one|list", "skipw|zip(obj)|reverse"]
DATA = [[], [5], [3, -1, 2, 7], [0, 0, 1], [-4, -2, 9, 9, 10, 1]]

# compile-time constants: literals of every value kind, constant-folded operators, literal|filter.  The value is taken from
# compile_expression(..).eval() (no emit instruction involved); the literal form printed by a template must be the JSON document the
# same value produces when it comes from the context.
LITERALS = [
    '"hello world"', '""', '"a\\nb"', '"tab\\there"', '"q\\"uote"', "'single'", '"back\\\\slash"', '"<b>"', '"a&b"', '"it\'s"', '"a/b"', '"\\u2028x"',
    '"\u00e9\u20ac\U0001f600"', '"{{ name }}"', '"{% raw %}"', '"null"', '"true"', '"123"', '" "', '"\\u0001"', '"a\\rb"', '"x y z, w"', '"1e5"', '"[1, 2]"',
    '"foo" ~ "bar"', '"a" ~ 1', '"x" ~ "\\n" ~ "y"', '"foo" + "bar"', '"a" ~ "b" ~ "c"', '1 ~ 2', '"n=" ~ 1.5', '"" ~ none',
    '"hello"|upper', '"Hello World"|lower', '"a,b"|replace(",", ";")', '"  x "|trim', '"hello world"|title', '"abc"|first', '"x"|string', '42|string',
    '"abc"|length', '[1, 2]|join(" and ")', '"a b"|split(" ")', '"abc"|list', '"x"|default("y")', 'none|default("fallback value")', '"abc"|reverse',
    '"plain"|safe', '"%s-%s"|format("a", "b")',
    '42', '-7', '0', '1.5', '-0.0', '1e3', '2 ** 70', 'true', 'false', 'none', '12345678901234567890', '170141183460469231731687303715884105727',
    '1 + 2', '7 // 2', '7 / 2', '7 % 4', '-(3)', 'not true', '1 == 1', '1 < 2 and "x" == "x"', '"abc" in "xabcx"', '3 if false else 4',
    '"yes" if true else "no"', '"a" if false else "b"', '("plain text" if 1 else 2)',
    '[1, "two", 3.5, true, none]', '[]', '{}', '{"a": 1, "b": "x y"}', '{"k": [1, {"z": "plain"}]}', '(1, 2)', '("a",)', '[[], [[]]]', '["a b", "c"]',
    '{"plain": "hello world"}', '[1, 2] + [3]', '{"a": "plain"}["a"]', '{"a": "plain"}.a', '["x", "y"][1]', '"abc"[1:]', '"abc"[0]', '[1, 2, 3][::-1]',
    'range(3)', 'range(2)|list', '[3, 1, 2]|sort', '[1, 2]|map("string")|list', '{"b": 1, "a": 2}|dictsort', '{"a": 1}|items|list', '[1, 1, 2]|unique|list',
    '"a" ~ ("b" if true else "c")', '("a" ~ "b")|upper', '["hello world"]|first', '"hello world"|string|lower',
]


def json_case(expr, d):
    return [JSON_TID, 0] + enc_str(expr) + [len(d)] + list(d)


def gen_json_exprs(chk):
    exprs = []
    for src in SOURCES:
        for ad in ADAPTERS:
            exprs.append(ad % src)
    for e in list(EXTRA):
        exprs.append(e)
    base = list(exprs)
    r = chk.rng
    for e in base:
        if chk.thorough or r.chance(1, 4):
            ne = r.choice(NESTERS[1:])
            exprs.append(ne.replace("%s", e))
    cases, meta = [], []
    for e in exprs:
        ds = DATA if chk.thorough else [DATA[2], r.choice(DATA)]
        for d in ds:
            cases.append(json_case(e, d)); meta.append((e, d))
    for e in LITERALS:
        cases.append(json_case(e, [])); meta.append((e, []))
        for ne in NESTERS[1:]:
            if chk.thorough or r.chance(1, 3):
                x = ne.replace("%s", e).replace(", l]", ", 1]")
                cases.append(json_case(x, [])); meta.append((x, []))
    return cases, meta


def parse_json_expr(out):
    if not out or out[0] != 0: return None
    try:
        p = P(out, 1)
        d = {"shape": parse_shape(p)}
        for leg in ("tojson", "indent", "json", "js", "yaml", "block", "doc", "var"): d[leg] = parse_text(p)
        return d if p.i == len(out) else None
    except (ValueError, IndexError):
        return None


def flat_ints(sh):
    return sh[0] == 'seq' and all(x[0] in ('i64', 'u64') for x in sh[2])


def evaluate_json_exprs(chk, cases, meta, A):
    impl = {rel: guarded_impl(cases, rel) for rel in (False, True)}
    arr_idx, arr_cases = [], []
    for i, c in enumerate(cases):
        d = parse_json_expr(impl[False][i]) if impl[False][i][:1] != ["SKIPPED"] else None
        if d and flat_ints(d["shape"]):
            arr_idx.append(i); arr_cases.append([1, len(d["shape"][2])] + [t for x in d["shape"][2] for t in enc_str(str(x[1]))])
    arr_model = dict(zip(arr_idx, run_model("C16", "c16-array", arr_cases))) if arr_idx else {}
    A["json_array_texts_compared_with_model"] = A.get("json_array_texts_compared_with_model", 0) + len(arr_idx)
    for i, c in enumerate(cases):
        expr, data = meta[i]
        for rel in (False, True):
            prof = "release" if rel else "debug"
            if impl[rel][i][:1] == ["SKIPPED"]: continue
            d = parse_json_expr(impl[rel][i])
            if d is None:
                if impl[rel][i][:1] == [1]:
                    if not rel: A["hist"]["jsonexpr:expression does not evaluate (%s)" % ERR_NAMES.get(impl[rel][i][1], impl[rel][i][1])] += 1
                else:
                    A["viol"].append((c, None, prof, "crash", "evaluating or rendering crashed: %r" % (impl[rel][i][:3],), {"expr": expr, "l": data}))
                continue
            try:
                exp = json_expected(d["shape"])
            except NoJson as e:
                if not rel: A["hist"]["jsonexpr:not-applicable (%s)" % e] += 1
                continue
            is_safe_str = d["shape"][0] == 'str' and d["shape"][1] == 1
            doc_exp = ('obj', {"k": exp, "l": ('arr', [exp, ('int', 1)])})
            for leg, safe, what, want in (("tojson", True, "{{ (%s)|tojson }}", exp), ("indent", True, "{{ (%s)|tojson(indent=2) }}", exp),
                                          ("json", False, "{{ %s }} in a .json template", exp), ("js", False, "{{ %s }} in a .js template", exp),
                                          ("yaml", False, "{{ %s }} in a .yaml template", exp),
                                          ("block", False, '{%% autoescape "json" %%}{{ %s }}{%% endautoescape %%}', exp),
                                          ("doc", False, '{"k": {{ %s }}, "l": [{{ %s }}, 1]} in a .json template', doc_exp),
                                          ("var", False, "{{ x }} in a .json template with x = the value of %s", exp)):
                if not safe and is_safe_str: continue
                if leg == "doc" and "one" in expr: continue        # a one-shot iterator cannot be printed twice
                why = check_json(d[leg], want, safe)
                if why:
                    A["viol"].append((c, None, prof, "json", "%s: %s" % (what.replace("%%", "%").replace("%s", expr), why),
                                      {"expr": expr, "l": data, "output": d[leg][1] if d[leg][0] == 'ok' else None}))
            # literal form = variable form: the text printed for the expression is the text printed for its value from the context
            if not is_safe_str and d["json"] != d["var"] and "one" not in expr:
                A["viol"].append((c, None, prof, "json", "{{ %s }} and {{ x }} with x = its value print different JSON under auto-escaping" % expr,
                                  {"expr": expr, "l": data, "output": d["json"][1] if d["json"][0] == 'ok' else None,
                                   "variable_form": d["var"][1] if d["var"][0] == 'ok' else None}))
            if i in arr_model and d["tojson"][0] == 'ok':
                if [0, len(d["tojson"][1])] + [ord(ch) for ch in d["tojson"][1]] != arr_model[i]:
                    A["corr_bad"].append((c, prof, "JSON array text", impl[rel][i], arr_model[i]))
            if not rel:
                A["hist"]["jsonexpr:checked"] += 1
                A["nontriv"].add(hashlib.sha256(fmt_case(c).encode()).digest()[:12])


# ------------------------------------------------------------------------------------------
# running the implementation under resource limits (a broken tree may loop or eat memory)
# ------------------------------------------------------------------------------------------
MAX_CRASHES = 4
_crashes = {False: 0, True: 0}


def guarded_impl(cases, release):
    """Like vlib.run_impl, but every harness process runs under `prlimit` (4 GiB address space, 60 s CPU) with a wall-clock
    timeout, and after MAX_CRASHES dead processes per profile the remaining cases of that profile are not run any more
    (they are reported as ['SKIPPED']; the crashes themselves are violations)."""
    cmd = ["prlimit", "--as=%d" % (4 << 30), "--cpu=60", bin_path("c16", release)]
    out, i = [], 0
    while i < len(cases):
        if _crashes[release] >= MAX_CRASHES:
            out += [["SKIPPED"]] * (len(cases) - i)
            break
        batch = cases[i:i + (1000 if _crashes[release] == 0 else 50)]
        rc, o, e = sh(cmd, inp="\n".join(fmt_case(c) for c in batch) + "\n", timeout=90)
        lines = o.split("\n")
        if lines and lines[-1] == "": lines.pop()
        got = [parse_line(l) for l in lines[:len(batch)]]
        out += got; i += len(got)
        if len(got) < len(batch):            # the process died or hung; its buffered output is lost: find the case one by one
            for c in batch[len(got):len(got) + 400]:
                rc1, o1, e1 = sh(cmd, inp=fmt_case(c) + "\n", timeout=20)
                if o1.strip():
                    out.append(parse_line(o1.split("\n")[0])); i += 1
                else:
                    _crashes[release] += 1
                    out.append(["CRASH", rc1, (e1 or "")[-200:]]); i += 1
                    break
    return out[:len(cases)]


# ------------------------------------------------------------------------------------------
# cases
# ------------------------------------------------------------------------------------------
def make_case(tid, tree):
    sty = enc_sty(TYPES[tid][1])
    return [tid, len(sty)] + sty + enc_sval(tree)


def gen_cases(chk):
    g = Gen(chk.rng)
    g.pool = string_pool(chk.thorough)
    cases, trees = [], []
    per_type = 4000 if chk.thorough else 90
    for tid in sorted(TYPES):
        t = TYPES[tid][1]
        seen = set()
        for _ in range(per_type):
            tree = g.gen(t)
            c = make_case(tid, tree)
            if tuple(c) in seen: continue
            seen.add(tuple(c)); cases.append(c); trees.append((tid, tree))
    nrand = len(cases)
    # the string pool, exhaustively, as String values and inside a container
    for s in g.pool:
        tree = ('str', s)
        cases.append(make_case(STRING_TID, tree)); trees.append((STRING_TID, tree))
    for i, s in enumerate(g.pool):
        if i % 4 == 0 or chk.thorough:
            tree = ('map', [(('str', s), ('some', ('nvar', 4, 'NewStr', ('str', s))))])
            cases.append(make_case(45, tree)); trees.append((45, tree))
    return cases, trees, nrand


def tid_of(case):
    return case[0]


def sval_of(case):
    return tuple(case[2 + case[1]:])


def main():
    chk = Check("C16", "proof")
    chk.cov["trusted_base"] = TRUSTED_COMMON + [
        "serde / serde_derive (the typed side of every conversion: derived visitors, std impls) and serde_json's emitter; Python's json module as the independent JSON parser",
        "the JSON grammar model of C16/Spec.v is a token-level (lexical) model: string literals with their escapes, everything else character by character"]
    chk.assumptions = [
        "modelled: value/serialize.rs ValueSerializer (every method), value/deserialize.rs (deserialize_any/option/enum/newtype/unit_struct, VariantDeserializer) composed with serde's std/derived visitors, the value-handle registry of value/mod.rs, the < > & ' replacement of filters.rs::tojson, serde_json's string escaping",
        "a map is a finite map: BTreeMap/IndexMap entry order is not modelled and shapes are compared up to entry order; keys of one Rust map serialise to pairwise different template values",
        "f32 values are given by the f64 they widen to; `as f32` of such a double is exact (IEEE 754)",
        "de is tied to the code only on images of ser (T::deserialize(Value::from(Serde(&x))))",
        "that serde_json emits grammatical JSON for non-string values is observed (independent parser on every output), not proved"]
    ok_models, blog = build_models("C16")
    proofs_ok = chk.run_proofs()
    okc, clog = cargo_build(["c16"], release=False)
    okr, clog2 = cargo_build(["c16"], release=True)
    if not (okc and okr):
        chk.violation("harness does not build against the current /repo tree", {"theorem_or_correspondence": "build of harness/src/bin/c16.rs", "log": (clog + clog2)[-1500:]}, True)
        chk.finish()
    if not ok_models:
        chk.violation("model build failed", {"theorem_or_correspondence": "coq/theories/C16/Runner.v build", "log": blog[-1500:]}, True)
        chk.finish()
    if chk.replay:
        rp = json.load(open(chk.replay))
        cases = [rp["replay"]["case"]]
        trees, nrand = [None], 0
        pcases, progs, jcases, jmeta = [], [], [], []
        if cases[0][0] == PROG_TID:
            pcases, progs, cases, trees = cases, [decode_prog(cases[0])], [], []
        elif cases[0][0] == JSON_TID:
            jcases, jmeta, cases, trees = cases, [(rp["replay"].get("expr", "?"), rp["replay"].get("l", []))], [], []
    else:
        cases, trees, nrand = gen_cases(chk)
        pcases, progs = gen_progs(chk)
        jcases, jmeta = gen_json_exprs(chk)

    A = {"hist": collections.Counter(), "nontriv": set(), "corr_bad": [], "viol": [], "py_spec_bad": [], "nstr": 0,
         "kernel_ok": True, "kernel_n": 0, "prog_model_vs_spec": []}
    CH = 4000
    for lo in range(0, len(cases), CH):
        evaluate(cases[lo:lo + CH], trees[lo:lo + CH], A, kernel=(lo == 0))
    for lo in range(0, len(pcases), CH):
        evaluate_progs(chk, pcases[lo:lo + CH], progs[lo:lo + CH], A)
    for lo in range(0, len(jcases), CH):
        evaluate_json_exprs(chk, jcases[lo:lo + CH], jmeta[lo:lo + CH], A)
    hist, nontriv, corr_bad, viol, py_spec_bad, kernel_ok = A["hist"], A["nontriv"], A["corr_bad"], A["viol"], A["py_spec_bad"], A["kernel_ok"]

    chk.cov["evaluations"] = (len(cases) + len(pcases) + len(jcases)) * 2
    chk.cov["json_iterable_expressions"] = len(jcases)
    chk.cov["json_array_texts_compared_with_model"] = A.get("json_array_texts_compared_with_model", 0)
    chk.cov["reentrancy_programs"] = len(pcases)
    chk.cov["reentrancy_model_vs_spec_disagreements"] = len(A["prog_model_vs_spec"])
    chk.cov["distinct_nontrivial"] = len(nontriv)
    chk.cov["rule"] = ("%d seeded values over %d Rust types (every serde variant shape; depth <= 5) + the string pool exhaustively (%d strings as String, "
                       "%s of them also as map key and enum payload); each case runs in a debug and a release build, through the owned and the borrowed deserializer, "
                       "and through three JSON renderings; non-trivial = distinct case whose value has nesting depth >= 2 or is a string containing a control, "
                       "quote, backslash, HTML or non-ASCII character; plus %d re-entrancy programs (Serialize impls that perform Value::from(Serde(..)) "
                       "before/between/after embedded values in struct fields, seq items, map values and enum payloads, two levels deep, failing, panicking, "
                       "on another thread; several conversions in a row on one thread, also after a failed one; serializing_for_value() probed inside and outside), "
                       "non-trivial when they contain a nested conversion or a history with handles left behind (value handed to a foreign serializer, "
                       "serde(flatten) on a value, conversion failing/panicking after registering a handle) followed by conversions with embedded values; "
                       "plus %d template expressions x data over every iterable kind (list, tuple, sized / unsized / one-shot iterables, dynamic iterable object, "
                       "range, slices, reversed, dict views, chain/zip/map/select/reject/batch/slice/unique/sort results, nested in maps and lists) rendered by "
                       "tojson, tojson(indent=2), .json/.js/.yaml auto-escaping, an autoescape \"json\" block and inside a JSON document, each parsed and compared with the "
                       "value; among them %d compile-time constants (string literals with and without metacharacters, ~ / + of literals, literal|filter, numeric / "
                       "bool / none / list / map / tuple literals, constant conditionals) whose printed text must equal the text of the same value from the context"
                       % (nrand, len(TYPES), A["nstr"] - sum(1 for t in trees[:nrand] if t and t[0] == STRING_TID), "all" if chk.thorough else "a quarter", len(pcases), len(jcases), len(LITERALS)))
    chk.cov["exhaustive"] = False
    chk.cov["samples"] = [{"type": TYPES[trees[i][0]][0], "value": show(trees[i][1])} for i in
                          sorted(set([0, len(cases) // 5, len(cases) // 3, len(cases) // 2, max(0, nrand - 1), len(cases) - 1])) if 0 <= i < len(trees) and trees[i] is not None]
    chk.cov["samples"] += [{"conversions_on_one_thread": show_node_list(progs[i])} for i in sorted(set([0, len(progs) // 2, len(progs) - 1])) if 0 <= i < len(progs)]
    chk.cov["distribution"] = dict(hist)
    chk.cov["impl_vs_model_disagreements"] = len(corr_bad)
    chk.cov["spec_runner_vs_python_disagreements"] = len(py_spec_bad)
    chk.cov["kernel_crosscheck"] = {"cases": A["kernel_n"], "agree": kernel_ok}
    chk.cov["tojson_string_texts_compared_with_model"] = A["nstr"] * 2

    # --- verdicts ---
    seen_kinds = collections.Counter()
    reported = set()
    for ent in viol:
        case, tree, prof, kind, why = ent[:5]
        if (tuple(case), why) in reported: continue        # same failure in the other build profile
        reported.add((tuple(case), why))
        seen_kinds[kind] += 1
        if seen_kinds[kind] > 3: continue
        rep = {"case": case, "type": TYPES[tid_of(case)][0] if tid_of(case) in TYPES else ("re-entrancy program" if tid_of(case) == PROG_TID else "template expression"), "profile": prof, "why": why,
               "how": "./check C16 --replay <this file>"}
        if tree is not None: rep["value"] = show(tree[1])
        if len(ent) > 5 and isinstance(ent[5], dict): rep.update(ent[5])
        elif len(ent) > 5 and ent[5] is not None: rep["conversions_on_one_thread"] = ent[5]
        if kind in ("HARNESS",):
            chk.violation("harness cannot build the case", dict(rep, theorem_or_correspondence="generator vs Rust type table"), True)
        else:
            chk.violation(why, rep)
    if not viol:
        if corr_bad:
            case, prof, what, io, mo = corr_bad[0]
            chk.violation("model and implementation disagree (%s)" % what, {"theorem_or_correspondence": "correspondence C16.Runner.run vs harness c16 (%s)" % what,
                          "case": case, "type": TYPES[tid_of(case)][0] if tid_of(case) in TYPES else "re-entrancy program", "profile": prof,
                          "implementation": io[:200], "model": mo[:200]}, True)
        if A["prog_model_vs_spec"]:
            case, mo, so = A["prog_model_vs_spec"][0]
            chk.violation("extracted model differs from extracted spec although reentrancy_transparent is proved",
                          {"theorem_or_correspondence": "reentrancy_transparent (extraction)", "case": case, "model": mo, "spec": so}, True)
        if py_spec_bad:
            case, so = py_spec_bad[0]
            chk.violation("C16/Spec.v (well_typed, roundtrippable) and the check's own type table disagree", {"theorem_or_correspondence": "Spec.roundtrippable / has_type vs tools/props/C16.py",
                          "case": case, "spec": so}, True)
        if not kernel_ok:
            chk.violation("kernel evaluation disagrees with extracted model", {"theorem_or_correspondence": "vm_compute cross-check of extraction"}, True)
        if not proofs_ok:
            chk.violation("proof obligations of C16 do not check", {"theorem_or_correspondence": chk.proof["problems"]}, True)
    chk.finish()


def evaluate(cases, trees, A, kernel=False):
    """runs one chunk of cases through implementation (debug, release) and model, applies correspondence and oracle"""
    hist, nontriv, corr_bad, viol, py_spec_bad = A["hist"], A["nontriv"], A["corr_bad"], A["viol"], A["py_spec_bad"]
    impl = {rel: guarded_impl(cases, rel) for rel in (False, True)}
    model = run_model("C16", "c16", cases)
    spec = run_model("C16", "c16-spec", cases)
    str_idx = [i for i, c in enumerate(cases) if tid_of(c) == STRING_TID]
    str_cases = [list(sval_of(cases[i]))[1:] for i in str_idx]          # `len cps`
    tojson_model = dict(zip(str_idx, run_model("C16", "c16-tojson", str_cases))) if str_idx else {}
    A["nstr"] += len(str_idx)
    if kernel:
        # kernel cross-check of the extraction
        step = max(1, len(cases) // 30)
        kidx = [i for i in range(0, len(cases), step) if max(abs(x) for x in cases[i]) < 2 ** 70][:30]
        kern = kernel_eval("run", [cases[i] for i in kidx], "k_C16_run", imports="Common.Base C16.Runner")
        A["kernel_ok"] = kern is not None and all(kern[j] == model[kidx[j]] for j in range(len(kidx)))
        A["kernel_n"] = len(kidx)
    for i, c in enumerate(cases):
        tid = tid_of(c)
        name, t = TYPES[tid]
        sval = sval_of(c)
        m = parse_model(model[i])
        rtable = roundtrippable(t)
        # C16/Spec.v's own verdict on the type and the value: [well_typed, roundtrippable]
        if spec[i] != [1, 1 if rtable else 0]:
            py_spec_bad.append((c, spec[i]))
        hist["type:" + name] += 0
        for rel in (False, True):
            prof = "release" if rel else "debug"
            if impl[rel][i][:1] == ["SKIPPED"]: continue
            d = parse_impl(impl[rel][i])
            if "bad" in d:
                if impl[rel][i][:1] == [7]:
                    viol.append((c, trees[i], prof, "HARNESS", "case does not describe a value of the Rust type (generator/type table bug): %r" % (impl[rel][i],)))
                else:
                    viol.append((c, trees[i], prof, "crash", "conversion or rendering crashed: %r" % (impl[rel][i][:3],)))
                continue
            # --- correspondence with the model
            if "bad" in m:
                corr_bad.append((c, prof, "model output unusable", impl[rel][i], model[i]))
            else:
                if canon(d["shape"]) != canon(m["shape"]):
                    corr_bad.append((c, prof, "shape", impl[rel][i], model[i]))
                if not has_value(t):
                    if d["rt"] != m["rt"] and not (d["rt"][0] == 'err' and m["rt"][0] == 'err'):
                        corr_bad.append((c, prof, "round trip", impl[rel][i], model[i]))
                if i in tojson_model and d["plain"][0] == 'ok':
                    want = tojson_model[i]
                    if [0, len(d["plain"][1])] + [ord(ch) for ch in d["plain"][1]] != want:
                        corr_bad.append((c, prof, "tojson text of a string", impl[rel][i], want))
            # --- the property, on the implementation's own answers
            if rtable:
                for leg in ("rt", "rt_ref"):
                    if d[leg] != ('ok', sval):
                        viol.append((c, trees[i], prof, "roundtrip", "T::deserialize(%sValue::from(Serde(&x))) %s" % (
                            "&" if leg == "rt_ref" else "", "differs from x" if d[leg][0] == 'ok' else "fails with " + str(ERR_NAMES.get(d[leg][1], d[leg][1])))))
                        break
            if d["rt"] != d["rt_ref"] and d["rt"][0] != 'skip':
                viol.append((c, trees[i], prof, "roundtrip", "the owned and the borrowed deserializer disagree"))
            if has_value(t) and trees[i] is not None:
                if untuple(canon(d["shape"])) != untuple(canon(doc_shape(trees[i][1]))):
                    viol.append((c, trees[i], prof, "handles", "an embedded template value did not come back as the very same value"))
            try:
                exp = json_expected(d["shape"])
            except NoJson as e:
                hist["json:not-applicable (%s)" % e] += 1
                exp = None
            if exp is not None:
                for leg, safe in (("plain", True), ("indent", True), ("auto", False)):
                    if leg == "auto" and d["shape"][0] == 'str' and d["shape"][1] == 1:
                        continue    # a safe string is by definition already in the output format: printed verbatim
                    why = check_json(d[leg], exp, safe)
                    if why:
                        what = {"plain": "{{ v|tojson }}", "indent": "{{ v|tojson(indent=2) }}", "auto": "{{ v }} under JSON auto-escaping"}[leg]
                        viol.append((c, trees[i], prof, "json", "%s: %s" % (what, why)))
                if not rel: hist["json:checked"] += 1
        hist["type:" + name] += 1
        hist["roundtrippable" if rtable else ("embedded-values" if has_value(t) else "outside-domain (unit vs none)")] += 1
        if trees[i] is not None:
            dep = depth_of(trees[i][1])
            hist["depth=%d" % dep] += 1
            if dep >= 2 or (trees[i][1][0] == 'str' and any(ch in SPECIAL for ch in trees[i][1][1])):
                nontriv.add(hashlib.sha256(fmt_case(c).encode()).digest()[:12])


if __name__ == "__main__":
    main()
