#!/usr/bin/env python3
"""C17 - the file-system loader never reads outside its base directory (DESIGN.md §3 C17)."""
import os, sys, collections, shutil, re, posixpath, concurrent.futures
sys.path.insert(0, os.path.dirname(os.path.dirname(os.path.abspath(__file__))))
from vlib import *

LONG = "a" * 300
L255 = "b" * 255          # NAME_MAX: the longest file name that can exist
# the property's segment alphabet (14) ...
SEGS = ["", ".", "..", "...", "a", ".a", "a.", "a..b", "a\\b", "..\\a", "\0", "%2e%2e", "‥", LONG]
# ... plus, for the end-to-end part, names that exist in the scratch tree
SEGS_E2E = SEGS[:-1] + ["．．", "dir", "sub", "canary", LONG]
BASES = ["/srv/t", "/srv/t/", "t", "", "/", "./t", "/srv/../t", "t//", "/srv/t/.", "a\\b"]
NOISE = ["/", "/", ".", ".", "\\", "a", "\0", "%", "2", "e", " ", "‥", "．", "\x7f", "\x80", "\xe9", "\U0010ffff", "\n", "∕", "⁄"]
TRICKY = [L255, L255 + "b", "dir/" + L255, "../" + L255, "dir/../" + L255, "./" + L255, ("c" * 250 + "/") * 20 + "a", ("dir/" * 1100) + "a", "///", "/", "a/", "dir/", "dir/a/",
          "a/.", "a /", "a ", " a", " a/", "dir//a", "/dir/a", "//dir///a", "dir/a\0", "a\0/../canary", "\0", "dir/\0/a", "a\n", "base/a", "root/base/a", "../base/a",
          "dir/sub/canary", "dir/sub/../sub/a", "dir/sub/a/", "dir/sub//a", "a/a", "a/../a", "canary/", "canary/.", "canary/..", "canary/../canary"]
NPROC = 12


def enc(s):
    return [len(s)] + [ord(c) for c in s]


def dec(o, i):
    n = o[i]
    return "".join(chr(x) for x in o[i + 1:i + 1 + n]), i + 1 + n


def prun(cmd, cases, env=None, timeout=3000):
    if len(cases) < 2000:
        return run_lines(cmd, cases, timeout=timeout, env=env)
    size = (len(cases) + NPROC - 1) // NPROC
    chunks = [cases[i:i + size] for i in range(0, len(cases), size)]
    with concurrent.futures.ThreadPoolExecutor(NPROC) as ex:
        outs = list(ex.map(lambda ch: run_lines(cmd, ch, timeout=timeout, env=env), chunks))
    return [o for ch in outs for o in ch]


# ------------------------------------------------------------------------------------------
# building c17 with hook H1 when the tree under test has it
# ------------------------------------------------------------------------------------------
def build_c17(release):
    """Returns (ok, log, hooks_enabled)."""
    repo_has = "verif_hooks" in open(os.path.join(REPO, "minijinja", "Cargo.toml")).read()
    shared = open(os.path.join(ROOT, "harness", "Cargo.toml")).read()
    if not repo_has:
        ok, lg = cargo_build(["c17"], release=release)
        return ok, lg, False
    if "minijinja/verif_hooks" in shared:
        ok, lg = cargo_build(["c17"], release=release, features=("hooks",))
        return ok, lg, True
    # the tree has the hook but harness/Cargo.toml does not forward the feature (it cannot, as long as
    # /repo itself lacks it: cargo rejects the manifest).  Private shadow manifest, same sources/target dir.
    d = os.path.join(CACHE, "harness-c17" + (chk_tag() or "-repo"))
    os.makedirs(d, exist_ok=True)
    toml = shared.replace('"/repo/', '"%s/' % REPO)
    toml = re.sub(r"(?m)^hooks = \[(.*)\]$", lambda m: "hooks = [" + ", ".join([x for x in [m.group(1).strip()] if x] + ['"minijinja/verif_hooks"']) + "]", toml)
    tp = os.path.join(d, "Cargo.toml")
    if not os.path.exists(tp) or open(tp).read() != toml:
        open(tp, "w").write(toml)
    link = os.path.join(d, "src")
    if not os.path.islink(link):
        os.symlink(os.path.join(ROOT, "harness", "src"), link)
    with Lock("cargo" + chk_tag()):
        lock_dst = os.path.join(d, "Cargo.lock")
        if not os.path.exists(lock_dst):
            sh(["cp", os.path.join(REPO, "Cargo.lock"), lock_dst])
        cmd = ["cargo", "build", "--offline", "--quiet", "--bin", "c17", "--features", "hooks"] + (["--release"] if release else [])
        rc, o, e = sh(cmd, cwd=d, timeout=3000)
        return rc == 0, o + e, True


def chk_tag():
    return "" if REPO == "/repo" else "-" + hashlib.sha256(REPO.encode()).hexdigest()[:8]


# ------------------------------------------------------------------------------------------
# pure part: safe_join itself
# ------------------------------------------------------------------------------------------
def names_upto(segs, depth):
    out = []
    level = [[s] for s in segs]
    for d in range(1, depth + 1):
        out += ["/".join(x) for x in level]
        if d < depth:
            level = [x + [s] for x in level for s in segs]
    return out


NONUTF_CREATED = []       # filled by make_tree
SPECIAL_CREATED = []      # filled by make_tree
TREETOP = "/tmp/c17tree"
LINK = "/tmp/c17link"     # a symbolic link OUTSIDE the base that points at the base: another spelling of the base directory
ABSDIR = "/tmp/c17abs"   # an absolute canary location without any dot segment
DEEP = 45          # depth of the chain base/d/d/d/.. of existing directories (each holds a file `a`)


def long_names(rng, absdir, nrand):
    """Names with many segments: segment counts 1..40 (and 100, 1000), runs of empty segments of every length 0..40 at
    the front / in the middle / at the end, `..`, `.`, hidden and backslash segments at every position 0..40, absolute-looking
    tails after many segments; `d/d/../a` exists in the scratch tree down to depth DEEP so that joins can succeed."""
    out = []
    ab = absdir.lstrip("/") + "/a"
    for k in list(range(0, 41)) + [44, 45, 46]:
        pre = "d/" * k
        out += [pre + "a", pre + "../" * (k + 1) + "canary", pre + "../" * (k + 1) + "a", pre + "/" + ab, pre + "/" + absdir + "/a", pre + "sub/../../canary" if k == 0 else pre + "../" * k + "sub/../../canary"]
    for i in range(0, 41):
        for x in ["..", ".", ".a", "", "a\\b", "..."]:
            for rest in ([], ["a"], ["..", "a"], ["..", "..", "canary"]):
                out.append("/".join(["d"] * i + [x] + rest))
    for r in range(0, 41):
        sl = "/" * r
        out += [sl + "a", sl + "d/a", sl + "d/../../canary", sl + "sub/../../canary", sl + "../canary", sl + ab, sl + "/" + ab, sl + absdir + "/a", sl + "etc/hostname",
                "d/" + sl + "a", "d" + sl + "../../canary", "d/d" + sl + "sub/../a", "d/a" + sl, "d" + sl, "d/" + sl + "/" + ab]
    for c in (100, 1000):
        out += ["d/" * c + "a", "/" * c + "a", "/" * c + ab, "/" * c + "sub/../../canary", "a/" * c + "../" * (c + 1) + "canary", "/".join(["d"] * 20 + [""] * c + ["..", "..", "canary"]),
                "/".join([""] * c + ["d", "a"])]
    pool = ["d", "d", "d", "", "", "a", "sub", "dir", "..", ".", ".a", "canary", "a\\b", "\0"]
    for _ in range(nrand):
        n = 1 + rng.below(40)
        segs = [rng.choice(pool[:7]) for _ in range(n)]
        for _ in range(rng.below(3)):
            segs[rng.below(n)] = rng.choice(pool)
        if rng.chance(1, 4):
            segs += ["..", "..", "canary"] if rng.chance(1, 2) else ab.split("/")
        out.append("/".join(segs))
    seen, uniq = set(), []
    for n in out:
        if n not in seen:
            seen.add(n); uniq.append(n)
    return uniq


def gen_pure(chk):
    rng = chk.rng
    cases = []
    names = names_upto(SEGS, 3)
    for b in BASES:
        for n in names:
            cases.append([0] + enc(b) + enc(n))
    ab = TREETOP + "/root/base"
    for n in base_names(ab):
        for b in (ab, ab + "/", "base", TREETOP + "/root/./base", LINK, "/"):
            cases.append([0] + enc(b) + enc(n))
    for n in long_names(rng, ABSDIR, 20000 if chk.thorough else 2000):
        for b in ("/srv/t", "t", "", "/srv/t/"):
            cases.append([0] + enc(b) + enc(n))
    exhaustive_n = len(cases)
    if chk.thorough:
        level = [[s] for s in SEGS]
        for d in (2, 3, 4, 5):
            level = [x + [s] for x in level for s in SEGS]
            if d >= 4:
                for x in level:
                    cases.append([0] + enc(rng.choice(BASES)) + enc("/".join(x)))
        exhaustive_n = len(cases)
    for _ in range(200000 if chk.thorough else 20000):
        n = "".join(rng.choice(NOISE) for _ in range(rng.below(13)))
        if rng.chance(1, 4):
            n = rng.choice(SEGS[:-1]) + "/" + n
        cases.append([0] + enc(rng.choice(BASES)) + enc(n))
    return cases, exhaustive_n


def py_beneath(base, p):
    """second opinion on `beneath` with Python's own normalisation (cwd = /cwd)."""
    def norm(x):
        x = x if x.startswith("/") else "/cwd/" + x
        x = posixpath.normpath("/" + x.lstrip("/"))
        return [c for c in x.split("/") if c]
    nb, np_ = norm(base), norm(p)
    return np_[:len(nb)] == nb


# ------------------------------------------------------------------------------------------
# end-to-end part: a real tree with canaries outside the base
# ------------------------------------------------------------------------------------------
def body(tag):
    return '{%% set marker = "%s" %%}%s' % (tag, tag)


def make_tree():
    # fixed paths (replays name them); runs are serialised by Lock("c17-tree").  The tree lives under /tmp so that the
    # absolute base has no dot segment: names that spell out the base's own path are then not rejected for a hidden segment.
    top = TREETOP
    shutil.rmtree(top, ignore_errors=True)
    root = os.path.join(top, "root")
    base = os.path.join(root, "base")
    # (last line of `inside`: a replica of the base's own absolute path below the base - what `<base>/a` as a NAME legitimately denotes)
    inside = ["a", "a.", "a..b", "dir/a", "dir/a.", "dir/sub/a", "dir/dir/a", "sub/a", ".a", ".../a", "%2e%2e/a", "a\\b", "..\\a",
              "‥/a", "．．", "canary", "dir/canary", "sub/dir/a",
              # names that exist both inside and outside, the longest legal file name, blanks
              L255, "dir/" + L255, "a ", " a", "dir/sub/canary", "base/a", "root/base/a"] + \
             ["d/" * k + "a" for k in range(1, DEEP + 1)] + ["d/sub/a", "d/d/sub/a", "d/canary"] + \
             [base.lstrip("/") + "/a", base.lstrip("/") + "/dir/a", root.lstrip("/") + "/canary", "base/canary"]
    outside = [os.path.join(root, "a"), os.path.join(root, "canary"), os.path.join(root, "dir", "a"), os.path.join(root, "sub", "a"),
               os.path.join(top, "a"), os.path.join(top, "canary"), os.path.join(root, "base2", "a"), os.path.join(root, "basea"),
               os.path.join(root, L255), os.path.join(root, "dir", L255), os.path.join(root, "dir", "sub", "a"), os.path.join(root, "dir", "sub", "canary"),
               os.path.join(top, "dir", "a"), os.path.join(root, "a "), os.path.join(root, " a"), os.path.join(top, "root", "a"), os.path.join(top, L255)]
    absdir = ABSDIR
    outside.append(os.path.join(absdir, "a"))
    # decoys: directories with the base's name below the working directories used with relative bases that start with `..`
    for decoy in (os.path.join(root, "work", "base"), os.path.join(root, "work", "root", "base"), os.path.join(root, "work", "work", "base")):
        for rel in ("a", "dir/a", "canary", "sub/a", "d/a", "d/d/a", "dir/sub/a", "a."):
            outside.append(os.path.join(decoy, rel))
    tags = {}
    for i, rel in enumerate(inside):
        p = os.path.join(base, rel)
        os.makedirs(os.path.dirname(p), exist_ok=True)
        open(p, "w").write(body("IN%d" % i))
        tags["IN%d" % i] = rel
    for i, p in enumerate(outside):
        os.makedirs(os.path.dirname(p), exist_ok=True)
        open(p, "w").write(body("CANARY%d" % i))
    try:
        os.remove(LINK)
    except OSError:
        pass
    os.symlink(base, LINK)
    # base directories whose names are not UTF-8 (a lone 0xFF, an overlong '/', an encoded surrogate, 0xFE 0xFF, an invalid
    # byte in an intermediate directory): full copies of the base, each with a look-alike decoy spelled with U+FFFD (what a
    # lossy conversion of the path to a string yields) that holds canaries.  Skipped when the file system refuses the names.
    del NONUTF_CREATED[:]
    for rel in ("tpl\udcff", "tpl\udcc0\udcaf", "tpl\udced\udca0\udc80x", "\udcfe\udcff", "mid\udc80x/base", "caf\udce9/tpl"):
        real = os.path.join(root, rel)
        lossy = os.path.join(root, os.fsencode(rel).decode("utf-8", "replace"))
        try:
            os.makedirs(os.path.dirname(real), exist_ok=True)
            shutil.copytree(base, real, symlinks=True)
            if lossy != real:
                for r in ("a", "dir/a", "canary", "sub/a", "d/a", "d/d/a", "dir/sub/a", "a.", "a..b"):
                    q = os.path.join(lossy, r)
                    os.makedirs(os.path.dirname(q), exist_ok=True)
                    open(q, "w").write(body("CANARY9%d" % len(NONUTF_CREATED)))
            NONUTF_CREATED.append(real)
        except (OSError, UnicodeError, ValueError):
            continue
    # base directories whose path holds characters that mean something to shells, PATH-like lists, URLs or globs; full
    # copies of the base.  For list separators (':' ';') a decoy with canaries sits at every split point: the part before
    # the separator below the root, the parts after it below the working directory (= root for these configurations).
    del SPECIAL_CREATED[:]
    for rel in ("site:v2/templates", ":lead/tpl", "a:b:c/tpl", "x;y/tpl", "my templates/tpl dir", "100%/tpl%41", "~/tpl", "$HOME/tpl", "*?[x]/tpl", "-rf/tpl", "a=b&c/tpl#frag",
                "tab\tnl\n/tpl", "quote'\"/tpl", "{a,b}/tpl", "tpl:"):
        real = os.path.join(root, rel)
        try:
            os.makedirs(os.path.dirname(real), exist_ok=True)
            shutil.copytree(base, real, symlinks=True)
            for sep in (":", ";"):
                parts = rel.split(sep)
                for i, part in enumerate(parts):
                    if len(parts) < 2:
                        continue
                    decoy = os.path.join(root, part) if part else root
                    if os.path.realpath(decoy) == os.path.realpath(real) or decoy == root:
                        continue
                    for r in ("a", "dir/a", "canary", "sub/a", "d/a", "a.", "a..b"):
                        q = os.path.join(decoy, r)
                        if os.path.realpath(q).startswith(os.path.realpath(real) + os.sep) or os.path.exists(q):
                            continue
                        os.makedirs(os.path.dirname(q), exist_ok=True)
                        open(q, "w").write(body("CANARY8%d" % len(SPECIAL_CREATED)))
            SPECIAL_CREATED.append(real)
        except (OSError, ValueError):
            continue
    return top, base, absdir, tags, outside


def base_names(base):
    """Adversarial names derived from the base directory's own path: the base spelled out (as configured, canonical, with a
    trailing slash or dot, through a symlink, relative, in another case, as a file: URL, its parent) followed by tails that
    stay inside or climb out."""
    root = os.path.dirname(base)
    spell = [base, base + "/", base + "/.", root + "/./base", root + "//base", LINK, LINK + "/", "base", "./base", "base/", os.path.realpath(base), root, root + "/", os.path.dirname(root),
             base.upper(), root + "/BASE", root + "/Base", "file://" + base, "file:" + base, "file://localhost" + base, base.lstrip("/"), "/" + base, "//" + base, base + "/../base",
             root + "/base2/../base", "/tmp/../" + base.lstrip("/"), "\\" + base, base.replace("/", "\\")]
    tails = ["", "/", "/a", "/dir/a", "/d/d/a", "/../canary", "/./../canary", "//../canary", "/sub/../../canary", "/../a", "/..", "/../", "/../base/a", "/.a", "/../base2/a", "/../basea",
             "/d/d/../../../canary", "/../../canary", "/../../a", "/..\\canary", "/%2e%2e/canary", "/a/../../canary", "/\0/../canary", "/../canary\0", "/.././canary", "/dir/../../dir/a"]
    out = []
    for b in spell:
        for t in tails:
            out.append(b + t)
    return out


def gen_e2e(chk, base, absdir, outside):
    rng = chk.rng
    names = names_upto(SEGS_E2E, 3)
    targeted = ["a", "dir/a", "canary", "sub/a", "d/a", "a.", "a..b", "d/d/a", "dir/sub/a", "../a", "../canary", "..//a", "dir/../../a", "dir/../../canary", "a/../../a", "./../a", "sub/../../dir/a", "....//a", "..;/a",
                "%2e%2e/a", "..%2fa", "..\\..\\a", "..\\a", "‥/a", "．．/a", "․․/a", "..\0/a", "\0../a", "../base2/a", "../basea",
                absdir + "/a", "/" + absdir + "/a", "//" + absdir.lstrip("/") + "/a", "dir/" + absdir + "/a"] + outside + \
               [os.path.relpath(o, base) for o in outside] + ["dir/" + os.path.relpath(o, os.path.join(base, "dir")) for o in outside] + \
               ["a/" + "../" * k + "canary" for k in range(1, 6)] + ["dir/sub/" + "../" * k + "a" for k in range(1, 7)] + TRICKY + \
               base_names(base) + long_names(rng, absdir, 6000 if chk.thorough else 600)
    names = targeted + names
    if chk.thorough:
        level = [[s] for s in SEGS_E2E]
        for d in (2, 3, 4):
            level = [x + [s] for x in level for s in SEGS_E2E]
        names += ["/".join(x) for x in level]
    hows = range(7)
    cases = []
    for j, n in enumerate(names):
        if j < len(targeted) + 6174 and (j < 1100 or j >= len(targeted) or j % 7 < 3 or chk.thorough):
            for h in hows:
                cases.append([1, h] + enc(n))
        else:
            cases.append([1, rng.below(7)] + enc(n))
    return cases


def cb_apply(cb, name, parent):
    if cb == 1:
        rv = parent.split("/")
        rv.pop()
        for seg in name.split("/"):
            if seg == ".":
                pass
            elif seg == "..":
                if rv:
                    rv.pop()
            else:
                rv.append(seg)
        return "/".join(rv)
    if cb == 2:
        return "../" + name
    if cb == 3:
        return parent + "/../" + name
    return name


def gen_names2(chk, outside, base):
    names = ["a", "dir/a", "sub/a", "canary", "../a", "../canary", "./a", "./../a", "../../a", "../../canary", "../dir/a", "dir/../a", "dir/../../a", "..", ".", "",
             "/a", "a/", "..\\a", "a\\b", ".a", "%2e%2e/a", "‥/a", "\0", "a\0", L255, "../" + L255, "sub/../../a", "../sub/a", "../base2/a", "../../base2/a",
             "../basea", "x/../../../canary", "../../../../../../../../tmp/c17abs/a"] + \
            [os.path.relpath(o, base) for o in outside] + [os.path.relpath(o, os.path.join(base, "dir")) for o in outside] + \
            [x for k in (1, 13, 14, 15, 16, 17, 18, 31, 40) for x in ("/" * k + "sub/../../canary", "/" * k + "d/a", "d/" * k + "../" * (k + 1) + "canary", "d/" * k + "a",
                                                                  "/" * k + "tmp/c17abs/a", "d/" * k + "/tmp/c17abs/a")] + names_upto(SEGS_E2E[:-1], 2)
    names = names[:60] + [x for i, x in enumerate(base_names(base)) if i % 26 in (2, 5, 6, 7, 8, 9, 16) or chk.thorough] + names[60:]
    parents = ["main.html", "dir/main.html", "dir/sub/main.html", "../main.html", "/main.html", "x/y/z/main.html"]
    cases = []
    for j, n in enumerate(names):
        for cb in (0, 1, 2, 3):
            for how in (1, 2, 3, 4, 5):
                if j >= 60 + 200 and not chk.thorough and (j + cb + how) % 3:
                    continue
                par = parents[(j + cb + how) % len(parents)] if cb else parents[(j + how) % 2]
                cases.append((cb, how, par, n))
    return cases


def fs_status(path):
    """('found', tag) | ('missing',) | ('unreadable',) for the model's path (None = refused by safe_join)"""
    if path is None:
        return ("missing",)
    try:
        with open(path, "r", encoding="utf8") as f:
            content = f.read()
    except FileNotFoundError:
        return ("missing",)
    except (OSError, ValueError):
        return ("unreadable",)
    m = re.search(r'"([A-Z]+\d+)"', content)
    return ("found", m.group(1) if m else content)


def expected_e2e(how, path):
    """What the loader model + the operating system give for the model's path (None = safe_join refused).
    -> ('out', text) | ('err', kind) | ('none',)"""
    missing, unreadable = False, False
    content = None
    if path is None:
        missing = True
    else:
        try:
            with open(path, "r", encoding="utf8") as f:
                content = f.read()
        except FileNotFoundError:
            missing = True
        except (OSError, ValueError):
            unreadable = True
    if how == 6:
        return ("none",) if missing else ("err", 3) if unreadable else ("out", content)
    if unreadable:
        return ("err", 3)
    if missing:
        return ("out", "") if how == 5 else ("err", 5)
    m = re.search(r'"([A-Z]+\d+)"', content)
    return ("out", m.group(1))


def main():
    chk = Check("C17", "proof")
    chk.cov["trusted_base"] = TRUSTED_COMMON + ["Print Assumptions: all twelve theorems closed under the global context (no axioms)",
                                               "path resolution by the operating system is the specification function Spec.resolve (POSIX, symbolic links aside); std::path::PathBuf::push (Unix) is modelled by Model.push",
                                               "the model of State::get_template / join_template_path / LoaderStore::get / perform_include / load_blocks (names_from_templates_* theorems) is tied to the engine by the names part: a recording loader reports the names it is asked for, with no callback and with three callbacks"]
    chk.assumptions = ["Unix path semantics (Windows drive/UNC prefixes are outside the model)", "no symbolic links inside the base (excluded by the property)",
                       "template names are Rust strings (valid UTF-8); modelled as lists of code points",
                       "modelled: loader.rs::safe_join, path_loader (NotFound -> missing, other I/O errors -> InvalidOperation)"]
    ok_models, blog = build_models("C17")
    proofs_ok = chk.run_proofs()
    okc, clog, hooks = build_c17(False)
    okr, clog2, hooks2 = build_c17(True)
    if not (okc and okr):
        chk.violation("harness does not build against the current /repo tree", {"theorem_or_correspondence": "build of harness/src/bin/c17.rs", "log": (clog + clog2)[-1500:]}, True)
        chk.finish()
    if not ok_models:
        chk.violation("model build failed", {"theorem_or_correspondence": "coq/theories/C17/Model.v build", "log": blog[-1500:]}, True)
        chk.finish()
    hooks = hooks and hooks2
    mj = os.path.join(EXTRACT, "C17", "mjmodel")
    with Lock("c17-tree"):
        top, base, absdir, tags, outside = make_tree()
        try:
            run_all(chk, mj, hooks, proofs_ok, top, base, absdir, tags, outside)
        finally:
            shutil.rmtree(top, ignore_errors=True)
            shutil.rmtree(absdir, ignore_errors=True)
            try:
                os.remove(LINK)
            except OSError:
                pass
            try:
                os.rmdir(os.path.join(CACHE, "c17-tree"))
            except OSError:
                pass
    chk.finish()


def run_all(chk, mj, hooks, proofs_ok, top, base, absdir, tags, outside):
    replay = json.load(open(chk.replay))["replay"] if chk.replay else None
    # ---------------- pure ----------------
    if replay:
        pure = [replay["case"]] if replay.get("part") == "pure" else []
        exn = 0
    else:
        pure, exn = gen_pure(chk)
    hist = collections.Counter()
    nontriv = set()
    pure_bad, pure_mism, model_not_beneath = [], [], []
    kernel_ok, kernel_n = True, 0
    if pure:
        mod = prun([mj, "c17"], pure)
        # the theorem, re-observed: every accepted path of the model is beneath the base
        sp_mod = prun([mj, "c17-spec"], [c + o for c, o in zip(pure, mod)])
        model_not_beneath = [i for i in range(len(pure)) if sp_mod[i] != [1]]
        for i, c in enumerate(pure):
            b, j = dec(c, 1); n, _ = dec(c, j)
            segs = n.split("/")
            hist["pure:segments=%s" % (len(segs) if len(segs) <= 5 else "6-15" if len(segs) <= 15 else "16-40" if len(segs) <= 40 else ">40")] += 1
            hist["pure:" + ("accepted" if mod[i][0] == 1 else "rejected")] += 1
            if len(segs) >= 2 and (mod[i][0] == 1 or not (segs[0].startswith(".") or "\\" in segs[0])):
                nontriv.add(("p", b, n))
        if hooks:
            imp = {rel: prun([bin_path("c17", rel)], pure) for rel in (False, True)}
            for rel in (False, True):
                sp = prun([mj, "c17-spec"], [c + o for c, o in zip(pure, imp[rel])])
                for i, c in enumerate(pure):
                    o = imp[rel][i]
                    okp = sp[i] == [1]
                    if okp and o and o[0] == 1:
                        b, j = dec(c, 1)
                        p, _ = dec(o, 1)
                        okp = py_beneath(b, p)
                    if not okp:
                        pure_bad.append((i, rel, o))
                    if o != mod[i]:
                        pure_mism.append((i, rel))
            short = sorted(range(len(pure)), key=lambda i: (len(pure[i]) > 40, i * 7919 % 1013))[:40]
            kern = kernel_eval("run", [pure[i] for i in short], "k_C17_run", imports="Common.Base C17.Runner")
            kernel_ok = kern is not None and all(kern[j] == mod[i] for j, i in enumerate(short))
            kernel_n = len(short)
    # ---------------- end to end ----------------
    if replay:
        e2e = [replay["case"]] if replay.get("part") == "e2e" else []
    else:
        e2e = gen_e2e(chk, base, absdir, outside)
    e2e_bad, e2e_mism = [], []
    root = os.path.dirname(base)
    # the base directory handed to path_loader in different spellings: absolute (full name set), relative to the working
    # directory, with a trailing slash, with a `.` component, through a symbolic link outside the base
    configs = [("absolute", base, None), ("relative", "base", root), ("absolute with trailing slash", base + "/", None),
               ("absolute with a . component", root + "/./base", None), ("symbolic link to the base", LINK, None), ("relative ./base/", "./base/", root),
               # relative bases that climb: a loader that folds `..` lexically (or drops leading ones) serves a decoy of the same name under the cwd
               ("relative ../base", "../base", os.path.join(root, "work")), ("relative ./../base", "./../base", os.path.join(root, "work")),
               ("relative ../../root/base", "../../root/base", os.path.join(root, "work")), ("relative ../work/../base", "../work/../base", os.path.join(root, "work")),
               ("relative base/sub/..", "base/sub/..", root), ("relative base2/../base", "base2/../base", root), ("relative nonexistent/../base", "nonexistent/../base", root),
               ("relative .", ".", base), ("empty string", "", base), ("relative ..", "..", os.path.join(base, "dir")), ("relative ../..", "../..", os.path.join(base, "dir", "sub")),
               ("absolute with ..", os.path.join(root, "work", "..", "base"), None), ("absolute with trailing ..", os.path.join(base, "dir", ".."), None)] + \
              [("base path that is not UTF-8: %s" % ascii(os.path.relpath(p, root)), p, None) for p in NONUTF_CREATED] + \
              [("relative base path that is not UTF-8: %s" % ascii(os.path.relpath(p, root)), os.path.relpath(p, root), root) for p in NONUTF_CREATED[:2]] + \
              [("base path with special characters: %s" % ascii(os.path.relpath(p, root)), p, root) for p in SPECIAL_CREATED] + \
              [("relative base path with special characters: %s" % ascii(os.path.relpath(p, root)), os.path.relpath(p, root), root) for p in SPECIAL_CREATED[:4]]
    ntarget = sum(1 for c in e2e if c[1] == 0)
    for ci, (label, cfg_base, cwd) in enumerate(configs):
        if replay:
            if replay.get("config", "absolute") != label:
                continue
            sub = e2e
        else:
            # the first configuration gets every name; the others the targeted names (traversal spellings, base-derived, long)
            sub = e2e if ci == 0 else [c for c in e2e if len(c) < 400][:(9000 if ci < 6 else 3500 if ci < 19 else 2100) if not chk.thorough else (40000 if ci < 19 else 12000)]
        if not sub:
            continue
        env = dict(ENV, C17_BASE=cfg_base)
        mcases = [[0] + enc(cfg_base) + c[2:] for c in sub]
        mod_e = prun([mj, "c17"], mcases)
        real_base = os.path.realpath(base)
        for rel in (False, True):
            cmd = [bin_path("c17", rel)] if cwd is None else ["sh", "-c", 'cd "$0" && exec "$1"', cwd, bin_path("c17", rel)]
            outs = prun(cmd, sub, env=env)
            for i, c in enumerate(sub):
                o = outs[i]
                how = c[1]
                name, _ = dec(c, 2)
                text = dec(o, 1)[0] if o and o[0] == 1 else None
                # the property: never the content of a file outside the base
                leaked = text is not None and "CANARY" in text
                if o and (o[0] == "CRASH" or o[0] == 2):
                    leaked = True
                path = dec(mod_e[i], 1)[0] if mod_e[i][0] == 1 else None
                if path and cwd is not None:        # the empty path stays empty: opening "" is ENOENT whatever the cwd
                    path = os.path.join(cwd, path)
                exp = expected_e2e(how, path)
                got = ("out", text) if text is not None else ("err", o[1]) if o and o[0] == 0 else ("none",) if o == [3] else ("?", o)
                if text is not None and not leaked and text != "":
                    # returned content must belong to a file whose real location is beneath the base
                    m = re.search(r"IN\d+", text)
                    if not m or not os.path.realpath(os.path.join(base, tags[m.group(0)])).startswith(real_base + os.sep):
                        leaked = True
                if leaked:
                    e2e_bad.append((c, rel, o, label))
                elif got != exp:
                    e2e_mism.append((c, rel, got, exp, label))
                if rel is False:
                    hist["e2e:base=%s" % label] += 1
                    if ci == 0:
                        hist["e2e:how=%d" % how] += 1
                    hist["e2e:" + ("content" if got[0] == "out" and got[1] else "missing/unreadable")] += 1
                    if (got[0] == "out" and got[1]) or (name.count("/") >= 1 and ".." in name):
                        nontriv.add(("e", ci, how, name))
        chk.cov.setdefault("e2e_runs", 0)
        chk.cov["e2e_runs"] += len(sub) * 2
    # ---------------- names computed inside templates, with and without a join callback ----------------
    n2_bad, n2_mism, n2_cases = [], [], 0
    if not replay or replay.get("part") == "names":
        quad = [tuple(replay["quad"])] if replay else gen_names2(chk, outside, base)
        quad = [q for q in quad if cb_apply(q[0], q[3], q[2]) != q[2] and cb_apply(q[0], "a", q[2]) != q[2]]
        firsts = [cb_apply(cb, n, par) for cb, how, par, n in quad]
        seconds = [cb_apply(cb, "a", par) for cb, how, par, n in quad]
        uniq = sorted(set(firsts) | set(seconds))
        mp = prun([mj, "c17"], [[0] + enc(base) + enc(u) for u in uniq])
        path_of = {u: (dec(o, 1)[0] if o[0] == 1 else None) for u, o in zip(uniq, mp)}
        st1 = [fs_status(path_of[f]) for f in firsts]
        cases2 = [[2, cb, how] + enc(par) + enc(n) for cb, how, par, n in quad]
        masked = prun([mj, "c17-names"], [c + [{"found": 1, "unreadable": 2}.get(st[0], 0)] for c, st in zip(cases2, st1)])
        env = dict(ENV, C17_BASE=base)
        n2_cases = len(cases2)
        for rel in (False, True):
            outs = prun([bin_path("c17", rel)], cases2, env=env)
            for i, (cb, how, par, n) in enumerate(quad):
                o = outs[i]
                if not o or o[0] not in (0, 1) or -5 not in o:
                    n2_bad.append((i, rel, o, "crash")); continue
                k = len(o) - 1 - o[::-1].index(-5)
                res, tail = o[:k], o[k + 1:]
                asked, j = [], 1
                for _ in range(tail[0]):
                    a, j = dec(tail, j)
                    asked.append(a)
                text = dec(res, 1)[0] if res[0] == 1 else None
                if text is not None and "CANARY" in text:
                    n2_bad.append((i, rel, o, "canary")); continue
                # expectation from the model (names) and model path + file system (result)
                exp_asked = [firsts[i]]
                st = st1[i]
                if how == 5 and st[0] == "missing":
                    exp_asked.append(seconds[i])
                    st = fs_status(path_of[seconds[i]])
                exp = ("out", st[1]) if st[0] == "found" else ("err", 5) if st[0] == "missing" else ("err", 3)
                got = ("out", text) if text is not None else ("err", res[1])
                m = masked[i]
                m_asked, j = [], 1
                for _ in range(m[0]):
                    a, j = dec(m, j)
                    m_asked.append(a)
                if asked != exp_asked or m_asked != exp_asked or got != exp:
                    n2_mism.append((i, rel, {"asked": asked, "model_asked": m_asked, "expected_asked": exp_asked, "got": got, "expected": exp}))
                if rel is False:
                    hist["names:cb=%d" % cb] += 1
                    hist["names:" + ("content" if got[0] == "out" else "missing/unreadable")] += 1
                    if cb and firsts[i] != n:
                        nontriv.add(("n", cb, how, par, n))
        chk.cov["names_cases"] = n2_cases
        for i, rel, o, why in n2_bad[:3]:
            cb, how, par, n = quad[i]
            chk.violation("a template name computed inside a template made the path loader return the content of a file outside its base directory (or crash)",
                          {"part": "names", "quad": list(quad[i]), "callback": ["none", "documented relative join", "'../' + name", "parent + '/../' + name"][cb],
                           "how": how, "parent": par, "name": n, "profile": "release" if rel else "debug", "implementation": o[:40], "how_to": "./check C17 --replay <this file>"})
        if not n2_bad and n2_mism and not replay:
            i, rel, d = n2_mism[0]
            chk.violation("the name handed to the loader (or the result) differs from the model of State::get_template / join_template_path",
                          dict(d, theorem_or_correspondence="correspondence C17.Runner.run_names vs harness c17 (mode 2)", quad=list(quad[i]), profile="release" if rel else "debug"), True)
    # ---------------- evidence ----------------
    chk.cov["evaluations"] = len(pure) * (3 if hooks else 1) + chk.cov.get("e2e_runs", len(e2e) * 2) + n2_cases * 2
    chk.cov["distinct_nontrivial"] = len(nontriv)
    chk.cov["rule"] = ("pure part: safe_join (through hook H1) vs model on %d bases x all names of up to 3 segments over the property's 14-segment alphabet "
                       "('', '.', '..', '...', 'a', '.a', 'a.', 'a..b', 'a\\\\b', '..\\\\a', NUL, '%%2e%%2e', U+2025, 300 x 'a')%s plus seeded code-point noise; the "
                       "spec (accepted path resolves beneath the base) is evaluated on the implementation's answer and cross-checked with Python's normpath.  "
                       "End-to-end part: path_loader over a scratch tree with %d canary files outside the base (parent, grand-parent, sibling directories with a common "
                       "prefix, an absolute path under /tmp); every name of up to 3 segments over the alphabet + tree names, plus targeted traversal spellings and the "
                       "canaries' absolute and relative paths, each through get_template, include, extends, import, from-import, include-ignore-missing and the bare "
                       "loader closure, debug and release.  Names part: include / extends / import / from-import / include-with-two-choices from a registered template, without and with "
                       "three path-join callbacks (documented relative join, '../'+name, parent+'/../'+name), fresh environment and recording loader per case: the names the loader is asked for "
                       "and the result are compared with the model and model path + file system.  non-trivial = distinct case with >= 2 segments that is accepted or rejected because of a later segment (pure) "
                       "/ that returns content or contains '..' below the first segment (e2e)") % (len(BASES), " and all names of 4 and 5 segments" if chk.thorough else "", len(outside))
    chk.cov["exhaustive"] = False
    chk.cov["exhaustive_subbox_cases"] = exn
    chk.cov["hook_H1_available"] = bool(hooks)
    chk.cov["pure_cases"] = len(pure)
    chk.cov["e2e_cases"] = len(e2e)
    chk.cov["distribution"] = dict(hist)

    def show(c):
        if c[0] == 0:
            b, j = dec(c, 1); n, _ = dec(c, j)
            return {"part": "pure", "base": b, "name": n if len(n) < 80 else n[:40] + "...(%d chars)" % len(n)}
        n, _ = dec(c, 2)
        return {"part": "e2e", "how": ["get_template", "include", "extends", "import", "from import", "include ignore missing", "loader closure"][c[1]],
                "name": n if len(n) < 80 else n[:40] + "...(%d chars)" % len(n)}
    samples = [show(pure[i]) for i in (0, len(pure) // 3, len(pure) - 1)] if pure else []
    samples += [show(e2e[i]) for i in (0, len(e2e) // 2, len(e2e) - 1)] if e2e else []
    chk.cov["samples"] = samples
    chk.cov["impl_vs_model_disagreements"] = len(pure_mism) + len(e2e_mism) + len(n2_mism)
    chk.cov["model_paths_not_beneath_base"] = len(model_not_beneath)
    chk.cov["kernel_crosscheck"] = {"cases": kernel_n, "agree": bool(kernel_ok)}
    # ---------------- verdicts ----------------
    for i, rel, o in pure_bad[:3]:
        chk.violation("safe_join accepts a name that resolves outside the base directory",
                      dict(show(pure[i]), case=pure[i], profile="release" if rel else "debug", implementation=o, how_to="./check C17 --replay <this file>"))
    for c, rel, o, label in e2e_bad[:3]:
        chk.violation("the path loader returned the content of a file outside its base directory (or crashed)",
                      dict(show(c), case=c, config=label, base_directory=dict((l, b) for l, b, _ in configs)[label], profile="release" if rel else "debug", implementation=o[:40],
                           how_to="./check C17 --replay <this file>"))
    if not pure_bad and not e2e_bad:
        if pure_mism:
            i, rel = pure_mism[0]
            chk.violation("model and implementation of safe_join disagree", dict(show(pure[i]), theorem_or_correspondence="correspondence C17.Runner.run vs harness c17 (mode 0)",
                          case=pure[i], profile="release" if rel else "debug"), True)
        if e2e_mism:
            c, rel, got, exp, label = e2e_mism[0]
            chk.violation("loader model + file system and the engine disagree", dict(show(c), theorem_or_correspondence="correspondence path_loader model vs harness c17 (mode 1)",
                          case=c, config=label, got=got, expected=exp, profile="release" if rel else "debug"), True)
        if model_not_beneath:
            i = model_not_beneath[0]
            chk.violation("extracted model accepts a path not beneath the base although safe_join_beneath is proved", dict(show(pure[i]), theorem_or_correspondence="safe_join_beneath (extraction)", case=pure[i]), True)
        if not kernel_ok:
            chk.violation("kernel evaluation disagrees with extracted model", {"theorem_or_correspondence": "vm_compute cross-check of extraction"}, True)
        if not proofs_ok:
            chk.violation("proof obligations of C17 do not check", {"theorem_or_correspondence": chk.proof["problems"]}, True)
    if not hooks:
        chk.notes["hook"] = "the tree under test has no verif_hooks feature (hook H1): safe_join was exercised through path_loader only"


if __name__ == "__main__":
    main()
