#!/usr/bin/env python3
"""C18 - undeclared_variables never omits a variable the template reads (DESIGN.md §3 C18).

Three legs:
 1. construct-level search on the IMPLEMENTATION: for every statement position ("hole") and every
    expression form the self-referential template `{% <construct> V ... F[V] ... %}` is rendered with a
    recording context object; oracle: asked <= undeclared_variables(false) + globals and, for
    undeclared_variables(true), every asked key is the first segment of a reported name.  The same forms
    go through Expression::undeclared_variables / Expression::eval.
 2. generated programs (tools/proggen.py, with a capture mutation that makes targets collide with the
    names their right-hand sides read, and an extension mutation that adds slices, attribute / item
    chains and attribute assignments) x contexts: the same oracle on the implementation, and the
    correspondence with the model: extracted find_undeclared (Lang/Meta.v) = undeclared_variables(false)
    and find_undeclared_nested (C18/NMeta.v) = undeclared_variables(true) as sets; the lookups recorded by
    the error-carrying interpreter (C18/XInterp.v) = the keys recorded by the engine, for renders that
    finish AND for renders that fail (lookups up to the failure, same error kind).
 2b. the same programs with statements wrapped into named blocks and `self.name()` calls placed elsewhere
    (engine only - the Coq model has no blocks): asked <= reported + globals.
 2c. operation sequences on one environment (engine only): load a template under syntax / whitespace
    configuration A, reconfigure to B and load another one, analyse and render both (also template_from_str and
    Expression), go back to A, analyse again: soundness of every report, and the report of a stored template
    must not change when the environment is reconfigured.
 2d. the same programs with one loop made recursive and its body re-entered once through loop(...) in a random
    spelling (emit, value position, alias, assignment) from a random place (body, nested loop, macro declared in
    the body, call block, with) - engine only.
 2e. the same programs with a macro that is declared in the first iteration of a loop only, kept in a namespace
    attribute and called in every iteration and after the loop (engine only).
 3. proof audit of Props/C18.v (undeclared_sound for every outcome, nested mode, ...).
Renders run with debug info off; the lookups of the error-reporting path with debug info on are the
known finding `debug-info-lookups`, which is re-observed and kept apart from everything else.
"""
import os, sys, collections, copy, re
sys.path.insert(0, os.path.dirname(os.path.dirname(os.path.abspath(__file__))))
from vlib import *
import proggen, langenc

# ------------------------------------------------------------------------------------------------
# two constructs the shared generator / encoder do not have (in-process extensions, see C18/XInterp.v):
#   ("slice", e, a|None, b|None, c|None)   e[a:b:c]              -> EFilter F_slice e [a; b; c]
#   ("setattr", x, attr, e)               {% set x.attr = e %}   -> SEmit (EFilter F_setattr e [EVar x])
# (attribute names: langenc.attr_id / attr_name, the numbering of Lang/Syntax.v::attr_str - the nested report
#  mentions them and `m.key` looks the name up in a map)
# ------------------------------------------------------------------------------------------------
F_SLICE, F_SETATTR = 100, 101


if not getattr(langenc, "_c18_extended", False):
    langenc._c18_extended = True
    _enc_expr, _enc_stmt = langenc.expr, langenc.stmt
    _src_expr, _src_stmt = proggen.expr_src, proggen.stmt_src

    def enc_expr(e, N):
        if e[0] == "slice":
            out = [15, F_SLICE] + langenc.expr(e[1], N) + [3]
            for b in e[2:5]:
                out += [3] if b is None else langenc.expr(b, N)
            return out
        return _enc_expr(e, N)

    def enc_stmt(st, N):
        if st[0] == "setattr":
            return [1, 15, F_SETATTR] + langenc.expr(st[3], N) + [1, 4, N.id(st[1])]
        return _enc_stmt(st, N)

    def src_expr(e):
        if e[0] == "selfcall":
            return "self." + e[1] + "()"
        if e[0] == "nscall":
            return e[1] + "." + e[2] + "()"
        if e[0] == "slice":
            base = proggen.expr_src(e[1])
            if e[1][0] == "filter":          # `x|items[..]` does not parse: a subscript follows a primary only
                base = "(" + base + ")"
            return base + "[" + ":".join("" if b is None else proggen.expr_src(b) for b in e[2:5]) + "]"
        return _src_expr(e)

    def src_stmt(st):
        if st[0] == "block":
            return "{% block " + st[1] + " %}" + proggen.body_src(st[2]) + "{% endblock %}"
        if st[0] == "setattr":
            return "{% set " + st[1] + "." + st[2] + " = " + proggen.expr_src(st[3]) + " %}"
        return _src_stmt(st)

    langenc.expr, langenc.stmt = enc_expr, enc_stmt
    proggen.expr_src, proggen.stmt_src = src_expr, src_stmt

# ------------------------------------------------------------------------------------------------
# construct-level search
# ------------------------------------------------------------------------------------------------
# expression forms with one occurrence class of the variable V (t = true, f = false, l = [1,2,3], d = {"a":1})
FORMS = [
    ("var", "V"), ("paren", "((V))"), ("attr", "V.a"), ("attr-chain", "V.a.b"), ("item-base", "V[0]"),
    ("item-index", "l[V]"), ("item-str", "V['a']"), ("item-chain", "V[0][1]"), ("attr-item", "V.a[0]"),
    ("slice-base", "V[1:2]"), ("slice-base-open", "V[:]"), ("slice-base-step", "V[::2]"),
    ("slice-start", "l[V:]"), ("slice-stop", "l[:V]"), ("slice-step", "l[::V]"), ("slice-all", "V[V:V:V]"),
    ("slice-of-attr", "V.a[1:]"), ("neg", "-V"), ("not", "not V"),
    ("add-left", "V + 1"), ("add-right", "1 + V"), ("concat", "'a' ~ V"), ("pow", "2 ** V"), ("div", "1 / V"),
    ("floordiv", "7 // V"), ("rem", "7 % V"), ("mul", "V * 2"), ("sub", "3 - V"),
    ("and-left", "V and t"), ("and-right", "t and V"), ("and-right-dead", "f and V"),
    ("or-left", "V or t"), ("or-right", "f or V"), ("or-right-dead", "t or V"),
    ("ifexpr-then", "V if t else 1"), ("ifexpr-cond", "1 if V else 2"), ("ifexpr-else", "1 if f else V"),
    ("ifexpr-cond-noelse", "1 if V"), ("ifexpr-then-noelse", "V if t"),
    ("filter-base", "V|upper"), ("filter-arg", "'a'|default(V)"), ("filter-arg2", "'abc'|replace('a', V)"),
    ("filter-kwarg", "'abc'|replace(from='a', to=V)"), ("filter-chain", "V|string|upper"),
    ("filter-splat", "'abc'|replace(*V)"), ("filter-kwsplat", "'abc'|replace(**V)"),
    ("test-base", "V is defined"), ("test-not", "V is not none"), ("test-arg", "1 is eq(V)"),
    ("test-arg-bare", "4 is divisibleby V"), ("test-arg2", "V is divisibleby(V)"),
    ("cmp-left", "V == 1"), ("cmp-right", "1 == V"), ("cmp-chain-mid", "1 < V < 3"), ("cmp-chain-last", "0 < 1 < V"),
    ("in-left", "V in l"), ("in-right", "1 in V"), ("notin-right", "1 not in V"),
    ("list", "[1, V]"), ("tuple", "(V, 1)"), ("map-value", "{'a': V}"), ("map-key", "{V: 1}"),
    ("nested-list", "[[V]]"), ("call-arg", "range(V)"), ("call-kwarg", "dict(a=V)"), ("call-splat", "range(*V)"),
    ("call-kwsplat", "dict(**V)"), ("call-callee", "V(1)"), ("call-callee-noargs", "V()"),
    ("method-base", "V.items()"), ("method-arg", "d.get(V)"), ("method-chain", "V.a.b(1)"),
    ("call-item-callee", "V[0](1)"), ("call-result-attr", "V().a"), ("call-in-call", "range(range(V)|length)"),
]
# forms usable where a call expression is required ({% do %}, {% call %})
CALL_FORMS = [("call-callee", "V(1)"), ("call-callee-noargs", "V()"), ("call-arg", "dict(V)"), ("call-kwarg", "dict(a=V)"),
              ("method-base", "V.items()"), ("method-arg", "d.get(V)"), ("call-splat", "dict(*V)"), ("call-kwsplat", "dict(**V)")]

# statement positions; V is the name the construct binds (where it binds one), E the expression
HOLES = [
    ("emit", "{{ E }}"),
    ("if-cond", "{% if E %}a{% endif %}"), ("elif-cond", "{% if f %}a{% elif E %}b{% endif %}"),
    ("if-body", "{% if t %}{{ E }}{% endif %}"), ("else-body", "{% if f %}a{% else %}{{ E }}{% endif %}"),
    ("elif-body", "{% if f %}a{% elif t %}{{ E }}{% endif %}"),
    ("for-iter", "{% for V in E %}{{ V }}{% endfor %}"), ("for-iter-pair", "{% for V, y in E %}{{ y }}{% endfor %}"),
    ("for-iter-pair2", "{% for y, V in E %}{{ y }}{% endfor %}"),
    ("for-iter-other-target", "{% for y in E %}{{ y }}{% endfor %}"),
    ("for-filter", "{% for y in l if E %}{{ y }}{% endfor %}"), ("for-filter-target", "{% for V in l if E %}{{ V }}{% endfor %}"),
    ("for-body", "{% for y in l %}{{ E }}{% endfor %}"), ("for-body-target", "{% for V in l %}{{ E }}{% endfor %}"),
    ("for-else", "{% for y in [] %}b{% else %}{{ E }}{% endfor %}"), ("for-else-target", "{% for V in [] %}b{% else %}{{ E }}{% endfor %}"),
    ("for-after", "{% for V in l %}b{% endfor %}{{ E }}"), ("for-recursive-body", "{% for y in l recursive %}{{ E }}{% endfor %}"),
    ("for-nested-iter", "{% for y in l %}{% for V in E %}c{% endfor %}{% endfor %}"),
    ("for-nested-filter", "{% for y in l %}{% for z in l if E %}c{% endfor %}{% endfor %}"),
    ("set", "{% set V = E %}"), ("set-then-read", "{% set V = E %}{{ V }}"), ("set-tuple", "{% set V, y = E %}"),
    ("set-attr-base", "{% set V.a = E %}"), ("set-attr-base-const", "{% set V.a = 1 %}"), ("set-attr-value", "{% set ns = namespace() %}{% set ns.a = E %}"),
    ("set-twice", "{% set V = 1 %}{% set V = E %}"),
    ("set-in-if-then-read", "{% if f %}{% set V = 1 %}{% endif %}{{ E }}"),
    ("set-in-else-then-read", "{% if t %}a{% else %}{% set V = 1 %}{% endif %}{{ E }}"),
    ("set-in-for-then-read", "{% for y in l %}{% set V = 1 %}{% endfor %}{{ E }}"),
    ("set-in-with-then-read", "{% with %}{% set V = 1 %}{% endwith %}{{ E }}"),
    ("set-in-macro-then-read", "{% macro m() %}{% set V = 1 %}{% endmacro %}{{ m() }}{{ E }}"),
    ("set-in-block-then-read", "{% block b %}{% set V = 1 %}{% endblock %}{{ E }}"),
    ("set-in-setblock-then-read", "{% set z %}{% set V = 1 %}{% endset %}{{ E }}"),
    ("set-in-filterblock-then-read", "{% filter upper %}{% set V = 1 %}{% endfilter %}{{ E }}"),
    ("set-in-autoescape-then-read", "{% autoescape false %}{% set V = 1 %}{% endautoescape %}{{ E }}"),
    ("set-in-callblock-then-read", "{% macro m() %}{{ caller() }}{% endmacro %}{% call m() %}{% set V = 1 %}{% endcall %}{{ E }}"),
    ("set-in-loop-else-then-read", "{% for y in [] %}{% else %}{% set V = 1 %}{% endfor %}{{ E }}"),
    ("with", "{% with V = E %}{{ V }}{% endwith %}"), ("with-second", "{% with y = 1, V = E %}a{% endwith %}"),
    ("with-sees-first", "{% with V = 1, y = E %}a{% endwith %}"), ("with-body", "{% with y = 1 %}{{ E }}{% endwith %}"),
    ("with-after", "{% with V = 1 %}a{% endwith %}{{ E }}"), ("with-tuple", "{% with (V, y) = E %}a{% endwith %}"),
    ("setblock-body", "{% set V %}{{ E }}{% endset %}"), ("setblock-filter-arg", "{% set V | default(E) %}a{% endset %}"),
    ("setblock-filter-arg-other", "{% set y | default(E) %}a{% endset %}"), ("setblock-then-read", "{% set V %}a{% endset %}{{ E }}"),
    ("filterblock-arg", "{% filter default(E) %}a{% endfilter %}"), ("filterblock-arg2", "{% filter replace('a', E) %}a{% endfilter %}"),
    ("filterblock-chain-arg", "{% filter upper|default(E) %}a{% endfilter %}"),
    ("filterblock-body", "{% filter upper %}{{ E }}{% endfilter %}"),
    ("autoescape-value", "{% autoescape E %}a{% endautoescape %}"), ("autoescape-body", "{% autoescape false %}{{ E }}{% endautoescape %}"),
    ("macro-default", "{% macro m(V=E) %}{{ V }}{% endmacro %}{{ m() }}"),
    ("macro-default-uncalled", "{% macro m(V=E) %}{{ V }}{% endmacro %}"),
    ("macro-default-sees-earlier", "{% macro m(V, y=E) %}{{ y }}{% endmacro %}{{ m(1) }}"),
    ("macro-default-sees-later", "{% macro m(y=E, V=2) %}{{ y }}{% endmacro %}{{ m() }}"),
    ("macro-default-first-of-two", "{% macro m(V=E, y=2) %}{{ V }}{% endmacro %}{{ m() }}"),
    ("macro-body", "{% macro m() %}{{ E }}{% endmacro %}{{ m() }}"), ("macro-body-uncalled", "{% macro m() %}{{ E }}{% endmacro %}"),
    ("macro-body-param", "{% macro m(V) %}{{ E }}{% endmacro %}{{ m(1) }}"),
    ("macro-body-own-name", "{% macro V() %}{{ E }}{% endmacro %}"), ("macro-name-then-read", "{% macro V() %}a{% endmacro %}{{ E }}"),
    ("macro-param-then-read", "{% macro m(V) %}a{% endmacro %}{{ E }}"),
    ("macro-body-set-before", "{% set V = 1 %}{% macro m() %}{{ E }}{% endmacro %}{{ m() }}"),
    ("macro-body-set-after", "{% macro m() %}{{ E }}{% endmacro %}{% set V = 1 %}{{ m() }}"),
    ("macro-in-macro-body", "{% macro o() %}{% macro m() %}{{ E }}{% endmacro %}{{ m() }}{% endmacro %}{{ o() }}"),
    ("macro-in-for-body", "{% for V in l %}{% macro m() %}{{ E }}{% endmacro %}{{ m() }}{% endfor %}"),
    ("macro-call-arg", "{% macro m(a) %}{{ a }}{% endmacro %}{{ m(E) }}"), ("macro-call-kwarg", "{% macro m(a) %}{{ a }}{% endmacro %}{{ m(a=E) }}"),
    ("callblock-arg", "{% macro m(a) %}{{ caller() }}{% endmacro %}{% call m(E) %}b{% endcall %}"),
    ("callblock-body", "{% macro m() %}{{ caller() }}{% endmacro %}{% call m() %}{{ E }}{% endcall %}"),
    ("callblock-body-uncalled", "{% macro m() %}a{% endmacro %}{% call m() %}{{ E }}{% endcall %}"),
    ("callblock-param-default", "{% macro m() %}{{ caller() }}{% endmacro %}{% call(V=E) m() %}{{ V }}{% endcall %}"),
    ("callblock-body-param", "{% macro m() %}{{ caller(1) }}{% endmacro %}{% call(V) m() %}{{ E }}{% endcall %}"),
    ("callblock-after", "{% macro m() %}{{ caller(1) }}{% endmacro %}{% call(V) m() %}a{% endcall %}{{ E }}"),
    ("callblock-unknown-macro", "{% call(V) nomacro() %}{{ E }}{% endcall %}"),
    ("block-body", "{% block b %}{{ E }}{% endblock %}"), ("block-after-set", "{% set V = 1 %}{% block b %}{{ E }}{% endblock %}"),
    ("self-block-call", "{% block b %}{{ E }}{% endblock %}{{ self.b() }}"),
    # a block is also rendered through self.name(), from places where the names around its definition are not bound
    ("block-in-for-self-after", "{% for V in l %}{% block b %}{{ E }}{% endblock %}{% endfor %}{{ self.b() }}"),
    ("block-in-for-body-self-after", "{% for y in l %}{% block b %}{{ E }}{% endblock %}{% endfor %}{{ self.b() }}"),
    ("block-in-for-self-before", "{{ self.b() }}{% for V in l %}{% block b %}{{ E }}{% endblock %}{% endfor %}"),
    ("block-in-with-self-after", "{% with V = 1 %}{% block b %}{{ E }}{% endblock %}{% endwith %}{{ self.b() }}"),
    ("block-in-if-set-self-after", "{% if t %}{% set V = 1 %}{% block b %}{{ E }}{% endblock %}{% endif %}{{ self.b() }}"),
    ("block-after-set-self-before", "{{ self.b() }}{% set V = 1 %}{% block b %}{{ E }}{% endblock %}"),
    ("block-after-set-self-in-macro", "{% set V = 1 %}{% block b %}{{ E }}{% endblock %}{% macro m() %}{{ self.b() }}{% endmacro %}{{ m() }}"),
    ("block-after-set-self-in-callblock", "{% set V = 1 %}{% block b %}{{ E }}{% endblock %}{% macro m() %}{{ caller() }}{% endmacro %}{% call m() %}{{ self.b() }}{% endcall %}"),
    ("block-in-for-self-in-other-block", "{% for V in l %}{% block a %}{{ E }}{% endblock %}{% endfor %}{% block c %}{{ self.a() }}{% endblock %}"),
    ("block-in-for-self-via-two-blocks", "{% for V in l %}{% block a %}{{ E }}{% endblock %}{% block c %}{{ self.a() }}{% endblock %}{% endfor %}{{ self.c() }}"),
    ("block-in-nested-for-self-in-outer", "{% for y in l %}{% for V in l %}{% block b %}{{ E }}{% endblock %}{% endfor %}{{ self.b() }}{% endfor %}"),
    ("block-in-setblock-in-with-self-after", "{% with V = 1 %}{% set z %}{% block b %}{{ E }}{% endblock %}{% endset %}{% endwith %}{{ self.b() }}"),
    ("block-in-for-else-self-after", "{% for V in [] %}a{% else %}{% with V = 2 %}{% block b %}{{ E }}{% endblock %}{% endwith %}{% endfor %}{{ self.b() }}"),
    ("block-in-for-self-in-set", "{% for V in l %}{% block b %}{{ E }}{% endblock %}{% endfor %}{% set z = self.b() %}"),
    ("block-in-for-self-in-filter-arg", "{% for V in l %}{% block b %}{{ E }}{% endblock %}{% endfor %}{{ 'a'|default(self.b()) }}"),
    # block tags at every statement position (where the parser refuses them the template does not compile: vacuous)
    ("block-in-callblock-param-self-after", "{% macro m() %}[{{ caller(1) }}]{% endmacro %}{% call(V) m() %}{% block b %}{{ E }}{% endblock %}{% endcall %}{{ self.b() }}"),
    ("block-in-callblock-set-self-after", "{% macro m() %}[{{ caller() }}]{% endmacro %}{% call m() %}{% set V = 1 %}{% block b %}{{ E }}{% endblock %}{% endcall %}{{ self.b() }}"),
    ("block-in-callblock-in-for-self-after", "{% macro m() %}[{{ caller() }}]{% endmacro %}{% for V in l %}{% call m() %}{% block b %}{{ E }}{% endblock %}{% endcall %}{% endfor %}{{ self.b() }}"),
    ("block-in-callblock-self-before", "{{ self.b() }}{% macro m() %}[{{ caller(1) }}]{% endmacro %}{% call(V) m() %}{% block b %}{{ E }}{% endblock %}{% endcall %}"),
    ("block-in-macro-param-self-after", "{% macro m(V) %}{% block b %}{{ E }}{% endblock %}{% endmacro %}{{ m(1) }}{{ self.b() }}"),
    ("block-in-macro-set-self-after", "{% macro m() %}{% set V = 1 %}{% block b %}{{ E }}{% endblock %}{% endmacro %}{{ m() }}{{ self.b() }}"),
    ("block-in-macro-in-for-self-after", "{% for V in l %}{% macro m() %}{% block b %}{{ E }}{% endblock %}{% endmacro %}{{ m() }}{% endfor %}{{ self.b() }}"),
    ("block-in-block-set-self-after", "{% block a %}{% set V = 1 %}{% block b %}{{ E }}{% endblock %}{% endblock %}{{ self.b() }}"),
    ("block-in-block-in-for-self-after", "{% for V in l %}{% block a %}{% block b %}{{ E }}{% endblock %}{% endblock %}{% endfor %}{{ self.b() }}"),
    ("block-in-if-in-for-self-after", "{% for V in l %}{% if t %}{% block b %}{{ E }}{% endblock %}{% endif %}{% endfor %}{{ self.b() }}"),
    ("block-in-else-in-for-self-after", "{% for V in l %}{% if f %}a{% else %}{% block b %}{{ E }}{% endblock %}{% endif %}{% endfor %}{{ self.b() }}"),
    ("block-in-elif-in-with-self-after", "{% with V = 1 %}{% if f %}a{% elif t %}{% block b %}{{ E }}{% endblock %}{% endif %}{% endwith %}{{ self.b() }}"),
    ("block-in-filterblock-in-for-self-after", "{% for V in l %}{% filter upper %}{% block b %}{{ E }}{% endblock %}{% endfilter %}{% endfor %}{{ self.b() }}"),
    ("block-in-autoescape-in-with-self-after", "{% with V = 1 %}{% autoescape false %}{% block b %}{{ E }}{% endblock %}{% endautoescape %}{% endwith %}{{ self.b() }}"),
    ("block-in-for-else-self-after", "{% for y in [] %}a{% else %}{% set V = 1 %}{% block b %}{{ E }}{% endblock %}{% endfor %}{{ self.b() }}"),
    ("block-in-for-filtered-self-after", "{% for V in l if t %}{% block b %}{{ E }}{% endblock %}{% endfor %}{{ self.b() }}"),
    ("block-in-for-pair-self-after", "{% for y, V in [[1, 2]] %}{% block b %}{{ E }}{% endblock %}{% endfor %}{{ self.b() }}"),
    ("block-in-with-self-in-do", "{% with V = 1 %}{% block b %}{{ E }}{% endblock %}{% endwith %}{% do self.b() %}"),
    ("block-in-with-self-in-callblock-call", "{% with V = 1 %}{% block b %}{{ E }}{% endblock %}{% endwith %}{% macro m(a) %}{{ caller() }}{% endmacro %}{% call m(self.b()) %}c{% endcall %}"),
    # a name bound to an UNDEFINED value, then a macro that reads it is declared and called (the closure must
    # hold the name, or the macro body falls through to the context)
    ("macro-body-set-silent-undefined-before", "{% set V = 1 if f %}{% macro m() %}[{{ E }}]{% endmacro %}{{ m() }}"),
    ("macro-body-set-undefined-var-before", "{% set V = nosuch %}{% macro m() %}[{{ E }}]{% endmacro %}{{ m() }}"),
    ("macro-body-set-missing-attr-before", "{% set V = d.missing %}{% macro m() %}[{{ E }}]{% endmacro %}{{ m() }}"),
    ("macro-body-with-undefined-before", "{% with V = d.missing %}{% macro m() %}[{{ E }}]{% endmacro %}{{ m() }}{% endwith %}"),
    ("macro-body-for-undefined-item", "{% for V in [d.missing] %}{% macro m() %}[{{ E }}]{% endmacro %}{{ m() }}{% endfor %}"),
    ("macro-in-macro-unpassed-arg", "{% macro o(V) %}{% macro m() %}<{{ E }}>{% endmacro %}{{ m() }}{% endmacro %}{{ o() }}"),
    ("macro-in-macro-undefined-default", "{% macro o(V=d.missing) %}{% macro m() %}<{{ E }}>{% endmacro %}{{ m() }}{% endmacro %}{{ o() }}"),
    ("callblock-body-set-undefined-before", "{% macro m() %}{{ caller() }}{% endmacro %}{% set V = 1 if f %}{% call m() %}{{ E }}{% endcall %}"),
    ("callblock-body-unpassed-param", "{% macro m() %}{{ caller() }}{% endmacro %}{% call(V) m() %}{% macro i() %}{{ E }}{% endmacro %}{{ i() }}{% endcall %}"),
    ("macro-body-setblock-undefined-in-with", "{% with V = nosuch %}{% macro m() %}{% set z %}{{ E }}{% endset %}{{ z }}{% endmacro %}{{ m() }}{% endwith %}"),
    ("macro-called-in-loop-set-undefined", "{% set V = d.missing %}{% macro m() %}{{ E }}{% endmacro %}{% for y in l %}{{ m() }}{% endfor %}"),
    ("raw-neighbour", "{% raw %}{{ V }}{% endraw %}{{ E }}"),
]
# positions that need a call expression
CALL_HOLES = [
    ("do", "{% do E %}"), ("callblock-call", "{% call E %}b{% endcall %}"), ("callblock-call-with-params", "{% call(V) E %}b{% endcall %}"),
    ("do-after-set", "{% set V = f %}{% do E %}"),
]
# recursive loops: the loop body (which reads the outer binding V) is re-entered through loop(...) in every
# spelling, from every place, below every kind of outer binding
LOOP_OUTER = [
    ("set", "{% set V = 1 %}@"), ("with", "{% with V = 1 %}@{% endwith %}"), ("for", "{% for V in [1] %}@{% endfor %}"),
    ("macro-arg", "{% macro o(V) %}@{% endmacro %}{{ o(1) }}"), ("set-block", "{% set V %}a{% endset %}@"),
    ("callblock-param", "{% macro o() %}{{ caller(1) }}{% endmacro %}{% call(V) o() %}@{% endcall %}"),
    ("macro-default", "{% macro o(V=2) %}@{% endmacro %}{{ o() }}"),
]
LOOP_PLACE = [
    ("body", "#"), ("nested-loop", "{% for z in [1] %}#{% endfor %}"), ("nested-with", "{% with q = 1 %}#{% endwith %}"),
    ("macro-in-loop", "{% macro i() %}#{% endmacro %}{{ i() }}"), ("callblock-body", "{% call w() %}#{% endcall %}"),
    ("block", "{% block b %}#{% endblock %}"), ("set-block-body", "{% set z %}#{% endset %}{{ z }}"),
    ("macro-in-macro", "{% macro i() %}{% macro j() %}#{% endmacro %}{{ j() }}{% endmacro %}{{ i() }}"),
]
LOOP_SPELL = [
    ("emit", "{{ loop([5]) }}"), ("value", "{{ loop([5])|string }}"), ("alias", "{{ lp([5]) }}"), ("namespace", "{{ ns.f([5]) }}"),
    ("set-then-emit", "{% set r = loop([5]) %}{{ r }}"), ("alias-value", "{{ lp([5])|string }}"), ("list-item", "{{ [lp][0]([5]) }}"),
    ("do", "{% do loop([5]) %}"),
]
LOOP_HOLES = []
for ol, ot in LOOP_OUTER:
    for pl, pt in LOOP_PLACE:
        for sl, st_ in LOOP_SPELL:
            core = ("{% macro w() %}{{ caller() }}{% endmacro %}{% for y in [1] recursive %}[{{ E }}]{% set lp = loop %}{% set ns = namespace(f=loop) %}"
                    "{% if loop.depth0 == 0 %}" + pt.replace("#", st_) + "{% endif %}{% endfor %}")
            LOOP_HOLES.append(("recursive-loop:%s/%s/%s" % (ol, pl, sl), ot.replace("@", core)))
# escaping macros: a macro that reads the outer binding V is declared under a condition (in one iteration of a
# loop, in a with / block / another macro), kept alive in a namespace attribute (or a list in it, or as the caller
# of a call block) and called later: in a later iteration, after the loop, in a nested loop, from another macro
_DECL = "{% macro m() %}<{{ E }}>{% endmacro %}{% set ns.m = m %}"
ESC_CORE = [
    ("loop-first/call-every-iteration", "{% for i in [1, 2, 3] %}{% if loop.first %}" + _DECL + "{% endif %}{{ ns.m() }}{% endfor %}"),
    ("loop-first/call-after-loop", "{% for i in [1, 2] %}{% if loop.first %}" + _DECL + "{% endif %}{% endfor %}{{ ns.m() }}"),
    ("loop-first/call-last-iteration", "{% for i in [1, 2, 3] %}{% if loop.first %}" + _DECL + "{% endif %}{% if loop.last %}{{ ns.m() }}{% endif %}{% endfor %}"),
    ("loop-second/call-third", "{% for i in [1, 2, 3] %}{% if i == 2 %}" + _DECL + "{% endif %}{% if i == 3 %}{{ ns.m() }}{% endif %}{% endfor %}"),
    ("loop-first/call-in-nested-loop", "{% for i in [1, 2] %}{% if loop.first %}" + _DECL + "{% endif %}{% for j in [1] %}{{ ns.m() }}{% endfor %}{% endfor %}"),
    ("loop-first/call-from-other-macro", "{% macro c() %}{{ ns.m() }}{% endmacro %}{% for i in [1, 2] %}{% if loop.first %}" + _DECL + "{% else %}{{ c() }}{% endif %}{% endfor %}"),
    ("with-in-loop/call-every-iteration", "{% for i in [1, 2] %}{% with q = 1 %}{% if i == 1 %}" + _DECL + "{% endif %}{% endwith %}{{ ns.m() }}{% endfor %}"),
    ("nested-macro/call-every-iteration", "{% macro mk() %}" + _DECL + "{% endmacro %}{% for i in [1, 2] %}{% if loop.first %}{{ mk() }}{% endif %}{{ ns.m() }}{% endfor %}"),
    ("block-in-loop/call-every-iteration", "{% for i in [1, 2] %}{% if loop.first %}{% block b %}" + _DECL + "{% endblock %}{% endif %}{{ ns.m() }}{% endfor %}"),
    ("loop-first/list-in-namespace", "{% for i in [1, 2] %}{% if loop.first %}{% macro m() %}<{{ E }}>{% endmacro %}{% set ns.m = [m] %}{% endif %}{{ ns.m[0]() }}{% endfor %}"),
    ("loop-first/caller-kept", "{% macro keep() %}{% set ns.m = caller %}{% endmacro %}{% for i in [1, 2] %}{% if loop.first %}{% call keep() %}<{{ E }}>{% endcall %}{% endif %}{{ ns.m() }}{% endfor %}"),
    ("loop-first/call-in-later-filtered-loop", "{% for i in [1, 2, 3] if i != 2 %}{% if loop.first %}" + _DECL + "{% else %}{{ ns.m() }}{% endif %}{% endfor %}"),
    ("if-only/call-after", "{% if t %}" + _DECL + "{% endif %}{{ ns.m() }}"),
    ("nested-loops/inner-first/call-in-outer-later", "{% for a in [1, 2] %}{% for i in [1, 2] %}{% if loop.first and a == 1 %}" + _DECL + "{% endif %}{% endfor %}{{ ns.m() }}{% endfor %}"),
]
ESC_HOLES = [("escaping-macro:%s/%s" % (ol, cl), "{% set ns = namespace(m=none) %}" + ot.replace("@", ct))
             for ol, ot in LOOP_OUTER for cl, ct in ESC_CORE]
LOOP_FORMS = {"var", "attr", "filter-arg", "call-arg"}
LOOP_GUARD = "{% if loop.depth0 == 0 %}"


def loop_known_class(hl):
    """known finding recursive-loop-reentered-from-macro-context: the loop is re-entered through a NON-emit
    spelling from inside a macro or call-block body"""
    if not hl.startswith("recursive-loop:"):
        return False
    outer, place, spell = hl.split(":", 1)[1].split("/")
    return place in ("macro-in-loop", "macro-in-macro", "callblock-body") and spell != "emit"
NAMES_FULL = ["x", "loop"]
NAMES_SPECIAL = ["self", "super", "caller", "varargs", "kwargs", "range", "namespace"]
SPECIAL_FORMS = {"var", "attr", "item-base", "slice-base", "call-callee", "call-callee-noargs", "method-base", "filter-arg", "call-arg", "method-chain"}
BASE_CTX = {"t": True, "f": False, "l": [1, 2, 3], "d": {"a": 1}}


def inst(tpl, form, v):
    return tpl.replace("E", form.replace("V", v)).replace("V", v)


def construct_cases(thorough):
    """[(hole, form, name, ctx_label, template, ctx)]"""
    out = []
    ctxs = lambda v: [("absent", {}), ("pairs", {v: [[1, 2], [3, 4]]}), ("int", {v: 2})]
    for hl, ht in HOLES:
        for fl, fs in FORMS:
            for v in NAMES_FULL + NAMES_SPECIAL:
                if v in NAMES_SPECIAL and fl not in SPECIAL_FORMS:
                    continue
                for cl, extra in ctxs(v):
                    if not thorough and v != "x" and cl == "int":
                        continue
                    c = dict(BASE_CTX); c.update(extra)
                    out.append((hl, fl, v, cl, inst(ht, fs, v), c))
    for hl, ht in CALL_HOLES:
        for fl, fs in CALL_FORMS:
            for v in NAMES_FULL + NAMES_SPECIAL:
                for cl, extra in ctxs(v):
                    c = dict(BASE_CTX); c.update(extra)
                    out.append((hl, fl, v, cl, inst(ht, fs, v), c))
    for hl, ht in LOOP_HOLES + ESC_HOLES:
        for fl, fs in FORMS:
            if fl not in LOOP_FORMS or (not thorough and fl not in ("var", "filter-arg")):
                continue
            for cl, extra in ctxs("x")[:2]:
                c = dict(BASE_CTX); c.update(extra)
                out.append((hl, fl, "x", cl, inst(ht, fs, "x"), c))
    seen, ded = set(), []
    for c in out:                                   # positions without an expression give the same template for every form
        k = (c[4], json.dumps(c[5], sort_keys=True))
        if k not in seen:
            seen.add(k); ded.append(c)
    return ded


def missing_of(r):
    """(missing from flat report, missing from nested report) for one response of bin c18"""
    if "asked" not in r:
        return None
    asked = set(r["asked"]); glob = set(r["globals"])
    flat = set(r["flat"]); nested = r["nested"]
    m1 = sorted(asked - flat - glob)
    m2 = sorted(k for k in asked - glob if not any(n == k or n.startswith(k + ".") for n in nested))
    return m1, m2


def run_c18(reqs, release=False):
    return run_json([bin_path("c18", release)], reqs)


# ------------------------------------------------------------------------------------------------
# generated programs
# ------------------------------------------------------------------------------------------------
def idents_in_expr(e, acc):
    t = e[0]
    if t == "var": acc.add(e[1])
    elif t == "list": [idents_in_expr(x, acc) for x in e[1]]
    elif t in ("neg", "not"): idents_in_expr(e[1], acc)
    elif t == "bin": idents_in_expr(e[2], acc); idents_in_expr(e[3], acc)
    elif t == "cmp":
        idents_in_expr(e[1], acc); [idents_in_expr(r, acc) for _, r in e[2]]
    elif t in ("and", "or"): idents_in_expr(e[1], acc); idents_in_expr(e[2], acc)
    elif t == "ifexpr":
        idents_in_expr(e[1], acc); idents_in_expr(e[2], acc)
        if e[3] is not None: idents_in_expr(e[3], acc)
    elif t == "item": idents_in_expr(e[1], acc); idents_in_expr(e[2], acc)
    elif t == "attr": idents_in_expr(e[1], acc)
    elif t in ("filter", "test"):
        idents_in_expr(e[2], acc); [idents_in_expr(a, acc) for a in e[3]]
    elif t == "call":
        acc.add(e[1]); [idents_in_expr(a, acc) for a in e[2]]; [idents_in_expr(v, acc) for _, v in e[3]]
    elif t == "slice":
        [idents_in_expr(b, acc) for b in e[1:5] if b is not None]
    elif t == "map":
        for k, v in e[1]:
            idents_in_expr(k, acc); idents_in_expr(v, acc)


def rename_expr(e, mp):
    t = e[0]
    R = lambda x: rename_expr(x, mp)
    if t == "var": return ("var", mp.get(e[1], e[1]))
    if t == "list": return ("list", [R(x) for x in e[1]])
    if t in ("neg", "not"): return (t, R(e[1]))
    if t == "bin": return ("bin", e[1], R(e[2]), R(e[3]))
    if t == "cmp": return ("cmp", R(e[1]), [(o, R(r)) for o, r in e[2]])
    if t in ("and", "or"): return (t, R(e[1]), R(e[2]))
    if t == "ifexpr": return ("ifexpr", R(e[1]), R(e[2]), None if e[3] is None else R(e[3]))
    if t == "item": return ("item", R(e[1]), R(e[2]))
    if t == "attr": return ("attr", R(e[1]), e[2])
    if t == "filter": return ("filter", e[1], R(e[2]), [R(a) for a in e[3]])
    if t == "test": return ("test", e[1], R(e[2]), [R(a) for a in e[3]], e[4])
    if t == "call": return ("call", mp.get(e[1], e[1]), [R(a) for a in e[2]], [(k, R(v)) for k, v in e[3]])
    if t == "slice": return ("slice", R(e[1])) + tuple(None if b is None else R(b) for b in e[2:5])
    if t == "map": return ("map", [(R(k), R(v)) for k, v in e[1]])
    return e


def rename_body(b, mp):
    return [rename_stmt(s, mp) for s in b]


def rename_stmt(s, mp):
    t = s[0]
    N = lambda n: mp.get(n, n)
    E = lambda e: rename_expr(e, mp)
    B = lambda b: rename_body(b, mp)
    if t == "emit": return ("emit", E(s[1]))
    if t == "if": return ("if", [(E(c), B(b)) for c, b in s[1]], None if s[2] is None else B(s[2]))
    T = lambda tg: N(tg) if isinstance(tg, str) else [N(x) for x in tg]       # a name or an unpacking pair
    if t == "for":
        tg = T(s[1])
        return ("for", tg, E(s[2]), None if s[3] is None else E(s[3]), B(s[4]), None if s[5] is None else B(s[5]), s[6])
    if t == "set": return ("set", T(s[1]), E(s[2]))
    if t == "setblock": return ("setblock", N(s[1]), B(s[2]), s[3])
    if t == "with": return ("with", [(T(n), E(e)) for n, e in s[1]], B(s[2]))
    if t == "macro": return ("macro", N(s[1]), [N(p) for p in s[2]], [(N(p), E(d)) for p, d in s[3]], B(s[4]))
    if t == "callblock": return ("callblock", N(s[1]), [E(a) for a in s[2]], B(s[3]))
    if t == "filterblock": return ("filterblock", s[1], B(s[2]))
    if t == "autoescape": return ("autoescape", E(s[1]), B(s[2]))
    if t == "setattr": return ("setattr", N(s[1]), s[2], E(s[3]))
    return s


def target_names(tg):
    return [tg] if isinstance(tg, str) else list(tg)


def bound_names(body, acc):
    for s in body:
        t = s[0]
        if t in ("for", "set"): acc.update(target_names(s[1]))
        elif t == "setblock": acc.add(s[1])
        elif t == "with":
            for n, _ in s[1]:
                acc.update(target_names(n))
        elif t == "macro": acc.add(s[1]); acc.update(s[2])
        for b in proggen._sub_bodies(s):
            bound_names(b, acc)


def read_names(body, acc):
    for s in body:
        t = s[0]
        if t == "emit": idents_in_expr(s[1], acc)
        elif t == "if": [idents_in_expr(c, acc) for c, _ in s[1]]
        elif t == "for":
            idents_in_expr(s[2], acc)
            if s[3] is not None: idents_in_expr(s[3], acc)
        elif t == "set": idents_in_expr(s[2], acc)
        elif t == "with": [idents_in_expr(e, acc) for _, e in s[1]]
        elif t == "macro": [idents_in_expr(d, acc) for _, d in s[3]]
        elif t == "callblock":
            acc.add(s[1]); [idents_in_expr(a, acc) for a in s[2]]
        elif t == "autoescape": idents_in_expr(s[1], acc)
        elif t == "setattr":
            acc.add(s[1]); idents_in_expr(s[3], acc)
        for b in proggen._sub_bodies(s):
            read_names(b, acc)


KIND_POOL = {"i": ["n", "m", "undef0"], "w": ["n", "m", "undef0"], "p": ["n", "m", "undef0"],
             "b": ["s", "undef0"], "s": ["n", "m", "s", "undef0"], "u": ["undef0"]}      # u: unpacking targets


def capture_mutation(body, rng):
    """Renames up to three bound names to names the program reads (context variables of a compatible kind,
    undefined names, other bound names of the same kind), everywhere: targets start to collide with what their
    right-hand sides read.  Lists (l, k) are never shadowed and kinds are respected, so that the engine and the
    reference interpreter keep agreeing on where an ill-typed program fails."""
    bn, rn = set(), set()
    bound_names(body, bn); read_names(body, rn)
    bn = sorted(x for x in bn if x[:1] in KIND_POOL and x[1:].isdigit())
    if not bn:
        return body
    mp = {}
    for _ in range(1 + rng.below(3)):
        a = rng.choice(bn)
        pool = KIND_POOL[a[0]] + sorted(x for x in rn if x[:1] == a[0] and x[1:].isdigit() and x != a)
        b = rng.choice(pool)
        if a != b:
            mp[a] = b
    return rename_body(body, mp) if mp else body


def map_exprs(body, fe):
    """applies fe to every expression position of a statement list (top of each expression)"""
    out = []
    for st in body:
        t = st[0]
        B = lambda b: map_exprs(b, fe)
        if t == "emit": st = ("emit", fe(st[1], "any"))
        elif t == "if": st = ("if", [(fe(c, "any"), B(b)) for c, b in st[1]], None if st[2] is None else B(st[2]))
        elif t == "for": st = ("for", st[1], fe(st[2], "list"), None if st[3] is None else fe(st[3], "any"), B(st[4]), None if st[5] is None else B(st[5]), st[6])
        elif t == "set": st = ("set", st[1], fe(st[2], "any"))
        elif t == "setblock": st = ("setblock", st[1], B(st[2]), st[3])
        elif t == "with": st = ("with", [(n, fe(e, "any")) for n, e in st[1]], B(st[2]))
        elif t == "macro": st = ("macro", st[1], st[2], [(p, fe(d, "any")) for p, d in st[3]], B(st[4]))
        elif t == "callblock": st = ("callblock", st[1], [fe(a, "any") for a in st[2]], B(st[3]))
        elif t == "filterblock": st = ("filterblock", st[1], B(st[2]))
        elif t == "autoescape": st = ("autoescape", st[1], B(st[2]))
        out.append(st)
    return out


def extension_mutation(body, rng):
    """Slices of list expressions, attribute / item chains on variables, attribute assignments."""
    def bound(r):
        c = r.below(6)
        if c == 0: return None
        if c == 1: return ("var", r.choice(["n", "m", "undef1"]))
        return ("int", r.choice([0, 1, 2, -1, 5]))

    def fe(e, kind):
        t = e[0]
        if kind == "list" and rng.chance(1, 2):
            step = None if rng.chance(2, 3) else ("int", rng.choice([1, 2, -1, 0]))
            return ("slice", e, bound(rng), bound(rng), step)
        if t == "var" and e[1] not in ("loop",) and rng.chance(1, 5):
            c = rng.below(4)
            if c == 0: return ("attr", e, rng.choice(["foo", "bar"]))
            if c == 1: return ("attr", ("attr", e, "foo"), rng.choice(["bar", "baz"]))
            if c == 2 and (e[1] in ("n", "m", "t", "l", "k") or e[1].startswith("undef")):
                return ("item", e, ("int", rng.choice([0, 1])))      # (the reference interpreter does not index strings)
            return ("filter", "default", ("attr", e, "foo"), [("int", 4)])
        if t == "filter" and e[1] == "length" and rng.chance(1, 2):
            return ("filter", "length", fe(e[2], "list"), e[3])
        if t in ("neg", "not"): return (t, fe(e[1], "any"))
        if t == "bin": return ("bin", e[1], fe(e[2], "any"), fe(e[3], "any"))
        if t in ("and", "or"): return (t, fe(e[1], "any"), fe(e[2], "any"))
        if t == "ifexpr": return ("ifexpr", fe(e[1], "any"), fe(e[2], "any"), None if e[3] is None else fe(e[3], "any"))
        if t == "cmp": return ("cmp", fe(e[1], "any"), [(o, fe(r, "list" if o in ("in", "notin") else "any")) for o, r in e[2]])
        return e
    body = map_exprs(body, fe)
    if rng.chance(1, 6):
        i = rng.below(len(body) + 1)
        tgt = rng.choice(["n", "s", "undef2", "ns"])
        body = body[:i] + [("setattr", tgt, rng.choice(["a", "b"]), ("var", rng.choice(["m", "undef0"])) if rng.chance(1, 2) else ("int", 1))] + body[i:]
    return body


def recursion_mutation(body, rng):
    """Engine-side only: makes one loop of the program recursive and re-enters its body once through loop(...),
    spelled and placed at random (directly, in a nested loop, in a macro declared in the body, in a call block)."""
    found = []

    def walk(b, path):
        for i, st in enumerate(b):
            if st[0] == "for":
                found.append(path + [i])
                walk(st[4], path + [i, 4])
            elif st[0] in ("with", "filterblock", "autoescape", "setblock"):
                walk(st[2], path + [i, 2])
            elif st[0] == "if":
                for k, (c, x) in enumerate(st[1]):
                    walk(x, path + [i, 1, k, 1])
    walk(body, [])
    if not found:
        return None
    path = rng.choice(found)
    arg = ("list", [("int", 5)]) if rng.chance(1, 2) else ("list", [("var", rng.choice(["n", "m"]))])
    spell = rng.below(5)
    pre = []
    if spell == 0: call = ("emit", ("call", "loop", [arg], []))
    elif spell == 1: call = ("emit", ("filter", "string", ("call", "loop", [arg], []), []))
    elif spell == 2:
        pre = [("set", "lp", ("var", "loop"))]; call = ("emit", ("call", "lp", [arg], []))
    elif spell == 3:
        pre = [("set", "lp", ("var", "loop"))]; call = ("emit", ("filter", "string", ("call", "lp", [arg], []), []))
    else: call = ("set", "rr", ("call", "loop", [arg], []))
    place = rng.below(5)
    if place == 0: inner = [call]
    elif place == 1: inner = [("for", "zz", ("list", [("int", 1)]), None, [call], None, False)]
    elif place == 2: inner = [("macro", "mi", [], [], [call]), ("emit", ("call", "mi", [], []))]
    elif place == 3: inner = [("callblock", "wr", [], [call])]
    else: inner = [("with", [("qq", ("int", 1))], [call])]
    guard = ("if", [(("cmp", ("attr", ("var", "loop"), "depth0"), [("==", ("int", 0))]), inner)], None)

    def rebuild(b, path):
        i = path[0]
        st = b[i]
        if len(path) == 1:
            new = ("for", st[1], st[2], st[3], pre + list(st[4]) + [guard], st[5], True)
        else:
            k = path[1]
            if st[0] == "if":
                arms = list(st[1]); c, x = arms[path[2]]; arms[path[2]] = (c, rebuild(x, path[4:]))
                new = ("if", arms, st[2])
            else:
                lst = list(st); lst[k] = rebuild(st[k], path[2:]); new = tuple(lst)
        return b[:i] + [new] + b[i + 1:]
    wr = ("macro", "wr", [], [], [("emit", ("call", "caller", [], []))])
    known = place in (2, 3) and spell != 0         # non-emit spelling inside a macro / call-block body
    guard_off = ("if", [(("bool", False), inner)], None)
    on = [wr] + rebuild(list(body), path)
    guard = guard_off
    off = [wr] + rebuild(list(body), path)
    return on, known, off


def escaping_macro_mutation(body, rng):
    """Engine-side only: in one loop of the program a macro that reads names bound around it is declared in the
    first iteration only, kept in a namespace attribute and called in every iteration and after the loop."""
    found = []

    def walk(b, path):
        for i, st in enumerate(b):
            if st[0] == "for":
                found.append(path + [i])
                walk(st[4], path + [i, 4])
            elif st[0] in ("with", "filterblock", "autoescape"):
                walk(st[2], path + [i, 2])
            elif st[0] == "if":
                for k, (c, x) in enumerate(st[1]):
                    walk(x, path + [i, 1, k, 1])
    walk(body, [])
    if not found:
        return None
    path = rng.choice(found)
    bn = set(); bound_names(body, bn)
    pool = sorted(x for x in bn if not x.startswith("m")) + ["n", "m", "s", "t"]
    reads = [("emit", ("var", rng.choice(pool))) for _ in range(1 + rng.below(3))]
    decl = ("if", [(("attr", ("var", "loop"), "first"), [("macro", "em", [], [], reads), ("setattr", "nsx", "em", ("var", "em"))])], None)
    call = ("emit", ("nscall", "nsx", "em"))

    def rebuild(b, path):
        i = path[0]
        st = b[i]
        if len(path) == 1:
            new = ("for", st[1], st[2], st[3], [decl] + list(st[4]) + [call], st[5], st[6])
            return b[:i] + [new] + ([call] if rng.chance(1, 2) else []) + b[i + 1:]
        k = path[1]
        if st[0] == "if":
            arms = list(st[1]); c, x = arms[path[2]]; arms[path[2]] = (c, rebuild(x, path[4:]))
            new = ("if", arms, st[2])
        else:
            lst = list(st); lst[k] = rebuild(st[k], path[2:]); new = tuple(lst)
        return b[:i] + [new] + b[i + 1:]
    return [("set", "nsx", ("call", "namespace", [], []))] + rebuild(list(body), path)


def has_loop_control(st):
    if st[0] in ("break", "continue"):
        return True
    return any(has_loop_control(x) for b in proggen._sub_bodies(st) for x in b) or (st[0] == "block" and any(has_loop_control(x) for x in st[2]))


def block_mutation(body, rng, deep=False):
    """Engine-side only: wraps statements (at any depth; with deep also inside macro and call-block bodies, which
    the parser may refuse - then the program does not compile and says nothing) into named blocks and renders
    these blocks once more through self.name() at places outside any block."""
    names = []

    def wrap(b, in_block):
        out = []
        for st in b:
            t = st[0]
            if t == "if": st = ("if", [(c, wrap(x, in_block)) for c, x in st[1]], None if st[2] is None else wrap(st[2], in_block))
            elif t == "for": st = ("for", st[1], st[2], st[3], wrap(st[4], in_block), None if st[5] is None else wrap(st[5], in_block), st[6])
            elif t in ("with", "filterblock", "autoescape"): st = (t, st[1], wrap(st[2], in_block))
            elif t == "setblock": st = ("setblock", st[1], wrap(st[2], in_block), st[3])
            elif t == "macro" and deep: st = ("macro", st[1], st[2], st[3], wrap(st[4], in_block))
            elif t == "callblock" and deep: st = ("callblock", st[1], st[2], wrap(st[3], in_block))
            if len(names) < 4 and not has_loop_control(st) and st[0] not in ("macro", "callblock") and rng.chance(1, 5):
                nm = "blk%d" % len(names)
                names.append(nm)
                st = ("block", nm, [st])
            out.append(st)
        return out

    def call(b, depth):
        out = []
        for st in b:
            t = st[0]
            if depth < 2:
                if t == "for": st = ("for", st[1], st[2], st[3], call(st[4], depth + 1), st[5], st[6])
                elif t == "with": st = ("with", st[1], call(st[2], depth + 1))
                elif t == "macro": st = ("macro", st[1], st[2], st[3], call(st[4], depth + 1))
                elif t == "if": st = ("if", [(c, call(x, depth + 1)) for c, x in st[1]], st[2])
            if names and rng.chance(1, 4):
                out.append(("emit", ("selfcall", rng.choice(names))))
            out.append(st)
        if names and (depth == 0 or rng.chance(1, 3)):
            out.append(("emit", ("selfcall", rng.choice(names))))
        return out
    body = wrap(body, False)
    return call(body, 0) if names else None


# ------------------------------------------------------------------------------------------------
# operation sequences: a template keeps the configuration it was loaded with
# ------------------------------------------------------------------------------------------------
SYNTAXES = {
    "default": None,
    "angle": {"block": ["<%", "%>"], "var": ["<<", ">>"], "comment": ["<#", "#>"]},
    "latex": {"block": ["\\BLOCK{", "}"], "var": ["\\VAR{", "}"], "comment": ["\\#{", "}"]},
    "erb": {"block": ["[%", "%]"], "var": ["[[", "]]"], "comment": ["[#", "#]"]},
}
WS = [{}, {"trim_blocks": True, "lstrip_blocks": True}, {"keep_trailing_newline": True}, {"lstrip_blocks": True}]
_DELIM = re.compile(r"\{%|%\}|\{\{|\}\}")


def resyntax(src, syn):
    """default-syntax source -> the same template in another delimiter set"""
    cfg = SYNTAXES[syn]
    if cfg is None:
        return src
    m = {"{%": cfg["block"][0], "%}": cfg["block"][1], "{{": cfg["var"][0], "}}": cfg["var"][1]}
    return _DELIM.sub(lambda x: m[x.group(0)], src)


def syntax_op(syn):
    cfg = SYNTAXES[syn]
    return {"op": "syntax_default"} if cfg is None else dict(cfg, op="syntax")


OTHER = "{% if user %}Hello {{ user }}!{% endif %}{% for item in items %}{{ item }}{{ sep }}{% endfor %}{{ footer }}"


def history_for(src, a, b, ws1, ws2, owned):
    """load under (a, ws1); reconfigure to (b, ws2) and load something else; analyse; go back; analyse.
    -> (ops, indices of the check results that concern the first template / the second one)"""
    ops = [syntax_op(a), dict(WS[ws1], op="ws"), {"op": "add", "name": "t1", "src": resyntax(src, a), "owned": owned}, {"op": "check", "name": "t1"},
           syntax_op(b), dict(WS[ws2], op="ws"), {"op": "add", "name": "t2", "src": resyntax(OTHER, b), "owned": not owned},
           {"op": "check", "name": "t1"}, {"op": "check", "name": "t2"},
           {"op": "check_str", "src": resyntax(src, b)}, {"op": "check_expr", "src": "[user, items[0].name, footer|default(sep)]"},
           syntax_op(a), dict(WS[ws1], op="ws"), {"op": "check", "name": "t1"}, {"op": "check", "name": "t2"}]
    return ops


def judge_history(res):
    """-> list of (what, detail) problems of one history response"""
    out = []
    if "results" not in res:
        return out
    rs = res["results"]
    glob = res.get("globals", [])
    if any("add_err" in r or "config_err" in r or "load_err" in r for r in rs) or len(rs) != 7:
        return None                                   # something did not compile under its own configuration: vacuous
    for k, r in enumerate(rs):
        mm = missing_of(dict(r, globals=glob))
        if mm and (mm[0] or mm[1]):
            out.append(("a stored template / expression reads a variable its report omits (check #%d)" % k, {"asked": r["asked"], "reported": r["flat"], "missing": mm[0], "missing_nested": mm[1]}))
    for i, j in ((0, 1), (0, 5), (2, 6)):
        if rs[i]["flat"] != rs[j]["flat"] or rs[i]["nested"] != rs[j]["nested"]:
            out.append(("the report of a stored template changed when the environment was reconfigured (check #%d vs #%d)" % (i, j), {"before": rs[i]["flat"], "after": rs[j]["flat"]}))
    return out


def gen_programs(chk, n):
    progs = []
    for j in range(n):
        g = proggen.Gen(chk.rng, {"autoescape": True, "undefined": 8}, max_depth=2 + chk.rng.below(3))
        ctx, kinds = proggen.default_context(chk.rng)
        body = g.template(kinds)
        if chk.rng.chance(2, 3):
            body = capture_mutation(body, chk.rng)
        if chk.rng.chance(1, 2):
            body = extension_mutation(body, chk.rng)
        if chk.rng.chance(1, 5):
            ctx = {k: v for k, v in ctx.items() if chk.rng.chance(1, 2)}
        progs.append((body, ctx))
    return progs


def decode_model(m, N):
    """-> dict(status ok|err|bad, text, code, asks, und, old, nested)"""
    def names(ids):
        return sorted(set(N.rev.get(i, "#%d" % i) for i in ids))
    if m[:1] == [0]:
        no = m[1]; text = "".join(chr(c) for c in m[2:2 + no]); rest = m[2 + no:]; code = None; st = "ok"
    elif m[:1] == [1]:
        text = None; code = m[1]; rest = m[2:]; st = "err"
    else:
        return {"status": "bad"}
    na = rest[0]; asks = rest[1:1 + na]; rest = rest[1 + na:]
    nu = rest[0]; und = rest[1:1 + nu]; rest = rest[1 + nu:]
    no = rest[0]; old = rest[1:1 + no]; rest = rest[1 + no:]
    nn = rest[0]; rest = rest[1:]; nested = []
    for _ in range(nn):
        v, k = rest[0], rest[1]; attrs = rest[2:2 + k]; rest = rest[2 + k:]
        nested.append(".".join([N.rev.get(v, "#%d" % v)] + [langenc.attr_name(a) for a in attrs]))
    return {"status": st, "text": text, "code": code, "asks": names(asks), "und": names(und), "old": names(old), "nested": sorted(set(nested))}


def sub_exprs(e):
    t = e[0]
    if t == "list": return list(e[1])
    if t in ("neg", "not"): return [e[1]]
    if t == "bin": return [e[2], e[3]]
    if t == "cmp": return [e[1]] + [r for _, r in e[2]]
    if t in ("and", "or", "item"): return [e[1], e[2]]
    if t == "ifexpr": return [x for x in e[1:4] if x is not None]
    if t == "attr": return [e[1]]
    if t in ("filter", "test"): return [e[2]] + list(e[3])
    if t == "call": return list(e[2]) + [v for _, v in e[3]]
    if t == "slice": return [x for x in e[1:5] if x is not None]
    if t == "map": return [x for kv in e[1] for x in kv]
    return []


def stmt_exprs(s):
    t = s[0]
    if t == "emit": return [s[1]]
    if t == "if": return [c for c, _ in s[1]]
    if t == "for": return [s[2]] + ([s[3]] if s[3] is not None else [])
    if t == "set": return [s[2]]
    if t == "with": return [e for _, e in s[1]]
    if t == "macro": return [d for _, d in s[3]]
    if t == "callblock": return list(s[2])
    if t == "autoescape": return [s[1]]
    if t == "setattr": return [s[3]]
    return []


MAP_VARS = ("d", "e")       # the maps of proggen.default_context


def features_in(body, acc):
    """which of the Lang v2 constructs a program contains (maps, unpacking assignments)"""
    def ex(e, over_map=False):
        t = e[0]
        if t == "map": acc.add("map_literal")
        if t == "var" and e[1] in MAP_VARS: acc.add("map_variable")
        if t in ("attr", "item") and (e[1][0] == "map" or (e[1][0] == "var" and e[1][1] in MAP_VARS)): acc.add("map_lookup")
        if t == "filter" and e[1] == "items": acc.add("items_filter")
        if t == "test" and e[1] == "mapping": acc.add("mapping_test")
        for x in sub_exprs(e):
            ex(x)
    for s in body:
        t = s[0]
        for e in stmt_exprs(s):
            ex(e)
        if t == "for" and (s[2][0] == "map" or (s[2][0] == "var" and s[2][1] in MAP_VARS) or (s[2][0] == "filter" and s[2][1] == "items")):
            acc.add("loop_over_map")
        if t == "set" and not isinstance(s[1], str): acc.add("set_unpack")
        if t == "with" and any(not isinstance(n, str) for n, _ in s[1]): acc.add("with_unpack")
        for b in proggen._sub_bodies(s):
            features_in(b, acc)


def count_nodes(body):
    n = 0
    for s in body:
        n += 1
        for b in proggen._sub_bodies(s):
            n += count_nodes(b)
    return n


def kinds_in(body, acc):
    for s in body:
        acc[s[0]] += 1
        for b in proggen._sub_bodies(s):
            kinds_in(b, acc)


# ------------------------------------------------------------------------------------------------
def main():
    chk = Check("C18", "proof")
    chk.cov["trusted_base"] = TRUSTED_COMMON + [
        "Print Assumptions of the C18 theorems: see coverage.theorems",
        "Lang/Interp.v (reference interpreter, compared with the engine by C03 and here on recorded lookups) and Lang/Meta.v (mirror of compiler/meta.rs, compared here with Template::undeclared_variables) are hand-written; tools/langenc.py + Lang/Codec.v + tools/proggen.py are unverified glue",
        "the recording context object of harness/src/bin/c18.rs (Object::get_value) sees exactly the keys the engine asks the render context for"]
    chk.assumptions = [
        "single-file templates (no include/import/extends); renders with debug info off (Environment::set_debug(false)) - see known finding debug-info-lookups for the error-reporting path with debug info on",
        "theorems: programs over Lang/Syntax.v (expressions incl. slices and map literals / lookups, if/elif/else, for with filter/else/break/continue (over lists, strings, maps), set and with (also unpacking into two names), attribute assignment, set-block, macros with defaults/kwargs/caller, call blocks, filter blocks, autoescape), context values without macro objects, every outcome of the render (finished or failed; the model's own out-of-gas excluded)",
        "the model has no namespace objects: an attribute assignment always fails after evaluating its operands, as the engine does for every target that is not a namespace; slices select like Python on lists and strings (C09)",
        "constructs outside the Coq model (tuples, tests/filters with arguments other than the modelled ones, do, blocks, self/super, namespace(), splats) are covered on the implementation only, by the construct-level search"]
    okm, blog = build_models("C18")
    proofs_ok = chk.run_proofs()
    okc, clog = cargo_build(["c18"], release=False)
    okr, clog2 = cargo_build(["c18"], release=True)
    if not (okc and okr):
        chk.violation("harness does not build against the current tree", {"theorem_or_correspondence": "build harness/src/bin/c18.rs", "log": (clog + clog2)[-1500:]}, True)
        chk.finish()
    if not okm:
        chk.violation("model build failed", {"theorem_or_correspondence": "coq/theories/C18/Runner.v build", "log": blog[-1500:]}, True)
        chk.finish()

    def req_t(src, ctx, debug=False):
        return {"tpl": src, "ctx": ctx, "debug": debug}

    if chk.replay:
        rp = json.load(open(chk.replay))["replay"]
        if "history" in rp:
            bad = False
            for rel in (False, True):
                res = run_c18([{"history": rp["history"], "ctx": rp.get("context", {})}], release=rel)[0]
                j = judge_history(res)
                if j:
                    bad = True
                    chk.violation("undeclared_variables of a stored template after reconfiguring the environment: " + j[0][0],
                                  dict(j[0][1], history=rp["history"], context=rp.get("context", {}), profile="release" if rel else "debug"))
                    break
            chk.cov["evaluations"] = 2
            chk.cov["distinct_nontrivial"] = 1 if bad else 0
            chk.cov["rule"] = "replay of one recorded operation sequence"
            chk.cov["samples"] = [rp]
            chk.finish()
        if "expr" in rp:
            rq = {"expr": rp["expr"], "ctx": rp.get("context", {}), "debug": False}
        else:
            rq = req_t(rp["template"], rp.get("context", {}))
        bad = False
        for rel in (False, True):
            r = run_c18([rq], release=rel)[0]
            mm = missing_of(r)
            if mm and (mm[0] or mm[1]):
                bad = True
                chk.violation("undeclared_variables omits a variable the render reads", dict(rp, asked=r["asked"], reported=r["flat"], reported_nested=r["nested"],
                              missing=mm[0], missing_nested=mm[1], profile="release" if rel else "debug"))
                break
        chk.cov["evaluations"] = 2
        chk.cov["distinct_nontrivial"] = 1 if bad else 0
        chk.cov["rule"] = "replay of one recorded template"
        chk.cov["samples"] = [rp]
        chk.finish()

    hist = collections.Counter()
    # ---------------- leg 1: construct-level search --------------------------------------------
    cc = construct_cases(chk.thorough)
    creqs = [req_t(c[4], c[5]) for c in cc]
    ereqs, ecases = [], []
    for fl, fs in FORMS:
        for v in NAMES_FULL + NAMES_SPECIAL:
            for cl, extra in (("absent", {}), ("pairs", {v: [[1, 2], [3, 4]]}), ("int", {v: 2})):
                c = dict(BASE_CTX); c.update(extra)
                ecases.append((fl, v, cl, fs.replace("V", v), c))
                ereqs.append({"expr": fs.replace("V", v), "ctx": c, "debug": False})
    fails = collections.OrderedDict()       # (hole, form) -> first failing case
    nontriv = set()
    n_eval = 0
    loaded = 0
    profiles = (False, True) if chk.thorough else (False,)
    for rel in profiles:
        res = run_c18(creqs, release=rel)
        n_eval += len(res)
        for c, r in zip(cc, res):
            mm = missing_of(r)
            if mm is None:
                hist["construct_load_error"] += 1 if not rel else 0
                continue
            if not rel:
                loaded += 1
                hist["construct_render_" + ("ok" if "ok" in r["render"] else "err")] += 1
                if r["asked"]:
                    nontriv.add(c[4] + json.dumps(c[5], sort_keys=True))
            if mm[0] or mm[1]:
                fails.setdefault((c[0], c[1], c[2]), (c, r, mm, rel))
        res = run_c18(ereqs, release=rel)
        n_eval += len(res)
        for c, r in zip(ecases, res):
            mm = missing_of(r)
            if mm is None:
                continue
            if not rel:
                hist["expression_" + ("ok" if "ok" in r["render"] else "err")] += 1
                if r["asked"]:
                    nontriv.add("expr:" + c[3] + json.dumps(c[4], sort_keys=True))
            if mm[0] or mm[1]:
                fails.setdefault(("expression-api", c[0], c[1]), (("expression-api", c[0], c[1], c[2], c[3], c[4]), r, mm, rel))
    # attribute each failing (hole, form) to the form (fails in a plain {{ }} too), to the hole (fails with the
    # plain variable), or to the pair
    # known finding: a recursive loop re-entered (non-emit spelling) from a macro / call-block body.  A failing case of
    # exactly that class is set aside when the same template with the recursive call switched off is sound.
    kl = [k for k in fails if loop_known_class(k[0])]
    loop_known_hits = 0
    if kl:
        off = run_c18([req_t(fails[k][0][4].replace(LOOP_GUARD, "{% if false %}"), fails[k][0][5]) for k in kl])
        n_eval += len(off)
        for k, r in zip(kl, off):
            m0 = missing_of(r)
            if m0 is not None and not (m0[0] or m0[1]):
                del fails[k]
                loop_known_hits += 1
    classes = collections.OrderedDict()
    call_holes = [h for h, _ in CALL_HOLES]
    for (hl, fl, vn), v in fails.items():
        if hl != "emit" and ("emit", fl, vn) in fails:
            continue                                     # the form is broken everywhere: reported once under emit
        if fl != "var" and (hl, "var", vn) in fails:
            continue                                     # the position is broken for every form
        if hl in call_holes and fl != "call-callee" and (hl, "call-callee", vn) in fails:
            continue
        if vn != "x" and (hl, fl, "x") in fails:
            continue                                     # not specific to the special name
        classes[(hl, fl, vn)] = v
    chk.cov["construct_search"] = {"templates": len(cc), "compiled": loaded, "expressions": len(ereqs),
                                   "holes": len(HOLES) + len(CALL_HOLES) + len(LOOP_HOLES) + len(ESC_HOLES), "recursive_loop_positions": len(LOOP_HOLES), "escaping_macro_positions": len(ESC_HOLES), "forms": len(FORMS), "failing_pairs": len(fails), "failing_classes": len(classes)}
    # ---------------- known finding: lookups of the error-reporting path ----------------------------
    kf_t = "{% if f %}{% set q = 1 %}{% endif %}{{ 1 // 0 }}"
    kres = run_c18([req_t(kf_t, {"f": False}, debug=True), req_t(kf_t, {"f": False}, debug=False)])
    n_eval += 2
    k_on, k_off = missing_of(kres[0]), missing_of(kres[1])
    kf_seen = bool(k_on and k_on[0] == ["q"] and k_off and not k_off[0] and "err" in kres[0]["render"])
    kentry = chk.match_known(lambda k: k["id"] == "debug-info-lookups")

    # ---------------- leg 2: generated programs ------------------------------------------------------
    n = 200000 if chk.thorough else 3000
    progs = gen_programs(chk, n)
    preqs, cases, NN = [], [], []
    for body, ctx in progs:
        preqs.append(req_t(proggen.body_src(body), ctx))
        cs, N = langenc.request(body, ctx)
        cases.append(cs); NN.append(N)
    model = run_model("C18", "c18", cases)
    direct = []          # property violated on the implementation
    corr_bad = []        # model and implementation disagree
    dbg_only = []
    fail_bad = []        # failing renders, same error kind, different lookups
    old_differs = 0
    kinds = collections.Counter()
    v2 = collections.Counter()          # programs that contain the constructs of Lang v2 (maps, unpacking)
    for body, _ in progs:
        kinds_in(body, kinds)
        fs = set()
        features_in(body, fs)
        v2.update(fs)
        if fs & {"map_literal", "map_variable", "map_lookup", "items_filter", "loop_over_map"}: v2["any_map"] += 1
        if fs & {"set_unpack", "with_unpack"}: v2["any_unpack"] += 1
    for rel in (False, True):
        impl = run_c18(preqs, release=rel)
        impl_dbg = run_c18([dict(r, debug=True) for r in preqs], release=rel) if not rel else None
        n_eval += len(impl) + (len(impl_dbg) if impl_dbg else 0)
        for i, r in enumerate(impl):
            mm = missing_of(r)
            dm = decode_model(model[i], NN[i])
            st = dm["status"]
            if mm is None or st == "bad":
                if not rel:
                    hist["program_not_compared"] += 1
                continue
            mund, mold = dm["und"], dm["old"]
            if mm[0] or mm[1]:
                direct.append((i, rel, mm))
            if sorted(r["flat"]) != mund:
                corr_bad.append((i, rel, "static report differs", r["flat"], mund))
            elif sorted(r["nested"]) != dm["nested"]:
                corr_bad.append((i, rel, "nested report differs", r["nested"], dm["nested"]))
            elif st == "ok" and r["render"].get("ok") == dm["text"]:
                if r["asked"] != dm["asks"]:
                    corr_bad.append((i, rel, "recorded lookups differ", r["asked"], dm["asks"]))
                elif not rel:
                    hist["program_lookups_compared"] += 1
            elif st == "err" and r["render"].get("err") == dm["code"]:
                # both renders fail with the same kind of error: the lookups up to the failure must agree
                # (the same kind of error can still come from two different places when the program is ill-typed in a
                # way engine and reference semantics treat differently - C03's matter; judged by rate, see below)
                if not rel:
                    hist["program_failing_lookups_compared"] += 1
                if r["asked"] != dm["asks"]:
                    fail_bad.append((i, rel, "recorded lookups of a failing render differ", r["asked"], dm["asks"]))
            elif not rel:
                hist["program_semantics_diverge(C03 matter: ill-typed after renaming)"] += 1
            if not rel:
                hist["program_render_" + ("ok" if "ok" in r["render"] else "err")] += 1
                if mund != mold:
                    old_differs += 1
                if r["asked"] and count_nodes(progs[i][0]) >= 3:
                    nontriv.add(preqs[i]["tpl"] + json.dumps(progs[i][1], sort_keys=True))
                d = impl_dbg[i]
                md = missing_of(d)
                if md and (md[0] or md[1]) and not (mm[0] or mm[1]):
                    if "err" in d["render"]:
                        dbg_only.append(i)
                    else:
                        direct.append((i, rel, md))          # debug info only matters on the error path
    # ---------------- leg 2c: operation sequences (load, reconfigure, analyse) -------------------------
    hsrcs = [(c[4], c[5]) for c in cc if c[1] == "var" and c[2] == "x" and c[3] == "pairs" and not loop_known_class(c[0])]
    hsrcs += [(preqs[i]["tpl"], progs[i][1]) for i in range(min(len(progs), 4000 if chk.thorough else 250)) if "[" not in preqs[i]["tpl"] or True]
    pairs_ab = [("default", "angle"), ("angle", "default"), ("default", "latex"), ("erb", "angle"), ("default", "default"), ("latex", "default")]
    hreqs = []
    for k, (src, ctx) in enumerate(hsrcs):
        for a_, b_ in (pairs_ab if k < 150 else [pairs_ab[k % len(pairs_ab)]]):
            ws1, ws2 = chk.rng.below(len(WS)), chk.rng.below(len(WS))
            c2 = dict(ctx); c2.update({"user": "Peter", "items": [{"name": 1}], "sep": ","})
            hreqs.append({"history": history_for(src, a_, b_, ws1, ws2, chk.rng.chance(1, 2)), "ctx": c2, "syntaxes": [a_, b_]})
    hbad = []
    hvac = 0
    for rel in profiles:
        hres = run_c18(hreqs, release=rel)
        n_eval += len(hres)
        for rq, res in zip(hreqs, hres):
            j = judge_history(res)
            if j is None:
                hvac += 1 if not rel else 0
                continue
            if not rel and any(r.get("asked") for r in res["results"][:2]):
                nontriv.add("history:" + json.dumps(rq["history"][2]) + json.dumps(rq["syntaxes"]))
            for what, det in j:
                hbad.append((rq, what, det, rel))
    chk.cov["history_leg"] = {"histories": len(hreqs), "vacuous(some source does not compile under its configuration)": hvac, "problems": len(hbad),
                              "sample": hreqs[0]["history"] if hreqs else None}
    # ---------------- leg 2b: the same programs with blocks and self.name() calls (engine only) ------------
    nb = min(len(progs), 100000) if chk.thorough else min(len(progs), 2000)
    bprogs = []
    for body, ctx in progs[:nb]:
        bb = block_mutation(body, chk.rng)
        if bb is not None:
            bprogs.append((bb, ctx))
        if any(st[0] in ("macro", "callblock") for st in body) or chk.rng.chance(1, 8):
            bb = block_mutation(body, chk.rng, deep=True)
            if bb is not None:
                bprogs.append((bb, ctx))
    breqs = [req_t(proggen.body_src(b), ctx) for b, ctx in bprogs]
    bdirect = []
    for rel in (False, True):
        bres = run_c18(breqs, release=rel)
        n_eval += len(bres)
        for i, r in enumerate(bres):
            mm = missing_of(r)
            if mm is None:
                if not rel:
                    hist["block_program_rejected"] += 1
                continue
            if not rel:
                hist["block_program_render_" + ("ok" if "ok" in r["render"] else "err")] += 1
                if r["asked"]:
                    nontriv.add(breqs[i]["tpl"] + json.dumps(bprogs[i][1], sort_keys=True))
            if mm[0] or mm[1]:
                bdirect.append((i, rel, mm))
    chk.cov["block_leg"] = {"programs": len(bprogs), "violations": len(bdirect),
                            "sample": breqs[0]["tpl"][:400] if breqs else None}
    # ---------------- leg 2d: the same programs with one loop made recursive and re-entered (engine only) -------
    rprogs, rmeta = [], []
    for body, ctx in progs[:(min(len(progs), 60000) if chk.thorough else min(len(progs), 2500))]:
        rb = recursion_mutation(body, chk.rng)
        if rb is not None:
            rprogs.append((rb[0], ctx))
            rmeta.append((rb[1], rb[2]))
    rreqs = [req_t(proggen.body_src(b), ctx) for b, ctx in rprogs]
    rdirect = []
    for rel in (False, True):
        rres = run_c18(rreqs, release=rel)
        n_eval += len(rres)
        for i, r in enumerate(rres):
            mm = missing_of(r)
            if mm is None:
                if not rel:
                    hist["recursive_program_rejected"] += 1
                continue
            if not rel:
                hist["recursive_program_render_" + ("ok" if "ok" in r["render"] else "err")] += 1
                if r["asked"]:
                    nontriv.add(rreqs[i]["tpl"] + json.dumps(rprogs[i][1], sort_keys=True))
            if mm[0] or mm[1]:
                rdirect.append((i, rel, mm))
    # known class: set aside when the same program with the recursive call switched off is sound
    cand = sorted(set(i for i, rel, mm in rdirect if rmeta[i][0]))
    if cand:
        offr = run_c18([req_t(proggen.body_src(rmeta[i][1]), rprogs[i][1]) for i in cand])
        n_eval += len(offr)
        okset = set(i for i, r in zip(cand, offr) if missing_of(r) is not None and not any(missing_of(r)))
        loop_known_hits += len(okset)
        rdirect = [x for x in rdirect if x[0] not in okset]
    chk.cov["recursive_loop_leg"] = {"programs": len(rprogs), "violations": len(rdirect), "known_class_cases": loop_known_hits,
                                     "sample": rreqs[0]["tpl"][:400] if rreqs else None}
    # ---------------- leg 2e: the same programs with a macro that escapes the iteration it is declared in (engine only)
    eprogs = []
    for body, ctx in progs[:(min(len(progs), 60000) if chk.thorough else min(len(progs), 2500))]:
        eb = escaping_macro_mutation(body, chk.rng)
        if eb is not None:
            eprogs.append((eb, ctx))
    ereqs2 = [req_t(proggen.body_src(b), ctx) for b, ctx in eprogs]
    edirect = []
    for rel in (False, True):
        eres = run_c18(ereqs2, release=rel)
        n_eval += len(eres)
        for i, r in enumerate(eres):
            mm = missing_of(r)
            if mm is None:
                if not rel:
                    hist["escaping_macro_program_rejected"] += 1
                continue
            if not rel:
                hist["escaping_macro_program_render_" + ("ok" if "ok" in r["render"] else "err")] += 1
                if r["asked"]:
                    nontriv.add(ereqs2[i]["tpl"] + json.dumps(eprogs[i][1], sort_keys=True))
            if mm[0] or mm[1]:
                edirect.append((i, rel, mm))
    chk.cov["escaping_macro_leg"] = {"programs": len(eprogs), "violations": len(edirect), "sample": ereqs2[0]["tpl"][:400] if ereqs2 else None}
    kentry3 = chk.match_known(lambda k: k["id"] == "recursive-loop-reentered-from-macro-context")
    # ---------------- known finding: debug() dumps the whole context ------------------------------------------------
    dres = run_c18([req_t("{{ debug() }}", {"secret_key": 1, "other": 2})])[0]
    n_eval += 1
    dm_ = missing_of(dres)
    dbgfn_seen = bool(dm_ and set(dm_[0]) == {"other", "secret_key"})
    kentry2 = chk.match_known(lambda k: k["id"] == "debug-function-dumps-context")
    small = sorted(range(len(cases)), key=lambda i: len(cases[i]))[:10]
    kern = kernel_eval("asks", [cases[i] for i in small], "k_C18", imports="Common.Base C18.Runner")
    kern_ok = kern is not None and all(kern[j] == model[small[j]] for j in range(len(small)))

    chk.cov["evaluations"] = n_eval
    chk.cov["distinct_nontrivial"] = len(nontriv)
    chk.cov["rule"] = ("leg 1: every statement position x expression form x bound name (x, loop; self/super/caller/... for a subset of forms) x 2-3 contexts, "
                       "rendered by the engine with a recording context (quick: debug build; thorough: debug+release) and through the Expression API; "
                       "leg 2: typed random programs with capture mutation and extension mutation (slices, attribute/item chains, attribute assignments) x random contexts in debug and release (and once with debug info on), "
                       "compared with the extracted flat and nested analyses and with the lookups of the extracted error-carrying interpreter, for finished and for failing renders; non-trivial = distinct (template, context) that compiled and whose render asked the context for at least one key (programs: >= 3 statement nodes)")
    chk.cov["samples"] = [cc[0][4], cc[len(cc) // 3][4], cc[2 * len(cc) // 3][4], preqs[0]["tpl"], preqs[len(preqs) // 2]["tpl"]]
    chk.cov["distribution"] = {"outcomes": dict(hist), "constructs_in_programs": dict(kinds), "programs_with_v2_constructs": dict(v2)}
    chk.cov["programs"] = len(progs)
    chk.cov["disagreements_checked"] = len(corr_bad) + len(direct)
    chk.cov["program_leg"] = {"n": len(progs), "pre_fix_tracker_reports_differently": old_differs, "direct_violations": len(direct),
                           "model_vs_engine_disagreements": len(corr_bad), "debug_info_only_lookups": len(dbg_only)}
    chk.cov["kernel_crosscheck"] = {"cases": len(small), "agree": kern_ok}
    n_fail_cmp = hist["program_failing_lookups_compared"]
    fail_bad_dbg = [x for x in fail_bad if not x[1]]
    chk.cov["failing_render_lookups"] = {"compared": n_fail_cmp, "differ": len(fail_bad_dbg),
        "rule": "renders that fail with the same error kind in engine and model; a difference can stem from an ill-typed program failing at two different places, so it counts as a correspondence failure only above max(3, 0.5%) of the compared failing renders",
        "samples": [{"template": preqs[i]["tpl"], "context": progs[i][1], "engine": a, "model": b} for i, rel, w, a, b in fail_bad_dbg[:3]]}
    if len(fail_bad_dbg) > max(3, n_fail_cmp // 200):
        corr_bad.extend(fail_bad)

    # ---------------- verdicts -----------------------------------------------------------------------
    for (hl, fl, vn), (c, r, mm, rel) in list(classes.items())[:60]:
        rp = {"position": hl, "form": fl, "name": vn, "asked": r["asked"], "reported": r["flat"], "reported_nested": r["nested"],
              "missing": mm[0], "missing_nested": mm[1], "context": c[5], "profile": "release" if rel else "debug"}
        if hl == "expression-api":
            rp["expr"] = c[4]
        else:
            rp["template"] = c[4]
        chk.violation("undeclared_variables omits a variable the render reads (%s / %s / %s)" % (hl, fl, vn), rp)
    seen = set()
    for i, rel, mm in direct[:60]:
        if len(seen) >= 6:
            break
        body, ctx = progs[i]
        def still(b):
            r = run_c18([req_t(proggen.body_src(b), ctx)], release=rel)[0]
            m2 = missing_of(r)
            return bool(m2 and (m2[0] or m2[1]))
        sb = proggen.shrink(body, still, budget=120)
        src = proggen.body_src(sb)
        if src in seen:
            continue
        seen.add(src)
        r = run_c18([req_t(src, ctx)], release=rel)[0]
        m2 = missing_of(r)
        chk.violation("undeclared_variables omits a variable the render reads (generated program)",
                      {"template": src, "context": ctx, "asked": r["asked"], "reported": r["flat"], "reported_nested": r["nested"],
                       "missing": m2[0], "missing_nested": m2[1], "profile": "release" if rel else "debug", "ast": repr(sb)})
    seenh = set()
    for rq, what, det, rel in hbad:
        key = (what.split("(")[0], tuple(rq["syntaxes"]))
        if key in seenh or len(seenh) >= 6:
            continue
        seenh.add(key)
        chk.violation("undeclared_variables of a stored template after reconfiguring the environment: " + what,
                      dict(det, history=rq["history"], context=rq["ctx"], syntaxes=rq["syntaxes"], profile="release" if rel else "debug"))
    seene = set()
    for i, rel, mm in edirect[:40]:
        if len(seene) >= 4:
            break
        body, ctx = eprogs[i]
        def stille(b):
            r = run_c18([req_t(proggen.body_src(b), ctx)], release=rel)[0]
            m2 = missing_of(r)
            return bool(m2 and (m2[0] or m2[1]))
        sb = proggen.shrink(body, stille, budget=150)
        src = proggen.body_src(sb)
        if src in seene:
            continue
        seene.add(src)
        r = run_c18([req_t(src, ctx)], release=rel)[0]
        m2 = missing_of(r)
        chk.violation("undeclared_variables omits a variable the render reads (generated program with a macro that escapes its iteration)",
                      {"template": src, "context": ctx, "asked": r["asked"], "reported": r["flat"], "reported_nested": r["nested"],
                       "missing": m2[0], "missing_nested": m2[1], "profile": "release" if rel else "debug"})
    seenr = set()
    for i, rel, mm in rdirect[:40]:
        if len(seenr) >= 4:
            break
        body, ctx = rprogs[i]
        def stillr(b):
            r = run_c18([req_t(proggen.body_src(b), ctx)], release=rel)[0]
            m2 = missing_of(r)
            return bool(m2 and (m2[0] or m2[1]))
        sb = proggen.shrink(body, stillr, budget=150)
        src = proggen.body_src(sb)
        if src in seenr:
            continue
        seenr.add(src)
        r = run_c18([req_t(src, ctx)], release=rel)[0]
        m2 = missing_of(r)
        chk.violation("undeclared_variables omits a variable the render reads (generated program with a re-entered recursive loop)",
                      {"template": src, "context": ctx, "asked": r["asked"], "reported": r["flat"], "reported_nested": r["nested"],
                       "missing": m2[0], "missing_nested": m2[1], "profile": "release" if rel else "debug"})
    if loop_known_hits:
        if kentry3 is not None:
            chk.known_finding(kentry3["id"], kentry3["what"])
        else:
            chk.violation("a recursive loop re-entered from a macro context reads outer names from the render context",
                          {"template": "{% set t = 7 %}{% for y in l recursive %}{{ t }}{% macro m() %}{{ loop([5])|string }}{% endmacro %}{% if loop.depth0 == 0 %}{{ m() }}{% endif %}{% endfor %}", "context": {"l": [1]}})
    if dbgfn_seen:
        if kentry2 is not None:
            chk.known_finding(kentry2["id"], kentry2["what"])
        else:
            chk.violation("debug() asks the context for every key it enumerates", {"template": "{{ debug() }}", "context": {"secret_key": 1, "other": 2}})
    seenb = set()
    for i, rel, mm in bdirect[:40]:
        if len(seenb) >= 4:
            break
        body, ctx = bprogs[i]
        def stillb(b):
            r = run_c18([req_t(proggen.body_src(b), ctx)], release=rel)[0]
            m2 = missing_of(r)
            return bool(m2 and (m2[0] or m2[1]))
        sb = proggen.shrink(body, stillb, budget=120)
        src = proggen.body_src(sb)
        if src in seenb:
            continue
        seenb.add(src)
        r = run_c18([req_t(src, ctx)], release=rel)[0]
        m2 = missing_of(r)
        chk.violation("undeclared_variables omits a variable the render reads (generated program with blocks and self calls)",
                      {"template": src, "context": ctx, "asked": r["asked"], "reported": r["flat"], "reported_nested": r["nested"],
                       "missing": m2[0], "missing_nested": m2[1], "profile": "release" if rel else "debug"})
    if dbg_only or kf_seen:
        if kentry is not None:
            chk.known_finding(kentry["id"], kentry["what"])
        else:
            i = dbg_only[0] if dbg_only else None
            chk.violation("a failing render with debug info on asks the context for names that are not reported",
                          {"template": kf_t if i is None else preqs[i]["tpl"], "context": {"f": False} if i is None else progs[i][1], "debug": True})
    if not chk.violations:
        if corr_bad:
            i, rel, what, a, b = corr_bad[0]
            chk.violation("model and implementation disagree: " + what,
                          {"theorem_or_correspondence": "Lang/Meta.v find_undeclared / Lang/Interp.v asks vs Template::undeclared_variables / recorded lookups",
                           "template": preqs[i]["tpl"], "context": progs[i][1], "engine": a, "model": b, "profile": "release" if rel else "debug",
                           "disagreements": len(corr_bad)}, True)
        if not kern_ok:
            chk.violation("kernel evaluation disagrees with the extracted model", {"theorem_or_correspondence": "vm_compute cross-check of extraction"}, True)
        if not proofs_ok:
            chk.violation("proof obligations of C18 do not check", {"theorem_or_correspondence": chk.proof["problems"]}, True)
        if hist["program_not_compared"] * 10 > len(progs):
            chk.violation("generator degenerated: more than a tenth of the programs is rejected by the engine or undecodable", {"theorem_or_correspondence": "tools/proggen.py + capture mutation", "not_compared": hist["program_not_compared"]}, True)
        if loaded < len(cc) // 2:
            chk.violation("construct search degenerated: fewer than half of the templates compile", {"theorem_or_correspondence": "tools/props/C18.py tables", "compiled": loaded, "of": len(cc)}, True)
    chk.finish()


if __name__ == "__main__":
    main()
