#!/usr/bin/env python3
"""C19 - a failing output sink stops the render with the sink's own error (DESIGN.md §3 C19).

Implementation side: harness/src/bin/c19.rs renders into a scripted io::Write (one answer per call
of `write`: accept all / accept n bytes / Ok(0) / fail with an io::ErrorKind / Interrupted) and reports
every buffer offered, what was taken, how many calls followed the first failure, and the returned
error (kind, chain, source io kind and message).  The free run (sink that accepts everything) gives
the deterministic sequence W of top-level writes; every other run is judged against W:

  direct oracle (property text): bytes received are a prefix of the plain render, nothing is
  offered after the first failure, the error is WriteFailure(19) whose source() is the very error
  the sink injected, no panic; without failure the sink receives exactly the plain render.
  correspondence: the complete call log (buffers offered, bytes taken, result) equals the one
  predicted by the Coq model (C19/Model.v: write_all + drive + take_err, extracted) from W and
  the script; the interpreter's chunk list (Lang/Interp.v) concatenates to the same bytes.
"""
import os, re, sys, collections
sys.path.insert(0, os.path.dirname(os.path.dirname(os.path.abspath(__file__))))
from vlib import *
import proggen, langenc

KINDS = {"brokenpipe": (1, "BrokenPipe"), "other": (2, "Other"), "wouldblock": (3, "WouldBlock"),
         "timedout": (4, "TimedOut"), "unexpectedeof": (5, "UnexpectedEof")}
K_WRITEZERO = 6
MAIN_KINDS = ["brokenpipe", "other", "wouldblock"]

# ---- hand-written multi-template families (includes, inheritance, imports, block entry points, errors) -------------
INC = {
    "inc0.txt": "<i{{ n }}>{% for q in [1, 2] %}{{ q }},{% endfor %}",
    "inc1.txt": "{% macro im(a) %}({{ a }}){% endmacro %}[{{ im(m) }}{{ s }}]",
}
FAMILIES = [
    ({"main": "A{% include 'inc' %}B{% include 'inc' %}C", "inc": "x{{ n }}y"}, "main", "template"),
    ({"main": "{% for i in k %}{% include 'inc' %}{% endfor %}!", "inc": "<{{ i }}{% include 'leaf' %}>", "leaf": "-{{ s }}-"}, "main", "template"),
    ({"main": "{% include ['nope', 'inc'] %}{% include 'gone' ignore missing %}end", "inc": "{{ l }}"}, "main", "template"),
    ({"main": "{% extends 'base' %}{% block a %}[{{ super() }}|{{ n }}]{% endblock %}{% block b %}B{{ self.a() }}{% endblock %}",
      "base": "head {% block a %}base-a{{ m }}{% endblock %} mid {% block b %}base-b{% endblock %} tail"}, "main", "template"),
    ({"main": "{% extends 'mid' %}{% block a %}<{{ super() }}>{% endblock %}",
      "mid": "{% extends 'base' %}{% block a %}({{ super() }}){% endblock %}{% block c %}{% for i in k %}{{ i }}{{ super() }}{% endfor %}{% endblock %}",
      "base": "1{% block a %}a{{ n }}{% endblock %}2{% block c %}c{% endblock %}3"}, "main", "template"),
    ({"main": "{% extends 'base' %}{% block a %}[{{ super() }}|{{ n }}]{% endblock %}",
      "base": "head {% block a %}base-a{{ m }}{% endblock %} tail"}, "main", "block:a"),
    ({"main": "x{% block q %}q{{ n }}{% for i in k %}{{ i }}{% endfor %}{% endblock %}y"}, "main", "block:q"),
    ({"main": "{% from 'lib' import wrap, twice %}{{ wrap(s) }}{% call twice() %}c{{ n }}{% endcall %}",
      "lib": "{% macro wrap(x) %}<{{ x }}>{% endmacro %}{% macro twice() %}{{ caller() }}{{ caller() }}{% endmacro %}"}, "main", "template"),
    ({"main": "{% import 'lib' as L %}a{{ L.wrap(n) }}b{{ L.wrap(L.wrap(m)) }}c",
      "lib": "{% macro wrap(x) %}[{{ x }}]{% endmacro %}side"}, "main", "template"),
    ({"main.html": "<p>{{ s }}</p>{% include 'part.html' %}{{ l }}{{ d }}", "part.html": "<b>{{ h }}</b>{{ h|safe }}{% set c %}{{ h }}{% endset %}{{ c }}{{ c|upper }}"}, "main.html", "template"),
    ({"main.html": "{% extends 'base.html' %}{% block t %}{{ h }}{{ super() }}{% endblock %}", "base.html": "<t>{% block t %}{{ d }}{% endblock %}</t>"}, "main.html", "template"),
    ({"main": "ab{{ n }}cd{{ 1 // 0 }}never"}, "main", "template"),                       # render error after some output
    ({"main": "x{% include 'inc' %}y", "inc": "i{{ n }}{{ [1] + 2 }}j"}, "main", "template"),   # error inside an include
    ({"main": "{% for i in range(40) %}{{ i }}:{{ s }}{% if i is odd %}{% set z %}{{ i * i }}{% endset %}{{ z }}{% endif %} {% endfor %}"}, "main", "template"),
    ({"main": "{{ d }}{{ l }}{{ d|tojson }}{{ '%s-%s'|format(n, s) }}{{ l|join('+') }}{{ s|upper ~ n }}{{ -5 }}{{ 1.5 }}{{ none }}{{ true }}"}, "main", "template"),
    ({"main": "été {{ u }} €{% for c in u %}{{ c }}·{% endfor %}{{ u|upper }}"}, "main", "template"),
    ({"main.html": "{{ u }}{{ h ~ u }}{% filter upper %}{{ h }}é{% endfilter %}"}, "main.html", "template"),
    ({"main": "{% macro r(x) %}{% if x > 0 %}{{ x }}{{ r(x - 1) }}{% endif %}{% endmacro %}{{ r(6) }}|{% for a in [1, [2, [3]]] recursive %}{% if a is sequence %}({{ loop(a) }}){% else %}{{ a }}{% endif %}{% endfor %}"}, "main", "template"),
    ({"main": "{% filter upper %}a{{ s }}{% filter trim %}  {{ n }} {% endfilter %}b{% endfilter %}{% set v | lower %}Q{{ s }}{% endset %}{{ v }}"}, "main", "template"),
    ({"main": "{% autoescape true %}{{ h }}{% autoescape false %}{{ h }}{% endautoescape %}{{ h }}{% endautoescape %}{{ h }}"}, "main", "template"),
    ({"main": ""}, "main", "template"),
    ({"main": "{% set a = 1 %}"}, "main", "template"),
    ({"main": "{{ undefined_thing.attr }}"}, "main", "template"),
]
# (templates, main, entry, formatter, objects): the remaining ways bytes reach a writer
WRITER_PATHS = [
    ({"main": "a{{ n }}b{{ s }}{% set c %}{{ m }}{% endset %}{{ c }}{{ l }}"}, "main", "template", True, False),              # custom formatter writing through Output
    ({"main.html": "<p>{{ h }}</p>{% for i in k %}{{ i }}{% endfor %}{{ h|safe }}"}, "main.html", "template", True, False),
    ({"main": "x{{ obj }}y{{ [obj, 1] }}{% set c %}{{ obj }}{% endset %}{{ c }}"}, "main", "template", False, True),         # Object::render writing in pieces
    ({"main.html": "{{ obj }}{{ obj|string }}{{ obj|upper }}"}, "main.html", "template", True, True),
    ({"main": "a{{ none }}b{{ true }}{{ false }}c{{ n }}{{ 1.5 }}d{{ l }}{{ [] }}e{{ nosuch }}f{{ s }}{{ d }}"}, "main", "template", True, False),   # every write path of the formatter
    ({"main.html": "{{ none }}{{ h }}{{ [none, h, 2] }}{% for i in k %}{{ i }}{{ none }}{% endfor %}{% set c %}{{ none }}{{ true }}{% endset %}{{ c }}"}, "main.html", "template", True, False),
    ({"main": "x{% block q %}{{ none }}{{ n }}{{ true }}{{ [1, none] }}{% endblock %}y"}, "main", "template+block:q", True, False),
    ({"main": "x{% block q %}{{ none }}|{{ true }}|{{ n }}{% endblock %}y"}, "main", "block:q", True, False),
    ({"main": "head{% block q %}q{{ n }}{% for i in k %}{{ i }}{% endfor %}{% endblock %}tail"}, "main", "template+block:q", False, False),   # render_captured_to, then render_block_to_write on the returned state
    ({"main": "{% extends 'base' %}{% block a %}[{{ super() }}|{{ n }}]{% endblock %}", "base": "head {% block a %}base-a{{ m }}{% endblock %} tail"}, "main", "template+block:a", False, False),
    ({"main": "x{% block q %}{{ 1 // 0 }}{% endblock %}"}, "main", "block:q", False, False),
    ({"main": "x{% block q %}ok{% endblock %}y{{ obj }}"}, "main", "template+block:nosuchblock", False, True),
]
FAMILY_CTX = {"n": 7, "m": -12, "s": "ab", "t": True, "l": [1, "x", [2]], "k": [1, 2, 3], "h": "<a href=\"x\">it's</a>&/",
              "d": {"k": "<v>", "z": 1}, "u": "naïve 中文 \U0001f600"}


NEW_CONSTRUCTS = [("map_literal", re.compile(r'\{(?:"[a-z]+"|\d+): |\{\}')), ("map_lookup", re.compile(r'\b[de](?:\.[a-z]+\b|\[")')),
                  ("loop_over_map", re.compile(r'\{% for (?:k\d+(?:, x\d+)?|zk, zv) in ')), ("items_filter", re.compile(r'\|items\b')),
                  ("unpacking_set", re.compile(r'\{% set \w+, \w+ = ')), ("unpacking_with", re.compile(r'\{% with \(\w+, \w+\) = '))]


def merge_raws(body):
    """adjacent raw statements are one piece of template text in the printed source (one EmitRaw)"""
    out = []
    for st in body:
        st = _map_bodies(st)
        if st[0] == "raw" and out and out[-1][0] == "raw":
            out[-1] = ("raw", out[-1][1] + st[1])
        else:
            out.append(st)
    return out


def _map_bodies(st):
    for b in proggen._sub_bodies(st):
        st = proggen._replace_body(st, b, merge_raws(b))
    return st


ERR_STMTS = [("emit", ("bin", "//", ("int", 1), ("int", 0))), ("emit", ("call", "nosuchfunction", [], [])),
             ("set", "zerr", ("neg", ("str", "a"))), ("emit", ("filter", "abs", ("str", "x"), [])),
             ("for", "zi", ("int", 3), None, [("raw", "x")], None, False),
             # unpacking that fails after the right-hand side was evaluated: one item for two targets, a non-iterable
             ("set", ["zua", "zub"], ("list", [("int", 1)])),
             ("with", [(["zua", "zub"], ("int", 5))], [("raw", "x")]),
             ("for", ["zk", "zv"], ("map", [(("str", "p"), ("int", 1))]), None, [("raw", "x")], None, False)]


def inject_error(rng, body, depth=0):
    """a copy of the program with a statement that fails at run time somewhere inside it"""
    body = list(body)
    cands = [i for i, st in enumerate(body) if proggen._sub_bodies(st) and st[0] != "macro"]
    if cands and depth < 3 and rng.chance(1, 2):
        i = rng.choice(cands)
        st = body[i]
        b = rng.choice(proggen._sub_bodies(st))
        body[i] = proggen._replace_body(st, b, inject_error(rng, b, depth + 1))
        return body
    body.insert(rng.below(len(body) + 1), rng.choice(ERR_STMTS))
    return body


def hexb(s):
    return bytes.fromhex(s or "")


def enc_answer(a):
    if a == "full":
        return [0]
    if a.startswith("a"):
        return [1, int(a[1:])]
    if a == "e:interrupted":
        return [3]
    return [2, KINDS[a[2:]][0]]


def split_default(script):
    """a script whose last element is "*<action>" describes a sink that answers <action> to every call after the script"""
    if script and script[-1].startswith("*"):
        return script[:-1], script[-1][1:]
    return script, None


def sink_req(script):
    sc, d = split_default(script)
    r = {"script": sc, "record": True}
    if d:
        r["default"] = d
    return r


def answer_at(script, i):
    sc, d = split_default(script)
    return sc[i] if i < len(sc) else (d or "full")


_WENC = {}


def enc_W(W):
    """the chunk-list part of a c19-drive case, as one pre-joined token (cached per free run)"""
    key = id(W)
    if key not in _WENC:
        toks = [str(len(W))]
        for w in W:
            toks.append(str(len(w)))
            toks.extend(str(b) for b in w)
        _WENC[key] = (W, " ".join(toks))
    return _WENC[key][1]


def enc_drive(script, W):
    sc, d = split_default(script)
    script = sc + ([d] if d else [])      # the first failing answer ends the model's run, so one copy of the default is enough
    out = [len(script)]
    for a in script:
        out += enc_answer(a)
    out.append(enc_W(W))                  # vlib.fmt_case prints every item with str()
    return out


def ints_of(case):
    return [int(t) for x in case for t in str(x).split()]


def dec_drive(m):
    """model output -> (result tuple, [(buf, acc)])"""
    if not m or m[0] not in (0, 1):
        return None
    if m[0] == 0:
        res, i = ("ok",), 1
    else:
        res, i = ("err", m[1], m[2], m[3]), 4
    n = m[i]; i += 1
    calls = []
    for _ in range(n):
        ln = m[i]; buf = bytes(m[i + 1:i + 1 + ln]); acc = m[i + 1 + ln]; i += 2 + ln
        calls.append((buf, acc))
    return res, calls


def first_failure(script, W_total_calls=None):
    for i, a in enumerate(script):
        if a == "a0" or (a.startswith("e:") and a != "e:interrupted"):
            return i
    return None



# every kind of value printed straight to the sink (each Display may issue several writes: the sink can fail between them)
VALUE_CTX = {"f_int": 3.0, "f_frac": 2.5, "f_neg": -7.0, "f_big": 1e20, "f_tiny": 1.5e-7, "f_huge": 1.7e308, "i_neg": -42, "i_zero": 0, "i_big": 9007199254740993,
             "b_t": True, "b_f": False, "nil": None, "s_plain": "plain", "s_meta": "<a href=\"x\">it's</a>&/", "s_empty": "", "s_uni": "naïve 中文",
             "lst": [1, 2.0, "<a>", [True, None, -0.5]], "mp": {"k": 1.0, "<q>": [2.0, {"z": "'"}]}, "empty_l": [], "empty_m": {}}
VALUE_EXPRS = ["f_int", "f_frac", "f_neg", "f_big", "f_tiny", "f_huge", "i_neg", "i_zero", "i_big", "b_t", "b_f", "nil", "s_plain", "s_meta", "s_empty", "s_uni", "lst", "mp",
               "empty_l", "empty_m", "fnan", "finf", "fninf", "fnegzero", "ubig", "imin", "u64max", "raw_bytes", "ch", "obj", "undefined_name",
               "s_meta|safe", "[f_int, f_neg]", "{'a': f_int, 'b': [fnegzero]}", "[obj, s_meta|safe, raw_bytes]", "f_int + 1", "f_int * 2.0", "1.0", "-0.0", "2.0 ** 3", "10 / 4", "10 / 5",
               "f_int|string", "f_int ~ ''", "lst|tojson", "f_int|tojson", "mp|items|list", "range(3)", "lst|map('string')|list", "f_int|round", "f_frac|round(1)", "i_neg|abs|float",
               "namespace(a=f_int)", "loop|default(f_int)", "s_meta|upper", "lst[1]", "mp.k", "(f_int, f_frac)", "f_int if b_t else 0", "lst|last|last"]


def value_programs():
    out = []
    for ext in ("txt", "html", "json"):
        for i in range(0, len(VALUE_EXPRS), 4):
            grp = VALUE_EXPRS[i:i + 4]
            src = "".join("%d={{ %s }};" % (j, e) for j, e in enumerate(grp))
            out.append(Prog({"v." + ext: src}, "v." + ext, "template", VALUE_CTX, "lenient", label="values", objects=True))
        # inside a loop / include / block, still straight to the sink
        out.append(Prog({"v." + ext: "{% for q in [f_int, f_neg, fnegzero, f_big] %}[{{ q }}]{% endfor %}{% include 'w." + ext + "' %}{% block b %}{{ f_int }}{{ [f_int] }}{% endblock %}",
                         "w." + ext: "w={{ f_int }}|{{ f_frac }}|{{ finf }}"}, "v." + ext, "template", VALUE_CTX, "lenient", label="values", objects=True))
    return out


def multi_programs(rng, n):
    """random multi-template programs: include chains of depth 2-3 (plain / ignore missing / lists / in loops and captures),
    extends + super(), import bodies and imported macros; every level writes raw text and values of several kinds"""
    vals = ["f_int", "f_frac", "s_meta", "i_neg", "lst", "nil", "b_t", "obj", "f_neg", "s_meta|safe", "mp.k", "fnegzero"]
    out = []
    for _ in range(n):
        exts = [rng.choice(["txt", "txt", "html", "json"]) for _ in range(6)]
        depth = 2 + rng.below(2)
        names = ["t%d.%s" % (i, exts[i]) for i in range(depth + 1)]
        t = {}

        def emit():
            return "{{ %s }}" % rng.choice(vals)

        def include_stmt(target):
            c = rng.below(8)
            if c == 0: return "{% include '" + target + "' %}"
            if c == 1: return "{% include '" + target + "' ignore missing %}"
            if c == 2: return "{% include ['nope.txt', '" + target + "'] %}"
            if c == 3: return "{% include ['nope.txt', '" + target + "'] ignore missing %}"
            if c == 4: return "{% for i in [1, 2] %}<{% include '" + target + "' ignore missing %}>{% endfor %}"
            if c == 5: return "{% set cap %}{% include '" + target + "' %}{% endset %}({{ cap }})"
            if c == 6: return "{% include 'gone.txt' ignore missing %}{% include '" + target + "' ignore missing %}"
            return "{% if b_t %}{% include '" + target + "' %}{% endif %}"
        for lvl in range(depth, -1, -1):
            body = "L%d[" % lvl + emit()
            if lvl < depth:
                body += "|" + include_stmt(names[lvl + 1]) + "|" + emit()
                if rng.chance(1, 3):
                    body += include_stmt(names[lvl + 1])
            else:
                body += "=" + emit() + emit()
            body += "]"
            t[names[lvl]] = body
        main = names[0]
        c = rng.below(4)
        if c == 0:      # main becomes a child of a base; the chain sits in a block next to super()
            t["base." + exts[4]] = "B<{% block a %}base:" + emit() + "{% include '" + names[1] + "' ignore missing %}{% endblock %}|{% block z %}z{% endblock %}>" + emit()
            t["child." + exts[5]] = "{% extends 'base." + exts[4] + "' %}{% block a %}C(" + t[names[0]] + "|{{ super() }}){% endblock %}"
            main = "child." + exts[5]
        elif c == 1:    # imported macros and import bodies (a module body's own output is discarded)
            t["lib." + exts[4]] = "libtext" + emit() + "{% macro m(v) %}m<{{ v }}{% include '" + names[depth] + "' ignore missing %}>{% endmacro %}{% macro k() %}" + emit() + "{% endmacro %}"
            t[names[0]] = "{% import 'lib." + exts[4] + "' as L %}{% from 'lib." + exts[4] + "' import k %}" + t[names[0]] + "{{ L.m(f_int) }}{{ k() }}"
        out.append(Prog(t, main, "template", VALUE_CTX, "lenient", label="multi", objects=True))
    return out


class GenS(proggen.Gen):
    """proggen.Gen plus loops over the characters of a string (plain, with metacharacters, or a captured safe one)"""

    def stmt(self, env, d, in_loop):
        r = self.rng
        if d > 0 and r.chance(1, 10):
            v = self.fresh("c")
            env2 = dict(env)
            env2[v] = "str"
            return ("for", v, self.str_expr(env, 1), None, self.body(env2, d - 1, True), None, False)
        return proggen.Gen.stmt(self, env, d, in_loop)


class Prog:
    def __init__(self, templates, main, entry, ctx, undefined="lenient", ast=None, label="", formatter=False, objects=False):
        self.templates, self.main, self.entry, self.ctx, self.undefined, self.ast, self.label = templates, main, entry, ctx, undefined, ast, label
        self.formatter, self.objects = formatter, objects

    def req(self, sinks):
        return {"templates": self.templates, "main": self.main, "entry": self.entry, "ctx": self.ctx,
                "undefined": self.undefined, "formatter": self.formatter, "objects": self.objects, "sinks": sinks}

    def describe(self):
        return {"templates": self.templates, "main": self.main, "entry": self.entry, "context": self.ctx, "undefined": self.undefined,
                "formatter": self.formatter, "objects": self.objects}


def run_c19(reqs, release=False):
    env = dict(ENV)
    env["MJVERIF_WATCHDOG_MS"] = "60000"
    return run_json([bin_path("c19", release)], reqs, env=env)


def gen_programs(chk):
    rng = chk.rng
    progs = []
    for t, main, entry in FAMILIES:
        for ub in ("lenient", "strict"):
            progs.append(Prog(t, main, entry, FAMILY_CTX, ub, label="family"))
    for t, main, entry, fm, ob in WRITER_PATHS:
        progs.append(Prog(t, main, entry, FAMILY_CTX, "lenient", label="family", formatter=fm, objects=ob))
    progs += value_programs()
    progs += multi_programs(rng, 2000 if chk.thorough else 60)
    n = 20000 if chk.thorough else 300
    for j in range(n):
        html = j % 2 == 1
        inc = j % 5 == 0
        g = GenS(rng, {"autoescape": html and j % 4 == 1, "strings_with_meta": html, "include": inc}, max_depth=2 + rng.below(3))
        ctx, kinds = proggen.default_context(rng)
        if html:
            ctx["s"] = rng.choice(["<b>", "a&b", "it's \"q\"", "x/y", "plain"])
        body = g.template(kinds)
        if j % 3 == 2:
            body = inject_error(rng, body)
        name = "main.html" if html else "main"
        t = {name: proggen.body_src(body)}
        if inc:
            t.update(INC)
        progs.append(Prog(t, name, "template", ctx, "lenient", ast=None if inc else body, label="generated-html" if html else "generated"))
    return progs


def scripts_for(chk, W, thorough, light=False):
    """every failure point x error kinds, Ok(0) at sampled points, short-write / interrupted scripts"""
    rng = chk.rng
    n = len(W)
    out = []
    for k in range(n + 1):                     # k = n: the failure point is never reached
        for kind in ([MAIN_KINDS[k % 3]] if light else MAIN_KINDS):      # light: one kind per failure point (long multi-template programs)
            out.append(["full"] * k + ["e:" + kind])
    pts = list(range(n)) if (thorough or n <= 12) else sorted({rng.below(n) for _ in range(6)})
    for k in range(n):                         # a sink that KEEPS failing from call k on
        out.append(["full"] * k + ["*e:" + MAIN_KINDS[k % 3]])
    for k in pts:
        out.append(["full"] * k + ["a0"])
        out.append(["full"] * k + ["e:" + rng.choice(["timedout", "unexpectedeof"])])
    total = sum(len(w) for w in W)
    if total:
        out.append(["a1"] * min(total, 400))                                  # byte by byte
        out.append(["a1", "e:interrupted"] * min(total, 200))
        for _ in range(6 if not thorough else 20):
            ln = rng.below(2 * n + 3)
            sc = [rng.choice(["full", "a1", "a2", "a3", "a7", "e:interrupted", "full", "a1"]) for _ in range(ln)]
            c = rng.below(4)
            if c == 0:
                sc.append("a0")
            elif c in (1, 2):
                sc.append("e:" + rng.choice(list(KINDS)))
            out.append(sc)
    return out


def judge(prog, script, free, obs):
    """Direct oracle.  Returns None or a string describing the violated clause."""
    W = free["W"]
    allbytes = b"".join(W)
    r = obs.get("result", {})
    if "panic" in r or "panic" in obs:
        return "panic while rendering into the sink: %r" % (r.get("panic") or obs.get("panic"))
    got = hexb(obs.get("got"))
    if allbytes[:len(got)] != got:
        return "bytes received are not a prefix of the render"
    if free["plain_ok"] is not None and free["plain_ok"][:len(got)] != got:
        return "bytes received are not a prefix of the plain render"
    if obs.get("calls_after_fail", 0) != 0:
        return "%d write call(s) after the sink had failed" % obs["calls_after_fail"]
    ff = obs.get("first_fail")
    if ff is not None:
        a = answer_at(script, ff)
        if "err" not in r:
            return "the sink failed at call %d but the render returned success" % ff
        if r["err"] != 19:
            return "the sink failed but the error kind is %s, not WriteFailure" % ERR_NAMES.get(r["err"], r["err"])
        if not r.get("source_is_io"):
            return "WriteFailure without the io::Error as source()"
        if a == "a0":
            if r.get("io_kind") != "WriteZero":
                return "Ok(0) answer: source kind %s, expected WriteZero" % r.get("io_kind")
        else:
            if r.get("io_kind") != KINDS[a[2:]][1]:
                return "source io kind %s differs from the injected %s" % (r.get("io_kind"), KINDS[a[2:]][1])
            if r.get("io_msg") != "injected#%d" % ff:
                return "source is not the error the sink returned (message %r)" % r.get("io_msg")
    else:
        # nothing failed: identical to the free run / plain render
        if got != allbytes:
            return "sink never failed but received different bytes than the free run"
        if free["result"] != ("ok" if "ok" in r else r.get("err")):
            return "sink never failed but the result differs from the free run"
    return None


# ---- histories on ONE State: render_captured, then many calls on the captured state ------------------------------------
HIST_CTX = {"n": 7, "m": -12, "s": "ab", "k": [1, 2, 3], "h": "<b>&"}
HIST_FAMILIES = [
    # (templates, main, blocks, macros)
    ({"base": "{% block a %}base-a:{{ n }}{% for i in k %}{{ i }}{% endfor %}{% endblock %}|{% block z %}z{{ s }}{% endblock %}",
      "mid": "{% extends 'base' %}{% block a %}mid({{ super() }}){{ m }}{% endblock %}",
      "child": "{% extends 'mid' %}{% macro mm() %}M{{ n }}{% endmacro %}{% block a %}child[{{ super() }}]{{ s }}{% endblock %}{% block z %}Z{{ super() }}{% include 'inc' %}{% endblock %}",
      "inc": "i{{ n }}{{ s }}"}, "child", ["a", "z"], ["mm"]),
    ({"base.html": "<{% block a %}b{{ h }}{{ n }}{% endblock %}>", "child.html": "{% extends 'base.html' %}{% block a %}[{{ h }}{{ super() }}{{ super()|upper }}]{% endblock %}"},
     "child.html", ["a"], []),
    ({"l0": "{% block a %}0:{{ n }}{{ s }}{% endblock %}", "l1": "{% extends 'l0' %}{% block a %}1({{ super() }}){% endblock %}",
      "l2": "{% extends 'l1' %}{% block a %}2({{ super() }}{{ m }}){% endblock %}", "l3": "{% extends 'l2' %}{% block a %}3({{ super() }})|{% set x = super() %}{{ x }}{% endblock %}"},
     "l3", ["a"], []),
    ({"main": "{% macro w(v) %}<{{ v }}{{ n }}>{% endmacro %}{% macro plain() %}p{{ s }}{{ w(1) }}{% endmacro %}{% block outer %}o{% block inner %}i{{ n }}{{ w(s) }}{% endblock %}{{ self.inner() }}{% include 'inc' %}{% for i in k %}{% include 'inc' %}{% endfor %}{% endblock %}",
      "inc": "({{ s }}{{ n }})"}, "main", ["outer", "inner"], ["plain"]),
]


def history_steps(rng, blocks, macros, W, reps):
    """healthy reference calls, then failing sinks at every write point of every block, with healthy calls in between"""
    steps = [{"op": "block_to_write", "block": b, "script": [], "record": True} for b in blocks]
    steps += [{"op": "block", "block": b} for b in blocks] + [{"op": "macro", "name": m_} for m_ in macros]
    pts = [(b, k) for b in blocks for k in range(len(W[b]))]
    for rep in range(reps):
        b, k = pts[rep % len(pts)] if pts else (blocks[0], 0)
        kind = MAIN_KINDS[rep % 3]
        st = {"op": "block_to_write", "block": b, "script": ["full"] * k + ["e:" + kind], "record": True, "fail_at": k}
        if rep % 2:
            st["default"] = "e:" + kind
        steps.append(st)
        if rep % 5 == 4:
            hb = blocks[(rep // 5) % len(blocks)]
            steps.append({"op": "block_to_write", "block": hb, "script": [], "record": True})
            steps.append({"op": "block", "block": hb})
            if macros:
                steps.append({"op": "macro", "name": macros[(rep // 5) % len(macros)]})
    return steps


def history_judge(steps, resp):
    """the outcome of a call must not depend on earlier calls on the state.  -> (step index, what) or None"""
    if "history" not in resp:
        return (0, "the harness could not run the history: %s" % json.dumps(resp)[:200])
    ref_w, ref_b, ref_m = {}, {}, {}
    for i, (st, r) in enumerate(zip(steps, resp["history"])):
        res = r.get("result", {})
        if "panic" in res:
            return (i, "panic: %r" % res["panic"])
        if st["op"] == "block_to_write":
            b = st["block"]
            failing = "fail_at" in st
            if not failing:
                cur = (r.get("got"), r.get("offered"), "ok" if "ok" in res else res.get("err"))
                if b not in ref_w:
                    ref_w[b] = cur
                elif cur != ref_w[b]:
                    return (i, "a healthy writer receives something else than the first healthy writer did on this state (block %s): result %s" % (b, cur[2]))
            else:
                if b not in ref_w or ref_w[b][2] != "ok":
                    continue
                W = [hexb(x) for x in ref_w[b][1]]
                k = st["fail_at"]
                if k >= len(W):
                    continue
                if hexb(r.get("got")) != b"".join(W[:k]):
                    return (i, "bytes received by the failing writer are not the first %d writes of the block" % k)
                if r.get("calls_after_fail", 0):
                    return (i, "%d write call(s) after the sink had failed" % r["calls_after_fail"])
                if res.get("err") != 19:
                    return (i, "the sink failed at write %d but the call returned %s, not WriteFailure" % (k, ERR_NAMES.get(res.get("err"), res)))
                if not res.get("source_is_io") or res.get("io_msg") != "injected#%d" % k:
                    return (i, "WriteFailure does not carry the sink's first io::Error as source")
        else:
            key, ref = st.get("block") or st.get("name"), (ref_b if st["op"] == "block" else ref_m)
            cur = (r.get("text"), "ok" if "ok" in res else res.get("err"))
            if key not in ref:
                ref[key] = cur
            elif cur != ref[key]:
                return (i, "%s(%s) on the reused state gives another result than the first time: %s" % ("render_block" if st["op"] == "block" else "call_macro", key, cur[1]))
    return None


def run_histories(chk, hist, replay=None):
    """-> (evaluations, list of (what, replay dict))"""
    rng = chk.rng
    bad, evals = [], 0
    jobs = []
    if replay:
        jobs.append((replay["templates"], replay["main"], replay.get("recursion_limit"), replay["steps"]))
    else:
        for t, main, blocks, macros in HIST_FAMILIES:
            for limit in (None, 24, 32, 48):
                probe = {"templates": t, "main": main, "ctx": HIST_CTX, "history": [{"op": "block_to_write", "block": b, "script": [], "record": True} for b in blocks]}
                if limit:
                    probe["recursion_limit"] = limit
                r = run_c19([probe])[0]
                if "history" not in r or any("ok" not in x.get("result", {}) for x in r["history"]):
                    hist["history_reference_unavailable"] += 1          # e.g. the limit is too small for the template itself
                    continue
                W = {b: x["offered"] for b, x in zip(blocks, r["history"])}
                reps = (150 if chk.thorough else 120) if limit is None else 40
                jobs.append((t, main, limit, history_steps(rng, blocks, macros, W, reps)))
    for rel in (False, True):
        reqs = []
        for t, main, limit, steps in jobs:
            q = {"templates": t, "main": main, "ctx": HIST_CTX, "history": [{k_: v_ for k_, v_ in st.items() if k_ != "fail_at"} for st in steps]}
            if limit:
                q["recursion_limit"] = limit
            reqs.append(q)
        for (t, main, limit, steps), resp in zip(jobs, run_c19(reqs, release=rel)):
            evals += len(steps)
            if not rel:
                hist["history_calls"] += len(steps)
                hist["history_failing_writers"] += sum(1 for st in steps if "fail_at" in st)
            v = history_judge(steps, resp)
            if v:
                i, what = v
                bad.append(("call %d of a history on one State: %s" % (i, what),
                            {"kind": "history", "templates": t, "main": main, "context": HIST_CTX, "recursion_limit": limit, "steps": steps[:i + 1],
                             "failed_step": i, "observed": resp.get("history", [resp])[i] if "history" in resp else resp, "profile": "release" if rel else "debug",
                             "how": "./check C19 --replay <this file>"}))
    return evals, bad


def main():
    chk = Check("C19", "proof")
    chk.cov["trusted_base"] = TRUSTED_COMMON + [
        "the sink protocol: std::io::Write::write_all semantics are modelled in C19/Model.v (write_all) and compared call by call with what the instrumented sink observes",
        "the sink-driven run of a program is modelled as a function of the chunk list of its plain run (captured output never reaches the sink directly); for the core fragment the chunk list is the reference interpreter's"]
    chk.assumptions = ["the render context and templates are deterministic (two runs of the same program produce the same write sequence)",
                       "programs whose plain render fails: C19/Partial.v keeps the chunks written before the error (proved to agree with Lang/Interp.v); the engine's bytes-before-error and error code are compared with it for the generated core-fragment programs"]
    okm, blog = build_models("C19")
    proofs_ok = chk.run_proofs()
    okc, clog = cargo_build(["c19"], release=False)
    okr, clog2 = cargo_build(["c19"], release=True)
    if not (okc and okr):
        chk.violation("harness does not build against the current tree", {"theorem_or_correspondence": "build harness/src/bin/c19.rs", "log": (clog + clog2)[-1500:]}, True)
        chk.finish()
    if not okm:
        chk.violation("model build failed", {"theorem_or_correspondence": "coq/theories/C19 build", "log": blog[-1500:]}, True)
        chk.finish()

    replay_script = None
    if chk.replay and json.load(open(chk.replay))["replay"].get("kind") == "history":
        rp = json.load(open(chk.replay))["replay"]
        hh = collections.Counter()
        ev, hb = run_histories(chk, hh, replay=rp)
        for what, r_ in hb[:1]:
            chk.violation(what, r_)
        chk.cov["evaluations"] = ev
        chk.finish()
    if chk.replay:
        rp = json.load(open(chk.replay))["replay"]
        p = rp["program"]
        progs = [Prog(p["templates"], p["main"], p["entry"], p["context"], p.get("undefined", "lenient"), label="replay",
                      formatter=p.get("formatter", False), objects=p.get("objects", False))]
        replay_script = rp.get("script")
    else:
        progs = gen_programs(chk)

    hist = collections.Counter()
    nontriv = set()
    evaluations = 0
    model_mism = []
    bad = []                 # (prog index, script, profile, what, obs)
    samples = []
    chunk_checked = chunk_refined = failing_compared = failing_with_output = 0
    model_cache = {}
    chunk_bad = []
    for rel in (False, True):
        prof = "release" if rel else "debug"
        # phase 1: free runs
        frees = run_c19([p.req([{"script": [], "record": True}]) for p in progs], release=rel)
        infos = []
        for p, f in zip(progs, frees):
            if "sinks" not in f:
                infos.append(None)
                if "load_error" in f:
                    hist["load_error"] += 1
                    continue
                bad.append((p, [], prof, "crash/hang/panic in the free run: %s" % json.dumps(f)[:200], f))
                continue
            o = f["sinks"][0]
            W = [hexb(x) for x in o.get("offered", [])]
            res = o["result"]
            info = {"W": W, "result": "ok" if "ok" in res else res.get("err", "panic"),
                    "plain_ok": f["plain"]["ok"].encode() if "ok" in f["plain"] else None}
            infos.append(info)
            evaluations += 1
            if "panic" in res:
                bad.append((p, [], prof, "panic in the free run: %r" % res["panic"], o)); continue
            # the free run must be the plain render
            if "ok" in f["plain"]:
                if "ok" not in res or hexb(o["got"]) != info["plain_ok"] or b"".join(W) != info["plain_ok"]:
                    bad.append((p, [], prof, "a sink that never fails did not receive exactly the plain render", o)); continue
            else:
                if res.get("err") != f["plain"].get("err"):
                    bad.append((p, [], prof, "render error differs between render() and render_captured_to()", o)); continue
            if not rel:
                hist["free_" + ("ok" if "ok" in res else "err_" + ERR_NAMES.get(res.get("err"), "?"))] += 1
                hist["writes_%s" % ("0" if not W else "1-9" if len(W) < 10 else "10-49" if len(W) < 50 else "50+")] += 1
                if p.label.startswith("generated"):
                    src = p.templates[p.main]
                    for lab, rx in NEW_CONSTRUCTS:
                        if rx.search(src):
                            hist["generated_uses_" + lab] += 1
        # phase 2: scripted sinks
        reqs, plan = [], []
        for pi, (p, info) in enumerate(zip(progs, infos)):
            if info is None:
                continue
            scs = [replay_script] if replay_script is not None else scripts_for(chk, info["W"], chk.thorough, light=(p.label == "multi" and not chk.thorough))
            reqs.append(p.req([sink_req(sc) for sc in scs]))
            plan.append((pi, scs))
        outs = run_c19(reqs, release=rel)
        cases, case_ref = [], []
        for (pi, scs), o in zip(plan, outs):
            p, info = progs[pi], infos[pi]
            if "sinks" not in o:
                bad.append((p, scs[0] if scs else [], prof, "crash/hang/panic of the harness process: %s" % json.dumps(o)[:200], o))
                continue
            for sc, ob in zip(scs, o["sinks"]):
                evaluations += 1
                why = judge(p, sc, info, ob)
                if why:
                    bad.append((p, sc, prof, why, ob))
                cases.append(enc_drive(sc, info["W"]))
                case_ref.append((pi, sc, ob))
                if not rel:
                    ff = ob.get("first_fail")
                    a = (answer_at(sc, ff) if ff is not None else None)
                    if split_default(sc)[1]:
                        hist["keeps_failing_sinks"] += 1
                    hist["answer_at_failure=" + str(a)] += 1
                    if any(x.startswith("a") and x != "a0" for x in sc[:ob["calls"]]):
                        hist["with_short_writes"] += 1
                    if ff is not None and 0 < len(hexb(ob["got"])) < len(b"".join(info["W"])):
                        nontriv.add((pi, tuple(sc)))
                    if len(samples) < 3 and ff is not None and ff >= 2 and p.label != "family":
                        samples.append({"program": p.describe(), "script": sc, "received": hexb(ob["got"]).decode("utf8", "replace"),
                                        "result": ob["result"], "free_run_writes": [w.decode("utf8", "replace") for w in info["W"]][:12]})
        # correspondence with the extracted model: complete call log + returned error
        log("[C19] %s: engine runs done %.1fs" % (prof, time.time() - chk.t0))
        keys = [fmt_case(c_) for c_ in cases]
        todo = [i for i, k_ in enumerate(keys) if k_ not in model_cache]
        for i, m_ in zip(todo, run_model("C19", "c19-drive", [cases[i] for i in todo])):
            model_cache[keys[i]] = m_          # the release profile offers the same free runs: the model is asked once per distinct case
        model = [model_cache[k_] for k_ in keys]
        log("[C19] %s: model runs done %.1fs" % (prof, time.time() - chk.t0))
        for m, (pi, sc, ob), case in zip(model, case_ref, cases):
            d = dec_drive(m)
            if d is None:
                model_mism.append((pi, sc, prof, "model output undecodable", m[:20])); continue
            res, calls = d
            r = ob["result"]
            impl_res = ("ok",) if "ok" in r else ("err", r.get("err"), 1 if r.get("source_is_io") else 0, 0)
            if "err" in r and r.get("source_is_io"):
                kn = {v[1]: v[0] for v in KINDS.values()}
                kn["WriteZero"] = K_WRITEZERO
                impl_res = ("err", r["err"], 1, kn.get(r.get("io_kind"), -1))
            free_failed = infos[pi]["result"] != "ok"
            impl_calls = list(zip([hexb(x) for x in ob.get("offered", [])], ob.get("accepted", [])))
            if calls != impl_calls or (res != impl_res and not (free_failed and res == ("ok",))):
                model_mism.append((pi, sc, prof, "call log / result differs from the model", {"model": [res, len(calls)], "impl": [impl_res, len(impl_calls)]}))
        if not rel and not chk.replay:
            # kernel cross-check of the extracted model on small cases
            small = sorted(range(len(cases)), key=lambda i: len(cases[i]) + len(cases[i][-1]) // 2)
            small = [i for i in small if len(cases[i]) + len(cases[i][-1]) // 2 > 12][:15]
            kern = kernel_eval("run_drive", [ints_of(cases[i]) for i in small], "k_C19", imports="Common.Base C19.Runner")
            kern_ok = kern is not None and all(kern[j] == model[small[j]] for j in range(len(small)))
            chk.cov["kernel_crosscheck"] = {"cases": len(small), "agree": kern_ok}
            # the interpreter's chunk list (core fragment, generated programs without includes)
            idx = [i for i, p in enumerate(progs) if p.ast is not None and infos[i] is not None]
            creqs = [langenc.request(merge_raws(progs[i].ast), progs[i].ctx, "lenient", progs[i].main.endswith(".html"))[0] for i in idx]
            cm = run_model("C19", "c19-partial", creqs)
            for i, m in zip(idx, cm):
                info = infos[i]
                if m[:1] not in ([0], [1]):
                    continue
                j = 1 if m[0] == 0 else 2
                chunks = []
                n_ch = m[j]; j += 1
                for _ in range(n_ch):
                    chunks.append("".join(chr(c) for c in m[j + 1:j + 1 + m[j]]).encode()); j += 1 + m[j]
                chunk_checked += 1
                want = "ok" if m[0] == 0 else m[1]
                if m[0] == 1:
                    failing_compared += 1
                    if chunks:
                        failing_with_output += 1
                if info["result"] != want:
                    chunk_bad.append((i, "interpreter result %s vs engine %s" % (want, info["result"])))
                    continue
                if b"".join(chunks) != b"".join(info["W"]):
                    chunk_bad.append((i, "the bytes the sink received before the %s differ from the interpreter's chunks" % ("end" if m[0] == 0 else "render error")))
                    continue
                cut, acc = set(), 0
                for w in info["W"]:
                    acc += len(w); cut.add(acc)
                acc, fine = 0, True
                for ch in chunks:
                    acc += len(ch)
                    if acc not in cut and acc != 0:
                        fine = False
                chunk_refined += fine
        else:
            kern_ok = True

    hist_bad = []
    if not chk.replay:
        ev_h, hist_bad = run_histories(chk, hist)
        evaluations += ev_h
        nontriv.update(("history", i) for i in range(hist["history_failing_writers"]))
        chk.cov["histories"] = {"calls": hist["history_calls"], "failing_writers": hist["history_failing_writers"], "violations": len(hist_bad)}
    chk.cov["evaluations"] = evaluations
    chk.cov["distinct_nontrivial"] = len(nontriv)
    chk.cov["rule"] = ("programs = hand-written multi-template families (include, extends/super, import, block entry via render_block_to_write, render errors, "
                       "non-ASCII, autoescape) x {lenient,strict} + typed random core-fragment programs (macros, call blocks, set-blocks, filter blocks, loops; half under "
                       "*.html auto-escape, a fifth with includes); per program: free run, then a failure at EVERY write call k <= #writes x {BrokenPipe, Other, WouldBlock}, "
                       "Ok(0)/TimedOut/UnexpectedEof at sampled k, byte-by-byte and random short-write/Interrupted scripts; debug and release; "
                       "non-trivial = distinct (program, script) where the sink failed after receiving a non-empty proper prefix of the render")
    chk.cov["samples"] = samples
    chk.cov["distribution"] = dict(hist)
    chk.cov["programs"] = len(progs)
    chk.cov["model_call_log_disagreements"] = len(model_mism)
    chk.cov["interpreter_chunk_lists"] = {"compared": chunk_checked, "disagreements": len(chunk_bad),
                                          "failing_renders_compared": failing_compared, "failing_renders_with_output_before_the_error": failing_with_output,
                                          "every_chunk_boundary_is_a_write_boundary": chunk_refined}
    for what, r_ in hist_bad[:3]:
        chk.violation(what, r_)
    if hist_bad:
        bad = bad or [None]
    seen = set()
    for p, sc, prof, why, ob in [x for x in bad if x]:
        key = (json.dumps(p.templates, sort_keys=True), why)
        if key in seen or len(seen) >= 5:
            continue
        seen.add(key)
        chk.violation(why, {"program": p.describe(), "script": sc, "profile": prof, "observed": ob, "how": "./check C19 --replay <this file>"})
    if not bad:
        if model_mism:
            pi, sc, prof, why, d = model_mism[0]
            chk.violation("model and implementation disagree: " + why, {"theorem_or_correspondence": "C19/Model.v drive vs harness c19", "program": progs[pi].describe(),
                          "script": sc, "profile": prof, "detail": d}, True)
        if chunk_bad:
            i, why = chunk_bad[0]
            chk.violation("reference interpreter and engine disagree: " + why, {"theorem_or_correspondence": "Lang/Interp.v chunk list vs free run", "program": progs[i].describe()}, True)
        if not kern_ok:
            chk.violation("kernel evaluation disagrees with the extracted model", {"theorem_or_correspondence": "vm_compute cross-check of extraction"}, True)
        if not proofs_ok:
            chk.violation("proof obligations of C19 do not check", {"theorem_or_correspondence": chk.proof["problems"]}, True)
        if not chk.replay and len(nontriv) < 500:
            chk.violation("generator degenerated: too few non-trivial failure points", {"theorem_or_correspondence": "tools/props/C19.py distribution", "nontrivial": len(nontriv)}, True)
    chk.finish()


if __name__ == "__main__":
    main()
