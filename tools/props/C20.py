#!/usr/bin/env python3
"""C20 - the auto-reloader never loses a reload request (DESIGN.md §3 C20).

The harness bin c20 (hook H3) is a deterministic scheduler around the real AutoReloader: worker threads
park at every lock acquisition AND inside the user callbacks (freshness callback, on-should-reload callback: they
run with the notifier mutex held and may take arbitrarily long), a controller releases one at a time.  While a
thread is parked inside a callback, a thread that is about to take the notifier mutex is released speculatively:
the controller observes (kernel thread state) whether it goes to sleep on the mutex (event BLOCKED, the model's
LBlocked) or gets past the lock attempt - a lock attempt that neither acquires nor blocks (try_lock) is then an
ordinary, visible step that the model rejects and the spec judges.  This check enumerates ALL
schedules of small thread configurations (2 request_reload + 2 acquire_env exhaustively in quick,
3 + 3 sampled; thorough: 3 + 3 exhaustively for the layouts where that is feasible), and for every
observed trace
  * asks the extracted Coq model whether the trace is a run of the model (runner c20),
  * evaluates the extracted specification on it (runner c20-spec: no_lost_request, guard_excludes,
    no_spurious_rebuild),
  * evaluates the property directly on the observations (version handed out >= version required).
A violating schedule is the replay."""
import os, sys, collections, shutil, hashlib, concurrent.futures
sys.path.insert(0, os.path.dirname(os.path.dirname(os.path.abspath(__file__))))
from vlib import *
import vlib

HOOK_DEP = '"minijinja-autoreload/verif_hooks"'
POINTS = {11: "freshness-callback:return", 12: "on-should-reload-callback:return", 13: "BLOCKED on the notifier mutex before", 14: "creator:PANIC",
          1: "request:set-flag", 2: "request:notify", 3: "acquire:lock-cache", 4: "acquire:should_reload",
          5: "acquire:reset-flag", 6: "acquire:fast_reload?", 7: "creator:start", 8: "creator:end",
          9: "acquire:restore-flag", 10: "guard:drop"}


# ----------------------------------------------------------------------------------------------
# building the harness bin with the hooks feature
# ----------------------------------------------------------------------------------------------
def build_c20(release):
    """harness/Cargo.toml forwards `hooks` to minijinja/... features chosen by the integrator; the
    autoreload hook is added in a shadow manifest when it is not listed there (the shared manifest
    cannot name a feature that /repo does not have yet without breaking every other build)."""
    base = vlib.harness_dir()
    toml = open(os.path.join(base, "Cargo.toml")).read()
    m = re.search(r"^hooks\s*=\s*\[(.*)\]\s*$", toml, re.M)
    if m and HOOK_DEP in m.group(1):
        return cargo_build(["c20"], release=release, features=("hooks",))
    items = [x.strip() for x in (m.group(1).split(",") if m else []) if x.strip()] + [HOOK_DEP]
    line = "hooks = [" + ", ".join(items) + "]"
    toml2 = toml[:m.start()] + line + toml[m.end():] if m else toml.replace("[features]", "[features]\n" + line)
    d = os.path.join(vlib.CACHE, "harness-c20" + vlib._TAG)
    os.makedirs(d, exist_ok=True)
    tp = os.path.join(d, "Cargo.toml")
    if not os.path.exists(tp) or open(tp).read() != toml2:
        open(tp, "w").write(toml2)
    link = os.path.join(d, "src")
    if not os.path.islink(link):
        os.symlink(os.path.join(vlib.ROOT, "harness", "src"), link)
    with Lock("cargo" + vlib._TAG):
        lock_src = os.path.join(vlib.REPO, "Cargo.lock")
        lock_dst = os.path.join(d, "Cargo.lock")
        if not os.path.exists(lock_dst):
            sh(["cp", lock_src, lock_dst])
        cmd = ["cargo", "build", "--offline", "--quiet", "--bin", "c20", "--features", "hooks"] + (["--release"] if release else [])
        rc, o, e = sh(cmd, cwd=d, timeout=3000)
        if rc != 0 and "Cargo.lock" in e:
            sh(["cp", lock_src, lock_dst])
            rc, o, e = sh(cmd, cwd=d, timeout=3000)
        return rc == 0, o + e


# ----------------------------------------------------------------------------------------------
# configurations
# ----------------------------------------------------------------------------------------------
def cfg_ints(fast, fresh, oncb, creators, threads):
    v = [fast, fresh, oncb, len(creators)] + list(creators) + [len(threads)]
    for t in threads:
        v += [len(t)] + list(t)
    return v


def describe_cfg(fast, fresh, oncb, creators, threads):
    ops = {1: "request_reload", 2: "acquire_env+drop"}
    cre = {0: "ok", 1: "fail", 2: "request_reload;ok", 3: "request_reload;fail", 4: "PANIC", 5: "PANIC", 6: "request_reload;PANIC", 7: "request_reload;PANIC"}
    fr = {0: "none", 1: "always false", 2: "always true", 3: "true,false,...", 4: "false,true,...", 5: "PANIC at first poll", 6: "true,PANIC"}
    oc = {0: "none", 1: "installed", 2: "installed, PANICS at its first invocation", 3: "installed, PANICS at its second invocation"}
    return {"fast_reload": bool(fast), "freshness_callback": fr.get(fresh, fresh), "on_should_reload_callback": oc.get(oncb, oncb),
            "creator_script": [cre.get(c, c) for c in creators] + ["ok..."],
            "threads": [[ops.get(o, o) for o in t] for t in threads]}


SMALL_LAYOUTS = [[[1], [2]], [[1, 2]], [[2, 1]], [[2, 1, 2]], [[2, 1, 2, 2]], [[1], [2, 2, 2]], [[2, 1, 2], [2]], [[2, 1], [2], [2]], [[1], [2, 2]], [[1], [2], [2]], [[1, 1], [2]], [[1], [1], [2]]]
L22 = [[[1], [1], [2], [2]], [[1, 1], [2, 2]], [[1, 2], [2, 1]], [[1], [1, 2], [2]], [[1, 1], [2], [2]], [[1], [1], [2, 2]],
       [[1, 2], [1, 2]], [[2, 1], [2, 1]]]
L33 = [[[1], [1], [1], [2], [2], [2]], [[1, 1, 1], [2, 2, 2]], [[1, 2], [1, 2], [1, 2]], [[1, 1, 1], [2], [2], [2]],
       [[1], [1], [1], [2, 2, 2]], [[2, 1], [1, 2], [1, 2]]]
L33_EXH = [[[1, 1, 1], [2, 2, 2]], [[1, 2], [1, 2], [1, 2]], [[2, 1], [2, 1], [2, 1]], [[1, 1, 1], [2], [2], [2]]]
SMALL_SCRIPTS = [[], [1], [2], [0, 1], [0, 3], [1, 1], [0, 1, 1], [3, 0, 2]]
SCRIPTS22 = [[], [0, 1], [2], [1], [0, 3, 1]]
SCRIPTS33 = [[], [0, 1], [0, 3, 1], [1, 2, 0], [0, 4, 0], [0, 6]]
PANIC_SCRIPTS = [[0, 4], [4], [0, 6], [0, 4, 0], [0, 1, 4], [6, 0]]


def jobs_for(chk):
    """Returns (exhaustive_jobs, sampled_jobs); a job = (label, cfg tuple, mode line suffix pieces)."""
    ex, sa = [], []
    for lay in SMALL_LAYOUTS:
        for fast in (0, 1):
            for fresh in (0, 1, 2, 3):
                for oncb in (0, 1):
                    for scr in (SMALL_SCRIPTS if ((oncb == 0 and fresh in (0, 3)) or chk.thorough) else SMALL_SCRIPTS[:5] if oncb == 0 else SMALL_SCRIPTS[:3]):
                        ex.append(("small", (fast, fresh, oncb, scr, lay), 1))
        # panics: creator (during the first build, during a rebuild, after a request from inside), freshness callback,
        # on-should-reload callback (in request_reload / in should_reload)
        for fast in (0, 1):
            for (fresh, oncb, scripts) in ((0, 0, PANIC_SCRIPTS), (3, 0, PANIC_SCRIPTS[:3]), (5, 0, [[], [0, 1]]), (6, 0, [[], [2]]), (6, 1, [[]]),
                                           (0, 2, [[], [2]]), (0, 3, [[], [2]]), (2, 2, [[]]), (2, 3, [[], [0, 4]]), (5, 1, [[]])):
                for scr in scripts:
                    ex.append(("small", (fast, fresh, oncb, scr, lay), 1))
    for lay in L22:
        nth = len(lay)
        for fast in (0, 1):
            for fresh in ((0, 3) if nth >= 4 else (0, 3) if (nth == 3 and not chk.thorough) else (0, 2, 3) if not chk.thorough else (0, 1, 2, 3)):
                for scr in (SCRIPTS22 if chk.thorough else SCRIPTS22[:4] if nth < 3 else (SCRIPTS22[:2] if (fresh == 0 and fast == 0) else SCRIPTS22[:1]) if nth >= 4 else SCRIPTS22[:2]):
                    ex.append(("2+2", (fast, fresh, 1 if (fresh == 3 and scr == []) else 0, scr, lay), 4 if nth >= 4 else 1))
        for (fast, fresh, oncb, scr) in (((0, 0, 0, [0, 4]), (0, 5, 0, [])) if (nth >= 4 and not chk.thorough) else ((0, 0, 0, [0, 4]), (1, 0, 0, [4, 0]), (0, 5, 0, []), (0, 0, 2, []))) + (((1, 3, 3, [0, 6]), (0, 6, 0, [2])) if nth < 4 else ()):
            ex.append(("2+2", (fast, fresh, oncb, scr, lay), 4 if nth >= 4 else 1))
    if chk.thorough:
        for lay in L33_EXH:
            for fast in (0, 1):
                for fresh in ((0, 3) if len(lay) < 4 else (0,)):
                    for scr in SCRIPTS33[:3]:
                        ex.append(("3+3", (fast, fresh, 0, scr, lay), 64 if len(lay) >= 4 else 16))
    nsample = 6000 if chk.thorough else 1000
    for lay in L33:
        for fast in (0, 1):
            for fresh in (0, 3):
                for scr in SCRIPTS33:
                    sa.append(("3+3 sampled", (fast, fresh, 0, scr, lay), nsample, chk.rng.next() % (1 << 62)))
    return ex, sa


# ----------------------------------------------------------------------------------------------
# one batch of harness work, executed in a worker process
# ----------------------------------------------------------------------------------------------
def direct_check(events):
    """The property on the implementation's observations only (no model, no flag).
    no_lost_request: a requester publishes source version k (event REQ_SET carries k) and then calls request_reload();
      once that call has returned (g == -2), every acquire_env that STARTS afterwards (its first step, whichever lock
      that takes) must hand out an environment whose templates show a source version >= k.
    guard_excludes: no creator start / second guard while a guard is out; the guard dereferences to the same environment at the drop.
    no_spurious_rebuild: every rebuild (creator call, or cache clear with fast reload) needs its own reason: there are at most
      1 (nothing cached yet) + failed/panicked creator calls (still nothing cached / flag restored) + requests that took effect
      + flag restores + "stale" answers of the freshness callback of them.
    Returns list of violated clauses."""
    pend = {}
    retmax = 0
    need = {}
    in_acq = {}
    held = None
    bad = []
    rebuilds = reasons = 0
    reasons = 1
    for (t, p, a, g, v, w) in events:
        if p == 1:
            pend[t] = a
            if g != -3:
                reasons += 1
        if g == -2:
            retmax = max(retmax, pend.get(t, 0))
        if p in (3, 4, 5, 6) and not in_acq.get(t):
            in_acq[t] = True      # first step of an acquire_env
            need[t] = retmax
        if p == 7:
            rebuilds += 1
            if held is not None:
                bad.append("guard_excludes: creator started while a guard was held")
        if p == 6 and g > 0:
            rebuilds += 1
        if (p == 8 and a == 0) or p == 14 or p == 9:
            reasons += 1
        if p == 11 and a % 4 == 2:
            reasons += 1
        if p == 10:
            if held != (t, g, v, w):
                bad.append("guard_excludes: guard of thread %d dereferenced to (gen %d, requests %d, source version %d) at drop, acquired %s" % (t, g, v, w, held))
            held = None
            in_acq[t] = False
        elif g > 0:
            if held is not None:
                bad.append("guard_excludes: environment handed out while another guard was held")
            held = (t, g, v, w)
            if w < need.get(t, 0):
                bad.append("no_lost_request: thread %d was handed generation %d showing source version %d although the request_reload for version %d had returned before its acquire_env started" % (t, g, w, need[t]))
        elif g in (-1, -3) and in_acq.get(t) and p != 1 and p != 2:
            in_acq[t] = False
    if rebuilds > reasons:
        bad.append("no_spurious_rebuild: %d rebuilds (creator calls / cache clears) but only %d reasons (1 initial build + requests that took effect + failed creator calls + flag restores + stale answers of the freshness callback)" % (rebuilds, reasons))
    return bad


def classify(events):
    """where requests took effect / were attempted; a run is non-trivial when at least one of them is not 'idle'"""
    holder = None
    last = 0
    where = []
    for (t, p, a, g, v, w) in events:
        if p == 13:
            where.append("blocked on the notifier mutex (other thread inside a callback): " + POINTS.get(a, str(a)))
        if p == 1:
            if holder is None:
                where.append("idle")
            elif t == holder:
                where.append("inside-creator(same thread)")
            else:
                where.append({3: "after-lock", 4: "after-check", 5: "after-flag-reset", 6: "after-fast-check", 7: "during-creator",
                              8: "after-creator", 9: "after-restore", 11: "after-check", 12: "after-check", 40: "guard-held"}.get(last, "guard-held"))
        if p == 3:
            holder = t
            last = 3
        elif holder == t and p in (4, 5, 6, 7, 8, 9, 11, 12):
            last = p
            if g > 0:
                last = 40  # guard out
        if p == 10 or g == -1 or (g == -3 and t == holder):
            holder = None
    return where


_CPU = None


def _init_worker(q):
    """each pool process owns one cpu: its harness runs are pinned there (a hand-over between the
    scheduler's threads is then a plain context switch instead of a cross-core wake-up)"""
    global _CPU
    try:
        _CPU = q.get_nowait()
    except Exception:
        _CPU = None


def work(job, watchdog_s=None, deadline=None):
    binp, model, lines, tmo = job[:4]
    if deadline is None and len(job) > 4:
        deadline = job[4]
    cmd = [binp]
    if _CPU is not None and shutil.which("taskset"):
        cmd = ["taskset", "-c", str(_CPU), binp]
    env = dict(vlib.ENV)
    if watchdog_s:
        env["MJVERIF_WATCHDOG_S"] = str(watchdog_s)
    if deadline:
        env["MJVERIF_DEADLINE_EPOCH"] = "%.1f" % deadline
    rc, out, err = sh(cmd, inp="\n".join(" ".join(map(str, l)) for l in lines) + "\n", timeout=tmo, env=env)
    res = {"runs": 0, "ends": 0, "truncated": 0, "broken": None, "viol": [], "mismatch": [], "incons": [], "hist": collections.Counter(),
           "nontrivial": set(), "distinct": set(), "samples": [], "kernel": []}
    rl = [l for l in out.split("\n") if l]
    if rc != 0 or any(l.startswith("HANG") for l in rl):
        h = [l for l in rl if l.startswith("HANG")]
        res["broken"] = {"rc": rc, "line": (h[0] if h else (err or "")[-300:]), "input": lines[:3]}
        return res
    runs = []
    for l in rl:
        if l.startswith("END"):
            res["ends"] += 1
            res["truncated"] += int(l.split()[2])
        elif l.startswith("R "):
            runs.append(l[2:].split(" | "))
    if res["ends"] != sum(1 for l in lines if l[0] != 0) or len(runs) < sum(1 for l in lines if l[0] == 0):
        res["broken"] = {"rc": rc, "line": "output incomplete", "input": lines[:3]}
        return res
    minp = "\n".join(r[1] for r in runs) + "\n"
    rc1, mo, _ = sh([model, "c20"], inp=minp, timeout=tmo)
    rc2, so, _ = sh([model, "c20-spec"], inp=minp, timeout=tmo)
    mo = mo.split("\n")
    so = so.split("\n")
    if rc1 != 0 or rc2 != 0 or len(mo) < len(runs) or len(so) < len(runs):
        res["broken"] = {"rc": (rc1, rc2), "line": "extracted model failed", "input": lines[:3]}
        return res
    for i, r in enumerate(runs):
        case = [int(x) for x in r[0].split()]
        ev = [int(x) for x in r[1].split()]
        tot = [int(x) for x in r[2].split()]
        events = [tuple(ev[4 + 6 * k: 10 + 6 * k]) for k in range(ev[3])]
        m = [int(x) for x in mo[i].split()]
        s = [int(x) for x in so[i].split()]
        res["runs"] += 1
        bad = direct_check(events)
        spec_names = ["no_lost_request", "guard_excludes", "no_spurious_rebuild"]
        sbad = [spec_names[k] for k in range(3) if len(s) == 3 and s[k] != 1] if len(s) == 3 else ["undecodable trace"]
        if tot[2] != 0:
            # only possible for a hand-written / replayed schedule: the harness then took the lowest enabled thread instead
            res["hist"]["replayed schedule named a thread that was not enabled (lowest enabled thread taken instead)"] += 1
        # a failing input is reported when the direct evaluation of the observations fails; the extracted spec alone can only
        # fail on a trace that is not a run of the model (spec_holds_on_every_run) - that is reported as a disagreement below
        if bad:
            if len(res["viol"]) < 3:
                res["viol"].append({"case": case, "events": events, "direct": bad, "spec": sbad})
        # Python and Coq evaluate the same guard clause: they must agree (no_lost_request is evaluated on different
        # observations: source versions here, request counts in Spec.v)
        if any(b.startswith("guard") for b in bad) != ("guard_excludes" in sbad):
            if len(res["incons"]) < 3:
                res["incons"].append({"case": case, "direct": bad, "spec": sbad})
        ok_model = (m[:1] == [0]) and tot[0] == m[1] + m[2] and tot[1] == m[3] and not sbad
        if not ok_model and len(res["mismatch"]) < 3:
            res["mismatch"].append({"case": case, "events": events, "model": m, "loads": tot[0], "oncb_calls": tot[1], "spec_clauses_failing": sbad})
        where = classify(events)
        hkey = hashlib.sha256(r[0].encode()).digest()[:8]  # configuration + complete schedule (determines the trace)
        res["distinct"].add(hkey)
        if any(w != "idle" for w in where):  # incl. blocked attempts
            res["nontrivial"].add(hkey)
        H = res["hist"]
        for w in where:
            H[("request lands: " + w) if not w.startswith("blocked") else w] += 1
        H["events/run: %d-%d" % (len(events) // 10 * 10, len(events) // 10 * 10 + 9)] += 1
        H["creator calls/run: %d" % (m[1] if m[:1] == [0] else -1)] += 1
        nerr = sum(1 for e in events if e[3] == -1)
        H["acquire_env returned Err: %d" % nerr] += 1
        H["operations ended in a panic (creator / callback / poisoned mutex): %d" % sum(1 for e in events if e[3] == -3)] += 1
        if i in (0, len(runs) // 2) and len(res["samples"]) < 2:
            res["samples"].append({"case": case, "events": events})
        if i % 997 == 0 and len(res["kernel"]) < 2:
            res["kernel"].append((ev, m, s))
    return res


def readable(sample, note=None):
    case = sample["case"]
    i = 1
    fast, fresh, oncb, ncre = case[i:i + 4]
    i += 4
    cre = case[i:i + ncre]
    i += ncre
    nth = case[i]
    i += 1
    th = []
    for _ in range(nth):
        n = case[i]
        th.append(case[i + 1:i + 1 + n])
        i += 1 + n
    ns = case[i]
    sched = case[i + 1:i + 1 + ns]
    evs = []
    for (t, p, a, g, v, w) in sample["events"]:
        x = "T%d %s" % (t, POINTS.get(p, p))
        if p == 13:
            x += " " + str(POINTS.get(a, a))
        if p == 1:
            x += " (source version %d published)" % a
        if p == 4 and a:
            x += " (now inside the freshness callback, notifier mutex held)"
        if p in (2, 11) and a >= 4:
            x += " (now inside the on-should-reload callback, notifier mutex held)"
        if p == 11:
            x += " (answer: %s)" % ("stale" if a % 4 == 2 else "PANIC" if a % 4 == 3 else "fresh")
        if p == 12 and a == 1:
            x += " (PANIC)"
        if p == 7:
            x += " (generation %d)" % a
        if p == 8:
            x += " (Ok)" if a else " (Err)"
        if g == -1:
            x += " -> acquire_env returns Err"
        elif g == -2:
            x += " -> request_reload returns"
        elif g == -3:
            x += " -> the operation ends in a panic (caught by the caller)"
        elif g > 0:
            x += " -> %s env generation %d reflecting %d request(s), source version %d" % ("guard still on" if p == 10 else "acquire_env returns", g, v, w)
        evs.append(x)
    d = {"config": describe_cfg(fast, fresh, oncb, cre, th), "schedule": sched, "trace": evs}
    if note:
        d["note"] = note
    return d


# ----------------------------------------------------------------------------------------------
# real file-system leg: file-change notifications are reload requests delivered by the watcher
# ----------------------------------------------------------------------------------------------
FS_KINDS = {1: "in-place write of the template", 2: "another file created in the watched directory", 3: "template deleted",
            4: "template renamed inside the watched directory", 5: "new version moved in from outside (rename over the template)",
            6: "editor-style atomic save (temp file, an acquire_env in between, rename over the template)"}


def fs_trace(fast, stale):
    """The abstract history of one fs case in the harness/model event vocabulary: thread 0 acquires, the watcher
    thread 9 delivers the notification (= a request_reload: same two lock sections), thread 0 acquires again."""
    ev = [[0, 3, 0, 0, 0, 0], [0, 5, 0, 0, 0, 0], [0, 7, 1, 0, 0, 0], [0, 8, 1, 1, 0, 0], [0, 10, 0, 1, 0, 0],
          [9, 1, 1, 0, 0, 0], [9, 2, 0, -2, 0, 0], [0, 3, 0, 0, 0, 0]]
    if stale:
        ev += [[0, 4, 0, 1, 0, 0], [0, 10, 0, 1, 0, 0]]
    elif fast:
        ev += [[0, 4, 0, 0, 0, 0], [0, 5, 0, 0, 0, 0], [0, 6, 0, 1, 1, 1], [0, 10, 0, 1, 1, 1]]
    else:
        ev += [[0, 4, 0, 0, 0, 0], [0, 5, 0, 0, 0, 0], [0, 6, 0, 0, 0, 0], [0, 7, 2, 0, 0, 0], [0, 8, 1, 2, 1, 1], [0, 10, 0, 2, 1, 1]]
    return [fast, 0, 0, len(ev)] + [x for e in ev for x in e]


def fs_leg(chk, model, only=None):
    """Returns dict(results, violations=[(what, replay)], note)."""
    out = {"results": [], "violations": [], "note": None}
    ok, log_ = cargo_build(["c20_fs"], release=True, features=("watchfs",))
    if not ok:
        out["violations"].append(("file-system leg does not build against the current repo tree (feature watch-fs)",
                                  {"theorem_or_correspondence": "build of harness/src/bin/c20_fs.rs with feature watchfs", "log": log_[-1500:]}, True))
        return out
    cases = [only] if only else [[k, f] for f in (0, 1) for k in sorted(FS_KINDS)]
    d = os.path.join(vlib.CACHE, "c20fs")
    os.makedirs(d, exist_ok=True)
    env = dict(vlib.ENV)
    env["MJVERIF_FS_DIR"] = d

    def run(cs, tmo_ms):
        env["MJVERIF_FS_TIMEOUT_MS"] = str(tmo_ms)
        return run_lines([bin_path("c20_fs", True)], cs, timeout=120 + len(cs) * tmo_ms // 300, env=env)
    res = run(cases, 5000)
    # the model's side: each delivered event = a request; the expected history must be a run that satisfies the spec
    exp = [fs_trace(c[1], False) for c in cases]
    mrun = run_lines([model, "c20"], exp)
    mspec = run_lines([model, "c20-spec"], exp)
    for c, r, m, sp in zip(cases, res, mrun, mspec):
        kind, fast = c
        if len(r) < 6 or r[0] == "CRASH":
            out["violations"].append(("file-system leg crashed", {"theorem_or_correspondence": "harness c20_fs", "case": ["fs", kind, fast], "output": r}, True))
            continue
        if r[2] in (7, 8):
            out["note"] = "the file-system watcher could not be set up in this environment (inotify unavailable?): watcher event filtering NOT checked in this run"
            continue
        if r[2] == 0:
            # never alarm on a slow machine: twice more, with longer timeouts
            for tmo_ms in (12000, 30000):
                r2 = run([c], tmo_ms)[0]
                if len(r2) >= 6 and r2[2] == 1:
                    r = r2 + ["repeated"]
                    break
        rec = {"change": FS_KINDS[kind], "fast_reload": bool(fast), "visible_after_ms": r[5] if r[2] == 1 else None, "creator_calls": r[3], "template_loads": r[4]}
        out["results"].append(rec)
        if m[:1] != [0] or sp != [1, 1, 1]:
            out["violations"].append(("the expected history of a file-change notification is not a run of the model",
                                      {"theorem_or_correspondence": "C20.Runner vs fs leg", "case": ["fs", kind, fast], "model": m, "spec": sp}, True))
        elif r[2] != 1:
            stale = fs_trace(fast, True)
            ssp = run_lines([model, "c20-spec"], [stale])[0]
            out["violations"].append(("no_lost_request violated: a file change (%s) never triggers a reload" % FS_KINDS[kind],
                                      {"case": ["fs", kind, fast], "change": FS_KINDS[kind], "fast_reload": bool(fast),
                                       "observed": "the watcher was active, the change was made, acquire_env() polled for up to 30 s (3 attempts) kept handing out the environment created before the change "
                                                   "(creator calls %d, loads of the template %d)" % (r[3], r[4]),
                                       "abstract_history": stale, "coq_spec_on_it (no_lost_request guard_excludes no_spurious_rebuild)": ssp,
                                       "how": "./check C20 --replay <this file>"}, False))
    return out


# ----------------------------------------------------------------------------------------------
def main():
    chk = Check("C20", "proof")
    chk.cov["trusted_base"] = TRUSTED_COMMON + [
        "hook H3 (cargo feature verif_hooks of minijinja-autoreload): yield points before each lock acquisition and around the creator call; "
        "the scheduler in harness/src/bin/c20.rs (one thread runs at a time, cache-mutex availability tracked from the observed events, notifier-mutex availability = a thread is parked inside "
        "a user callback, blocked-vs-progressed decided from /proc/self/task/<tid>/stat (3 consecutive 'S' readings while the thread has not parked), at most one thread asleep on the notifier mutex, watchdog on every hand-over)",
        "std::sync::Mutex is a mutex; the `notify` crate / inotify deliver the events of the six kinds of change exercised by the file-system leg (other platforms' backends not covered)",
        "Print Assumptions: all theorems closed under the global context (no axioms)"]
    chk.assumptions = [
        "modelled: AutoReloader::acquire_env, EnvironmentGuard, Notifier::{request_reload, should_reload, fast_reload, prepare_and_mark_reload, restore_reload} at lock-acquisition granularity; "
        "threads and operations unbounded in the proofs; fast_reload / callbacks are fixed before the threads start in the enumerated runs",
        "the creator does not touch the reloader except through request_reload (a creator that calls acquire_env self-deadlocks on the cache mutex by construction); the freshness and on-should-reload "
        "callbacks do not call into the notifier (they run with its mutex held: re-entrant calls dead-lock by construction) but are preemptible: every other thread may run, or try to take the mutex, while one is inside",
        "an environment 'reflects a request' iff it was created (creator started) or its templates were cleared after the request's flag-set section completed",
        "panics: the creator and both callbacks may panic (caught by the caller); std::sync::Mutex poisoning is modelled for both mutexes (lock().unwrap() on a poisoned mutex panics: "
        "such an operation hands out nothing / does not return); a panic while a guard is held by the caller's own code is not exercised",
        "file-change notifications run the same two lock sections as request_reload (with_fs_watcher callback) and are represented by it"]
    ok_models, blog = build_models("C20")
    proofs_ok = chk.run_proofs()
    okr, clog = build_c20(True)
    okd, clog2 = build_c20(False)
    if not (okr and okd):
        chk.violation("harness does not build against the current repo tree (hook H3 present?)",
                      {"theorem_or_correspondence": "build of harness/src/bin/c20.rs with feature hooks", "log": (clog + clog2)[-1500:]}, True)
        chk.finish()
    if not ok_models:
        chk.violation("model build failed", {"theorem_or_correspondence": "coq/theories/C20/Model.v build", "log": blog[-1500:]}, True)
        chk.finish()
    model = os.path.join(vlib.EXTRACT, "C20", "mjmodel")
    chk.notes["build_s"] = round(time.time() - chk.t0, 1)
    ncpu = os.cpu_count() or 4
    tmo = 3000 if chk.thorough else 900
    jobs = []
    meta = []
    case = None
    if chk.replay:
        rp = json.load(open(chk.replay))
        case = rp.get("replay", {}).get("case")   # replays without a schedule (build / proof problems): run the whole check again
    fs_only = None
    if case and case[0] == "fs":
        fs_only = [int(case[1]), int(case[2])]
    fs = fs_leg(chk, model, fs_only) if (fs_only or not case) else {"results": [], "violations": [], "note": None}
    chk.notes["fs_leg_s"] = round(time.time() - chk.t0 - chk.notes["build_s"], 1)
    if fs_only:
        exj, saj = [], []
    elif case:
        for rel in (True, False):
            # the schedule itself, then 3000 seeded random schedules of the same configuration
            i = 5 + case[4]
            nth = case[i]
            i += 1
            for _ in range(nth):
                i += 1 + case[i]
            jobs.append([bin_path("c20", rel), model, [case, [2] + case[1:i] + [0, 3000, chk.rng.next() % (1 << 62)]], tmo])
            meta.append(("replay", "release" if rel else "debug"))
        exj, saj = [], []
    else:
        exj, saj = jobs_for(chk)
        relb, dbgb = bin_path("c20", True), bin_path("c20", False)
        batch = []

        batch_label = [None]

        def flush(label, prof):
            nonlocal batch
            if batch:
                jobs.append([relb if prof == "release" else dbgb, model, batch, tmo])
                meta.append((batch_label[0] or label, prof))
                batch = []
            batch_label[0] = None
        for prof in ("release", "debug"):
            for (label, cfg, parts) in exj:
                if prof == "debug" and (label != "small" or ((cfg[2] == 1 or cfg[1] in (1, 2)) and not chk.thorough)):
                    continue
                base = cfg_ints(*cfg)
                if parts == 1:
                    if batch and batch_label[0] != label:
                        flush(label, prof)
                    batch_label[0] = label
                    batch.append([1] + base + [0, 10 ** 9, 0, 1, 0])
                    if len(batch) >= 24:
                        flush(label, prof)
                else:
                    flush(label, prof)
                    for j in range(parts):
                        jobs.append([relb, model, [[1] + base + [0, 10 ** 9, 8, parts, j]], tmo])
                        meta.append((label, prof))
            flush("small", prof)
        for (label, cfg, n, seed) in saj:
            batch_label[0] = label
            batch.append([2] + cfg_ints(*cfg) + [0, n, seed])
            if len(batch) >= 2:
                flush(label, "release")
        flush("3+3 sampled", "release")
    # wall-clock budget of the enumeration (the schedules not reached are reported as truncated enumerations, never as a
    # pass of an exhaustive claim and never as a violation): most valuable suites first
    budget = 1500 if chk.thorough else 95
    deadline = None if case else time.time() + budget
    weight = {"small": 4, "2+2": 3, "3+3 sampled": 2, "3+3": 1, "replay": 5}
    order = sorted(range(len(jobs)), key=lambda i: (-weight.get(meta[i][0], 1), 0 if meta[i][1] == "release" else 1))
    for j in jobs:
        j[3] = (budget + 300) if not case else j[3]
        j.append(deadline)
    results = [None] * len(jobs)
    import multiprocessing
    q = multiprocessing.Queue()
    try:
        cpus = sorted(os.sched_getaffinity(0))
    except Exception:
        cpus = list(range(ncpu))
    ncpu = max(1, len(cpus))
    for c in cpus:
        q.put(c)
    with concurrent.futures.ProcessPoolExecutor(max_workers=ncpu, initializer=_init_worker, initargs=(q,)) as ex:
        futs = {ex.submit(work, tuple(jobs[i])): i for i in order}
        for f in concurrent.futures.as_completed(futs):
            results[futs[f]] = f.result()
    # A watchdog / time-out report may be a starved process on a loaded machine rather than a dead-lock: the input of
    # such a job is run again ALONE (nothing else of this check is running now, not pinned to a cpu), with a 60 s
    # watchdog (still scaled by the load) and a 60 s budget, up to 3 times.  A dead-lock introduced by a change
    # reproduces every time.  (At most 6 jobs are repeated: more broken jobs than that is not starvation.)
    retries = 0
    confirmed = False
    first_reports = []
    nbroken = sum(1 for r in results if r is not None and r["broken"])
    for i in range(len(jobs)):
        if results[i] is not None and results[i]["broken"]:
            first = results[i]["broken"]
            first_reports.append(str(first)[:300])
            if nbroken > 6 or confirmed:
                continue
            for attempt in range(3):
                retries += 1
                r = work(tuple(jobs[i][:4]), watchdog_s=30, deadline=time.time() + 60)
                if not r["broken"]:
                    r["hist"]["job repeated alone after a watchdog / time-out report (starved, not dead-locked)"] += 1
                    results[i] = r
                    break
                results[i] = r
                results[i]["broken"]["first_report"] = first
                results[i]["broken"]["attempts_alone"] = attempt + 1
            if results[i]["broken"]:
                confirmed = True   # reproduces every time: a real dead-lock / crash; no need to repeat the other reports
    if first_reports:
        chk.cov["watchdog_first_reports"] = first_reports[:5]
    chk.cov["watchdog_retries"] = retries
    chk.notes["schedules_s"] = round(time.time() - chk.t0 - chk.notes["build_s"], 1)
    # ---- aggregate -------------------------------------------------------------------------
    hist = collections.Counter()
    by_label = collections.Counter()
    distinct, nontriv = set(), set()
    viol, mism, incons, broken, samples, kern = [], [], [], [], [], []
    runs = 0
    truncated = 0
    ex_runs = 0
    for (label, prof), r in zip(meta, results):
        runs += r["runs"]
        by_label["%s (%s build)" % (label, prof)] += r["runs"]
        if not label.endswith("sampled") and label != "replay":
            ex_runs += r["runs"]
        hist.update(r["hist"])
        distinct |= r["distinct"]
        nontriv |= r["nontrivial"]
        truncated += r["truncated"]
        viol += r["viol"]
        mism += r["mismatch"]
        incons += r["incons"]
        kern += r["kernel"]
        if r["broken"]:
            broken.append(r["broken"])
        if len(samples) < 40:
            samples += r["samples"][:1]
    chk.cov["evaluations"] = runs + len(fs["results"])
    chk.cov["fs_leg"] = {"what": "real inotify watcher (feature watch-fs): one kind of change per case, then acquire_env polled until the change is visible",
                         "cases": fs["results"], "note": fs["note"]}
    chk.cov["distinct_nontrivial"] = len(nontriv)
    chk.cov["distinct_traces"] = len(distinct)
    chk.cov["rule"] = ("every maximal schedule (at lock-acquisition granularity, user callbacks preemptible with the notifier mutex held, incl. speculative lock attempts of one other thread during a callback) of each listed thread configuration is executed on the real AutoReloader "
                       "(stateless DFS over the enabled threads at each step) for: all 1+1/1+2/2+1/1+3 layouts x fast reload x 4 freshness-callback modes x on_should_reload callback x 8 creator scripts "
                       "(release and debug build), all 2 request + 2 acquire layouts x fast reload x freshness modes x 5 creator scripts; 3 requests + 3 acquires: "
                       + ("exhaustively for the 2- and 3-thread layouts and the 4-thread layout, seeded random schedules for the 6-thread layouts" if chk.thorough else "seeded random schedules")
                       + ". The enumeration has a wall-clock budget (quick 95 s, thorough 1500 s; suites in the order small, 2+2, sampled, 3+3): configurations not finished by then are "
                       "counted under truncated_enumerations and exhaustive_part.complete is false - on an idle 16-core box the budget is not reached. A watchdog / time-out report of a job is "
                       "repeated alone up to 3 times before it counts (watchdog_retries). distinct = distinct (configuration, event trace); non-trivial = distinct trace in which at least one request's flag-set takes effect while another "
                       "operation holds the cache mutex or inside the running creator, or a thread goes to sleep on the notifier mutex while another one is inside a callback (i.e. not a sequential history)")
    chk.cov["exhaustive"] = False
    chk.cov["exhaustive_part"] = {"runs": ex_runs, "truncated_enumerations": truncated,
                                  "complete": truncated == 0 and not broken, "what": "all schedules of every configuration labelled small / 2+2" + (" / 3+3" if chk.thorough else "")}
    chk.cov["runs_by_suite"] = dict(by_label)
    chk.cov["distribution"] = dict(hist)
    pick = [samples[i] for i in sorted(set([0, len(samples) // 3, len(samples) // 2, len(samples) - 1])) if 0 <= i < len(samples)]
    chk.cov["samples"] = [readable(s) for s in pick]
    chk.cov["impl_vs_model_disagreements"] = len(mism)
    chk.cov["spec_violations_on_impl_traces"] = len(viol)
    # kernel cross-check of the extraction on a sample of traces
    kern = kern[:40]
    kok = None
    if kern and not case:
        k1 = kernel_eval("run", [k[0] for k in kern], "k_C20_run", imports="Common.Base C20.Runner")
        k2 = kernel_eval("spec", [k[0] for k in kern], "k_C20_spec", imports="Common.Base C20.Runner")
        kok = k1 is not None and k2 is not None and all(k1[i] == kern[i][1] and k2[i] == kern[i][2] for i in range(len(kern)))
        chk.cov["kernel_crosscheck"] = {"cases": len(kern), "agree": bool(kok)}
    # ---- verdicts --------------------------------------------------------------------------
    for (what, replay, nfi) in fs["violations"]:
        chk.violation(what, replay, nfi)
    for b in broken[:3]:
        chk.violation("scheduler harness broken (hang, deadlock or crash) - not a pass", {"theorem_or_correspondence": "harness c20 watchdog", "detail": b}, True)
    seen = set()
    viol.sort(key=lambda v: (len(v["events"]), len(v["case"]), v["case"]))
    for v in viol:
        what = "; ".join(sorted(set([x.split(":")[0] for x in v["direct"]] + v["spec"])))
        if what in seen:
            continue
        seen.add(what)
        chk.violation(what + " violated by the real AutoReloader",
                      {"case": v["case"], "describe": readable(v), "direct_evaluation": v["direct"], "coq_spec_clauses_violated": v["spec"],
                       "how": "./check C20 --replay <this file>"})
    if not viol and not broken:
        if mism:
            m = mism[0]
            chk.violation("observed trace is not a run of the model", {"theorem_or_correspondence": "correspondence C20.Runner.run vs harness c20",
                          "case": m["case"], "describe": readable(m), "model": m["model"], "loads": m["loads"], "oncb_calls": m["oncb_calls"]}, True)
        if incons:
            chk.violation("direct evaluation and extracted spec disagree", {"theorem_or_correspondence": "C20.Spec vs tools/props/C20.py direct_check", "detail": incons[0]}, True)
        if kok is False:
            chk.violation("kernel evaluation disagrees with extracted model", {"theorem_or_correspondence": "vm_compute cross-check of extraction"}, True)
        if not proofs_ok:
            chk.violation("proof obligations of C20 do not check", {"theorem_or_correspondence": chk.proof["problems"]}, True)
        if runs == 0 and not fs_only:
            chk.violation("no schedule was executed", {"theorem_or_correspondence": "harness c20 produced no runs"}, True)
    chk.finish()


if __name__ == "__main__":
    main()
