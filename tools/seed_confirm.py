#!/usr/bin/env python3
"""Confirms a seeded property-breaking change and records it under /verif/seeded/<id>-<tag>/.

usage: seed_confirm.py <PROP_ID> <tag> <patch.diff> <demo.rs> <notes.md> [--checks C01,C05,...]

Steps (all in a scratch worktree of /repo under /tmp/seedchk, removed afterwards):
  1. the patch applies and the touched crates' test suites pass with it (unedited);
  2. the demonstration test fails with the patch and passes without it;
  3. our check(s) run against the patched worktree (MJ_REPO=...): exit status and VIOLATION lines recorded.
"""
import json, os, re, shutil, subprocess, sys, hashlib, time

ROOT = os.path.dirname(os.path.dirname(os.path.abspath(__file__)))


def sh(cmd, cwd=None, timeout=3600, env=None):
    p = subprocess.run(cmd, cwd=cwd, shell=isinstance(cmd, str), capture_output=True, text=True, timeout=timeout, env=env)
    return p.returncode, p.stdout + p.stderr


def main():
    pid, tag, patch, demo, notes = sys.argv[1:6]
    checks = [pid]
    if "--checks" in sys.argv:
        checks = sys.argv[sys.argv.index("--checks") + 1].split(",")
    wt = "/tmp/seedchk/%s-%s" % (pid, tag)
    os.makedirs("/tmp/seedchk", exist_ok=True)
    sh(["git", "-C", "/repo", "worktree", "remove", "--force", wt])
    sh(["git", "-C", "/repo", "branch", "-D", "seedchk-%s-%s" % (pid, tag)])
    rc, out = sh(["git", "-C", "/repo", "worktree", "add", wt, "-b", "seedchk-%s-%s" % (pid, tag)])
    meta = {"property": pid, "tag": tag, "confirmed": False, "steps": {}, "repo_head": sh(["git", "-C", "/repo", "rev-parse", "--short", "HEAD"])[1].strip()}
    try:
        rc, out = sh(["git", "apply", "--whitespace=nowarn", os.path.abspath(patch)], cwd=wt)
        if rc != 0:
            # the patch was written against an older main: three-way merge, then keep the merged result as the patch
            rc, out = sh(["git", "apply", "--3way", "--whitespace=nowarn", os.path.abspath(patch)], cwd=wt)
            if rc == 0:
                sh(["git", "reset", "-q"], cwd=wt)
                rc2, merged = sh(["git", "diff"], cwd=wt)
                patch = os.path.join("/tmp/seedchk", "%s-%s.rebased.diff" % (pid, tag))
                open(patch, "w").write(merged)
                meta["steps"]["rebased_by_3way"] = True
        meta["steps"]["apply"] = rc == 0
        if rc != 0:
            meta["steps"]["apply_log"] = out[-800:]
            return finish(meta, pid, tag, patch, demo, notes, wt)
        diff = open(patch).read()
        crates = sorted(set(re.findall(r"^\+\+\+ b/([^/\n]+)/", diff, re.M)))
        crates = [c for c in crates if os.path.isdir(os.path.join(wt, c, "src"))] or ["minijinja"]
        crate = crates[0]
        # the demonstration may belong to another crate than the one the patch edits
        try:
            dsrc = open(demo).read()
            if "minijinja_autoreload" in dsrc and os.path.isdir(os.path.join(wt, "minijinja-autoreload")):
                crate = "minijinja-autoreload"
                if crate not in crates:
                    crates.append(crate)
        except Exception:
            pass
        ok_all = True
        logs = {}
        for c in crates:
            cmd = "cargo test -p %s --offline %s 2>&1" % (c, "--all-features" if c == "minijinja" else "")
            rc, out = sh(cmd, cwd=wt)
            m = re.findall(r"test result: (\w+)\. (\d+) passed; (\d+) failed", out)
            failed = sum(int(x[2]) for x in m)
            passed = sum(int(x[1]) for x in m)
            logs[c] = {"rc": rc, "passed": passed, "failed": failed}
            ok_all = ok_all and rc == 0 and failed == 0
        meta["steps"]["suite_passes_with_patch"] = ok_all
        meta["steps"]["suite"] = logs
        # demo
        tdir = os.path.join(wt, crate, "tests")
        os.makedirs(tdir, exist_ok=True)
        tname = "seeded_demo_%s_%s" % (pid.lower(), tag.lower())
        shutil.copy(demo, os.path.join(tdir, tname + ".rs"))
        feat = "--all-features" if crate == "minijinja" else ""
        rc1, out1 = sh("cargo test -p %s --offline %s --test %s 2>&1" % (crate, feat, tname), cwd=wt)
        meta["steps"]["demo_fails_with_patch"] = rc1 != 0 and ("test result: FAILED" in out1 or "panicked" in out1 or "failed" in out1)
        meta["steps"]["demo_with_patch_tail"] = out1[-600:]
        sh(["git", "apply", "-R", "--whitespace=nowarn", os.path.abspath(patch)], cwd=wt)
        rc2, out2 = sh("cargo test -p %s --offline %s --test %s 2>&1" % (crate, feat, tname), cwd=wt)
        meta["steps"]["demo_passes_without_patch"] = rc2 == 0
        if rc2 != 0:
            meta["steps"]["demo_without_patch_tail"] = out2[-600:]
        os.remove(os.path.join(tdir, tname + ".rs"))
        sh(["git", "apply", "--whitespace=nowarn", os.path.abspath(patch)], cwd=wt)
        shutil.rmtree(os.path.join(wt, "target"), ignore_errors=True)
        meta["confirmed"] = bool(ok_all and meta["steps"]["demo_fails_with_patch"] and meta["steps"]["demo_passes_without_patch"])
        # our checks
        env = dict(os.environ)
        env["MJ_REPO"] = wt
        res = {}
        for c in checks:
            t0 = time.time()
            rc, out = sh(["./check", c], cwd=ROOT, env=env, timeout=5400)
            viol = [l for l in out.split("\n") if l.startswith("VIOLATION")]
            rep = []
            for l in viol[:3]:
                m = re.search(r"replay=(\S+)", l)
                if m and os.path.exists(os.path.join(ROOT, m.group(1))):
                    try:
                        r = json.load(open(os.path.join(ROOT, m.group(1))))
                        rep.append({"what": r.get("what"), "replay": json.dumps(r.get("replay"))[:600], "no_failing_input_found": r.get("no_failing_input_found")})
                    except Exception:
                        pass
            res[c] = {"exit": rc, "violations": len(viol), "lines": viol[:5], "replays": rep, "wall_s": round(time.time() - t0, 1)}
        meta["checks"] = res
        meta["caught_by"] = sorted(c for c, r in res.items() if r["exit"] != 0 and r["violations"] > 0)
    finally:
        return finish(meta, pid, tag, patch, demo, notes, wt)


def finish(meta, pid, tag, patch, demo, notes, wt):
    d = os.path.join(ROOT, "seeded", "%s-%s" % (pid, tag))
    os.makedirs(d, exist_ok=True)
    # keep the record's history across re-confirmations
    try:
        prev = json.load(open(os.path.join(d, "meta.json")))
    except Exception:
        prev = {}
    runs = prev.get("runs", [])
    if not runs and prev.get("confirmed") is not None and "checks" in prev:
        runs.append({"repo_head": prev.get("repo_head"), "caught_by": prev.get("caught_by")})
    runs.append({"repo_head": meta.get("repo_head"), "caught_by": meta.get("caught_by"), "when": time.strftime("%Y-%m-%d %H:%M")})
    meta["runs"] = runs
    first = next((r for r in runs if r.get("caught_by") is not None), None)
    if prev.get("history") and prev["history"].startswith("missed"):
        meta["history"] = prev["history"]
    elif first is not None and not first["caught_by"] and meta.get("caught_by"):
        meta["history"] = "missed at first; caught after the check was strengthened (see tools/manifest/%s.json)" % pid
    elif first is not None and first["caught_by"]:
        meta["history"] = "caught at first run"
    elif meta.get("caught_by") == []:
        meta["history"] = "not caught yet"
    shutil.copy(patch, os.path.join(d, "patch.diff"))
    shutil.copy(demo, os.path.join(d, "demo.rs"))
    if os.path.exists(notes):
        shutil.copy(notes, os.path.join(d, "notes.md"))
        meta["needs_to_manifest"] = open(notes).read()[:1500]
    json.dump(meta, open(os.path.join(d, "meta.json"), "w"), indent=1)
    subprocess.run(["git", "-C", "/repo", "worktree", "remove", "--force", wt], capture_output=True)
    subprocess.run(["git", "-C", "/repo", "branch", "-D", "seedchk-%s-%s" % (pid, tag)], capture_output=True)
    h = hashlib.sha256(wt.encode()).hexdigest()[:8]
    for p in ("target-" + h, "harness-" + h):
        shutil.rmtree(os.path.join(ROOT, ".cache", p), ignore_errors=True)
    print(json.dumps({k: meta.get(k) for k in ("property", "tag", "confirmed", "caught_by")}), {c: (r["exit"], r["violations"]) for c, r in meta.get("checks", {}).items()})
    return 0


if __name__ == "__main__":
    main()
