#!/usr/bin/env python3
"""MANIFEST.setup_cmd: builds the whole framework offline from files on disk."""
import json, os, sys
sys.path.insert(0, os.path.dirname(os.path.abspath(__file__)))
from vlib import *

def main():
    integrated = set(json.load(open(os.path.join(ROOT, "tools", "manifest", "_integrated.json"))))
    ok, out = coq_make()          # full .vo build of every theory (proofs included); -k: keeps going
    if not ok:
        # a broken proof must not prevent the models (and the other properties) from building
        log("coq make reported errors:\n" + out[-3000:])
    rc = 0
    for pid in sorted(integrated):
        if not os.path.exists(os.path.join(COQ, "theories", pid, "Runner.v")):
            continue
        ok2, out2 = build_models(pid)
        if not ok2:
            log("model/extraction build failed for %s:\n" % pid + out2[-3000:])
            rc = 1
    bins = sorted(f[:-3] for f in os.listdir(os.path.join(ROOT, "harness", "src", "bin")) if f.endswith(".rs"))
    mine = [b for b in bins if b == "prog" or b.split("_")[0].upper() in integrated]
    for rel in (False, True):
        okc, outc = cargo_build(mine, release=rel, features=("hooks",))
        if not okc:
            # retry one by one so that a single broken bin does not hide the others
            for b in mine:
                okb, outb = cargo_build([b], release=rel, features=("hooks",))
                if not okb:
                    log("cargo build failed for %s:\n" % b + outb[-2000:])
                    rc = 1
    return rc

if __name__ == "__main__":
    sys.exit(main())
