#!/usr/bin/env python3
"""MANIFEST.setup_cmd: builds the whole framework offline from files on disk."""
import os, sys
sys.path.insert(0, os.path.dirname(os.path.abspath(__file__)))
from vlib import *

def main():
    ok, out = coq_make()          # full .vo build of every theory (proofs included)
    if not ok:
        # a broken proof must not prevent the models (and the other properties) from building
        log("coq make reported errors:\n" + out[-3000:])
    rc = 0
    for pid in sorted(d for d in os.listdir(os.path.join(COQ, "theories")) if os.path.exists(os.path.join(COQ, "theories", d, "Runner.v"))):
        ok2, out2 = build_models(pid)
        if not ok2:
            log("model/extraction build failed for %s:\n" % pid + out2[-3000:])
            rc = 1
    bins = sorted(f[:-3] for f in os.listdir(os.path.join(ROOT, "harness", "src", "bin")) if f.endswith(".rs"))
    for rel in (False, True):
        okc, outc = cargo_build(bins, release=rel)
        if not okc:
            log("cargo build failed:\n" + outc[-3000:])
            return 1
    return rc

if __name__ == "__main__":
    sys.exit(main())
