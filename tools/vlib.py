#!/usr/bin/env python3
"""Shared machinery of the /verif checks.

A check of property <ID> (tools/props/<ID>.py) does, in this order:
  1. build everything from the current /repo and /verif trees (incremental);
  2. proof audit: forbidden-construct grep over coq/, forced recompilation of
     coq/theories/Props/<ID>.v, Print Assumptions against tools/axiom_allowlist.txt;
  3. correspondence: same cases through the implementation (Rust harness bins linked
     against /repo) and through the Coq model (extracted to OCaml; a sample is
     re-evaluated by the Coq kernel with vm_compute and must agree with the extraction);
  4. on any disagreement or broken proof: failing-input search with the *specification*
     evaluated on the implementation's behaviour;
  5. evidence/<ID>.json, VIOLATION / KNOWN-FINDING lines, exit status.
"""
import fcntl
import hashlib
import json
import os
import re
import subprocess
import sys
import time

ROOT = os.path.dirname(os.path.dirname(os.path.abspath(__file__)))
CACHE = os.path.join(ROOT, ".cache")
COQ = os.path.join(ROOT, "coq")
# MJ_REPO=<worktree> lets a developer run the checks against a scratch worktree of /repo
# (own cargo target dir, own copy of the harness manifest).  Registered commands never set it.
REPO = os.environ.get("MJ_REPO", "/repo")
_TAG = "" if REPO == "/repo" else "-" + hashlib.sha256(REPO.encode()).hexdigest()[:8]
TARGET = os.path.join(CACHE, "target" + _TAG)
EXTRACT = os.path.join(CACHE, "extract")
HOOK_FEATURE = "verif_hooks"

ENV = dict(os.environ)
ENV.update({"CARGO_NET_OFFLINE": "true", "CARGO_TARGET_DIR": TARGET, "GOPROXY": "off", "PIP_NO_INDEX": "1"})

ERR_NAMES = {1: "NonPrimitive", 2: "NonKey", 3: "InvalidOperation", 4: "SyntaxError", 5: "TemplateNotFound",
             6: "TooManyArguments", 7: "MissingArgument", 8: "UnknownFilter", 9: "UnknownTest",
             10: "UnknownFunction", 11: "UnknownMethod", 12: "BadEscape", 13: "UndefinedError",
             14: "BadSerialization", 15: "CannotDeserialize", 16: "BadInclude", 17: "EvalBlock",
             18: "CannotUnpack", 19: "WriteFailure", 20: "UnknownBlock", 21: "OutOfFuel", 22: "InvalidDelimiter"}


def log(*a):
    print(*a, file=sys.stderr, flush=True)


def sh(cmd, timeout=1800, cwd=None, env=None, inp=None):
    """Runs a command; returns (returncode, stdout, stderr). Never raises on failure."""
    try:
        p = subprocess.run(cmd, cwd=cwd, env=env or ENV, input=inp, capture_output=True, text=True,
                           timeout=timeout, shell=isinstance(cmd, str))
        return p.returncode, p.stdout, p.stderr
    except subprocess.TimeoutExpired as e:
        return 124, (e.stdout or b"").decode("utf8", "replace") if isinstance(e.stdout, bytes) else (e.stdout or ""), "timeout"


class SplitMix:
    """The one PRNG every random choice derives from (same algorithm as harness/src/lib.rs)."""
    M = (1 << 64) - 1

    def __init__(self, seed):
        self.s = seed & self.M

    def next(self):
        self.s = (self.s + 0x9E3779B97F4A7C15) & self.M
        z = self.s
        z = ((z ^ (z >> 30)) * 0xBF58476D1CE4E5B9) & self.M
        z = ((z ^ (z >> 27)) * 0x94D049BB133111EB) & self.M
        return z ^ (z >> 31)

    def below(self, n):
        return self.next() % max(1, n)

    def choice(self, xs):
        return xs[self.below(len(xs))]

    def chance(self, num, den):
        return self.below(den) < num


# ----------------------------------------------------------------------------------------
# building
# ----------------------------------------------------------------------------------------
class Lock:
    def __init__(self, name):
        os.makedirs(CACHE, exist_ok=True)
        self.path = os.path.join(CACHE, name + ".lock")

    def __enter__(self):
        self.f = open(self.path, "w")
        fcntl.flock(self.f, fcntl.LOCK_EX)

    def __exit__(self, *a):
        fcntl.flock(self.f, fcntl.LOCK_UN)
        self.f.close()


def coq_files():
    out = []
    for d, _, fs in os.walk(os.path.join(COQ, "theories")):
        for f in fs:
            if f.endswith(".v"):
                out.append(os.path.relpath(os.path.join(d, f), COQ))
    return sorted(out)


def coq_prepare():
    """(Re)generates _CoqProject and the Makefile when the set of .v files changed."""
    files = coq_files()
    proj = "-Q theories MJ\n" + "\n".join(files) + "\n"
    pp = os.path.join(COQ, "_CoqProject")
    old = open(pp).read() if os.path.exists(pp) else ""
    if old != proj or not os.path.exists(os.path.join(COQ, "Makefile")):
        open(pp, "w").write(proj)
        rc, o, e = sh(["coq_makefile", "-f", "_CoqProject", "-o", "Makefile"], cwd=COQ)
        if rc != 0:
            raise RuntimeError("coq_makefile failed: " + e)


def coq_make(targets=None, timeout=3000, before=None):
    """make (full .vo build, never -vos).  Returns (ok, output).  `before` runs inside the build lock
    (prove() removes the compiled property file there, so that two concurrent runs of one check cannot
    interleave 'remove, remove, make, make' and leave the second make with nothing to print)."""
    with Lock("coq"):
        coq_prepare()
        if before is not None:
            before()
        cmd = ["make", "-j16", "-k"] + (targets or [])
        rc, o, e = sh(cmd, cwd=COQ, timeout=timeout)
        return rc == 0, o + e


def runner_module(prop_id):
    return "theories/%s/Runner" % prop_id


def build_models(prop_id):
    """Builds theories/<ID>/Runner.v (which imports only model/spec files - no proofs - so it keeps
    working when a proof is broken), extracts `runners` to OCaml and links it with
    extract/driver.ml into .cache/extract/<ID>/mjmodel.  Returns (ok, log)."""
    ok, out = coq_make([runner_module(prop_id) + ".vo"])
    if not ok:
        return False, out
    d = os.path.join(EXTRACT, prop_id)
    with Lock("extract-" + prop_id):
        os.makedirs(d, exist_ok=True)
        vo = os.path.join(COQ, runner_module(prop_id) + ".vo")
        drv = os.path.join(ROOT, "extract", "driver.ml")
        stamp = hashlib.sha256(open(vo, "rb").read() + open(drv, "rb").read()).hexdigest()
        sp = os.path.join(d, "stamp")
        binp = os.path.join(d, "mjmodel")
        if os.path.exists(binp) and os.path.exists(sp) and open(sp).read() == stamp:
            return True, out
        ex = ("(* generated by tools/vlib.py.  Extraction directives: ExtrOcamlBasic + ExtrOcamlString only. *)\n"
              "From Coq Require Import Extraction ExtrOcamlBasic ExtrOcamlString.\n"
              "From MJ Require %s.Runner.\nExtraction Language OCaml.\n"
              "Extraction \"mjmodel_ex.ml\" %s.Runner.runners.\n") % (prop_id, prop_id)
        open(os.path.join(d, "Extract_%s.v" % prop_id), "w").write(ex)
        rc, o, e = sh(["coqc", "-noglob", "-Q", os.path.join(COQ, "theories"), "MJ", "Extract_%s.v" % prop_id], cwd=d, timeout=900)
        if rc != 0:
            return False, o + e
        sh(["cp", drv, d])
        rc, o, e = sh("ocamlfind ocamlopt -package zarith -linkpkg -O2 -w -a mjmodel_ex.mli mjmodel_ex.ml driver.ml -o mjmodel",
                      cwd=d, timeout=900)
        if rc != 0:
            return False, o + e
        open(sp, "w").write(stamp)
    return True, out


def harness_dir():
    """The harness crate; with MJ_REPO set, a shadow copy whose path dependencies point there."""
    h = os.path.join(ROOT, "harness")
    if REPO == "/repo":
        return h
    sh_dir = os.path.join(CACHE, "harness" + _TAG)
    os.makedirs(sh_dir, exist_ok=True)
    toml = open(os.path.join(h, "Cargo.toml")).read().replace('"/repo/', '"%s/' % REPO)
    # a scratch worktree may predate a hook commit: do not forward features it does not declare
    for crate in ("minijinja", "minijinja-autoreload"):
        try:
            has = "verif_hooks" in open(os.path.join(REPO, crate, "Cargo.toml")).read()
        except OSError:
            has = False
        if not has:
            toml = toml.replace('"%s/verif_hooks", ' % crate, "").replace(', "%s/verif_hooks"' % crate, "").replace('"%s/verif_hooks"' % crate, "")
    tp = os.path.join(sh_dir, "Cargo.toml")
    if not os.path.exists(tp) or open(tp).read() != toml:
        open(tp, "w").write(toml)
    link = os.path.join(sh_dir, "src")
    if not os.path.islink(link):
        os.symlink(os.path.join(h, "src"), link)
    return sh_dir


def cargo_build(bins, release=False, features=(), timeout=3000):
    """Builds harness bins against the current /repo tree.  Returns (ok, log)."""
    h = harness_dir()
    with Lock("cargo" + _TAG):
        lock_src = os.path.join(REPO, "Cargo.lock")
        lock_dst = os.path.join(h, "Cargo.lock")
        if not os.path.exists(lock_dst):
            sh(["cp", lock_src, lock_dst])
        cmd = ["cargo", "build", "--offline", "--quiet"]
        if release:
            cmd.append("--release")
        for b in bins:
            cmd += ["--bin", b]
        # always build with the hooks feature: one feature set for every check avoids rebuilding the
        # engine whenever two checks alternate (harness_dir() drops what a scratch worktree lacks)
        features = tuple(sorted(set(features) | {"hooks"}))
        cmd += ["--features", ",".join(features)]
        rc, o, e = sh(cmd, cwd=h, timeout=timeout)
        if rc != 0 and "Cargo.lock" in e:
            sh(["cp", lock_src, lock_dst])
            rc, o, e = sh(cmd, cwd=h, timeout=timeout)
        return rc == 0, o + e


def bin_path(name, release=False):
    return os.path.join(TARGET, "release" if release else "debug", name)


# ----------------------------------------------------------------------------------------
# running implementation and model
# ----------------------------------------------------------------------------------------
def fmt_case(c):
    return " ".join(str(x) for x in c)


def parse_line(l):
    out = []
    for t in l.split():
        try:
            out.append(int(t))
        except ValueError:
            out.append(t)
    return out


def run_lines(cmd, cases, timeout=1800, env=None, chunk=None):
    """Feeds cases (lists of ints) to a line-protocol process; returns list of outputs (lists).
    If the process dies (abort, stack overflow), the case it died on gets ['CRASH', rc] and the
    rest is re-run in a fresh process."""
    results = []
    i = 0
    n = len(cases)
    while i < n:
        batch = cases[i:] if chunk is None else cases[i:i + chunk]
        inp = "\n".join(fmt_case(c) for c in batch) + "\n"
        rc, o, e = sh(cmd, inp=inp, timeout=timeout, env=env)
        lines = o.split("\n")
        if lines and lines[-1] == "":
            lines.pop()
        got = [parse_line(l) for l in lines[:len(batch)]]
        results.extend(got)
        i += len(got)
        if len(got) < len(batch):
            # process died or timed out on case i
            results.append(["CRASH", rc, (e or "")[-300:]])
            i += 1
    return results


def run_json(cmd, reqs, timeout=1800, env=None, chunk=400):
    """chunked front-end of run_json_once (a crash only costs the rest of one chunk)"""
    out = []
    for i in range(0, len(reqs), chunk):
        out.extend(run_json_once(cmd, reqs[i:i + chunk], timeout=timeout, env=env))
    return out


def run_json_once(cmd, reqs, timeout=1800, env=None):
    """JSON-lines protocol (harness bin `prog`): one request object per line, one response per line.
    A request on which the process dies or hangs (the bin prints {"hang":true} and exits) gets
    {"crash": rc} / {"hang": true}; the remaining requests are re-run in a fresh process."""
    results = []
    i = 0
    n = len(reqs)
    while i < n:
        inp = "\n".join(json.dumps(r) for r in reqs[i:]) + "\n"
        rc, o, e = sh(cmd, inp=inp, timeout=timeout, env=env)
        lines = [l for l in o.split("\n") if l.strip()]
        got = []
        for l in lines[: n - i]:
            try:
                got.append(json.loads(l))
            except Exception:
                got.append({"garbled": l[:200]})
        results.extend(got)
        i += len(got)
        if got and isinstance(got[-1], dict) and got[-1].get("hang"):
            continue
        if i < n and len(got) < n - (i - len(got)):
            results.append({"crash": rc, "stderr": (e or "")[-300:]})
            i += 1
    return results


def run_prog(reqs, release=False, watchdog_ms=10000, **kw):
    """Every request that the harness reports as hung gets a second chance: alone in a fresh process with a
    watchdog eight times as long (at least 30 s).  A render that really does not terminate hangs again; a
    render that was only starved on a loaded machine answers, and that answer is used - so a busy box cannot
    turn into an alarm.  (C01 has its own second-chance logic and passes second_chance=False.)"""
    second = kw.pop("second_chance", True)
    env = dict(ENV)
    env["MJVERIF_WATCHDOG_MS"] = str(watchdog_ms)
    res = run_json([bin_path("prog", release)], reqs, env=env, **kw)
    if second:
        hung = [i for i, r in enumerate(res) if isinstance(r, dict) and r.get("hang")][:40]
        if hung:
            env2 = dict(ENV)
            env2["MJVERIF_WATCHDOG_MS"] = str(max(30000, 8 * watchdog_ms))
            for i in hung:
                r2 = run_json_once([bin_path("prog", release)], [reqs[i]], env=env2)
                if r2 and isinstance(r2[0], dict) and not r2[0].get("hang") and "crash" not in r2[0]:
                    res[i] = r2[0]
    return res


def run_impl(binname, cases, release=False, **kw):
    return run_lines([bin_path(binname, release)], cases, **kw)


def run_model(prop_id, runner, cases, **kw):
    return run_lines([os.path.join(EXTRACT, prop_id, "mjmodel"), runner], cases, **kw)


def coq_term(c):
    return "[" + "; ".join(("(%d)" % x) if x < 0 else str(x) for x in c) + "]"


def kernel_eval(expr_prefix, cases, name, imports="Common.Base", timeout=600):
    """Evaluates `map <expr_prefix> cases` inside Coq with vm_compute.  Returns list of int lists,
    or None when coqc failed."""
    d = os.path.join(CACHE, "cases")
    os.makedirs(d, exist_ok=True)
    vf = os.path.join(d, name + ".v")
    body = ("From MJ Require Import %s.\nSet Printing Depth 100000000.\nSet Printing Width 200.\n"
            "Eval vm_compute in map %s [%s].\n") % (imports, expr_prefix, ";\n ".join(coq_term(c) for c in cases))
    open(vf, "w").write(body)
    rc, o, e = sh(["coqc", "-noglob", "-Q", os.path.join(COQ, "theories"), "MJ", vf], timeout=timeout, cwd=d)
    if rc != 0:
        log("kernel_eval failed:", (o + e)[-2000:])
        return None
    txt = " ".join(o.split("\n"))
    m = re.search(r"=\s*(\[.*\])\s*:\s*list", txt)
    if not m:
        return None
    js = m.group(1).replace(";", ",")
    try:
        return json.loads(js)
    except Exception as ex:
        log("kernel_eval parse error", ex)
        return None


# ----------------------------------------------------------------------------------------
# proof audit
# ----------------------------------------------------------------------------------------
FORBIDDEN = [r"\bAdmitted\b", r"\badmit\b", r"\bAxiom\b", r"\bAxioms\b", r"\bParameter\b", r"\bParameters\b",
             r"\bConjecture\b", r"Unset\s+Guard", r"bypass_check", r"type-in-type", r"impredicative-set",
             r"Admit\s+Obligations", r"Unset\s+Universe\s+Checking", r"Unset\s+Positivity"]


def strip_comments(src):
    out = []
    depth = 0
    i = 0
    while i < len(src):
        if src.startswith("(*", i):
            depth += 1
            i += 2
        elif src.startswith("*)", i) and depth > 0:
            depth -= 1
            i += 2
        else:
            if depth == 0:
                out.append(src[i])
            elif src[i] == "\n":
                out.append("\n")
            i += 1
    return "".join(out)


def coq_closure(prop_id):
    """The .v files Props/<ID>.v transitively depends on (MJ.* imports), plus everything in the
    property's own directory and in Common/ and Lang/."""
    root = os.path.join(COQ, "theories")
    todo = ["Props/%s.v" % prop_id]
    seen = set()
    while todo:
        f = todo.pop()
        if f in seen or not os.path.exists(os.path.join(root, f)):
            continue
        seen.add(f)
        src = strip_comments(open(os.path.join(root, f)).read())
        # `From MJ Require [Import|Export] A.B C.D.` / `Require Import MJ.A.B.`: the statement ends at a
        # dot followed by white space; module names contain dots that are not
        for m in re.finditer(r"(From\s+MJ\s+)?Require\s+(?:Import\s+|Export\s+)?(.*?)\.(?=\s|$)", src, re.S):
            for mod in m.group(2).split():
                mod = mod.strip()
                if mod.startswith("MJ."):
                    mod = mod[3:]
                elif not m.group(1):
                    continue
                cand = mod.replace(".", "/") + ".v"
                if os.path.exists(os.path.join(root, cand)):
                    todo.append(cand)
    for d in (prop_id, "Common", "Lang"):
        dd = os.path.join(root, d)
        if os.path.isdir(dd):
            for f in os.listdir(dd):
                if f.endswith(".v"):
                    seen.add(d + "/" + f)
    return sorted("theories/" + f for f in seen)


def audit_sources(prop_id=None):
    """Forbidden constructs in the development the property depends on (all files when prop_id is None);
    Variable/Hypothesis only in Sections."""
    problems = []
    for f in (coq_closure(prop_id) if prop_id else coq_files()):
        src = strip_comments(open(os.path.join(COQ, f)).read())
        # string literals could contain the words; drop them
        src_ns = re.sub(r'"[^"]*"', '""', src)
        for pat in FORBIDDEN:
            for m in re.finditer(pat, src_ns):
                line = src_ns.count("\n", 0, m.start()) + 1
                problems.append("%s:%d: forbidden construct %r" % (f, line, m.group(0)))
        depth = 0
        for ln, line in enumerate(src_ns.split("\n"), 1):
            if re.match(r"\s*Section\b", line):
                depth += 1
            elif re.match(r"\s*End\b", line) and depth > 0:
                depth -= 1  # may also close a Module: harmless (depth only matters for Variable)
            if re.match(r"\s*(Variable|Variables|Hypothesis|Hypotheses|Context)\b", line) and depth == 0:
                problems.append("%s:%d: Variable/Hypothesis outside a Section" % (f, ln))
    for cfg in ("_CoqProject",):
        p = os.path.join(COQ, cfg)
        if os.path.exists(p) and re.search(r"type-in-type|impredicative-set|-vos|-vok", open(p).read()):
            problems.append("forbidden flag in " + cfg)
    return problems


def allowlist():
    p = os.path.join(ROOT, "tools", "axiom_allowlist.txt")
    out = set()
    if os.path.exists(p):
        for l in open(p):
            l = l.split("#")[0].strip()
            if l:
                out.add(l)
    return out


def prove(prop_id):
    """Forced recompilation of Props/<ID>.v (and whatever it depends on that is stale).
    Returns dict(ok, theorems=[{name, assumptions}], problems=[...], log)."""
    res = {"ok": True, "theorems": [], "problems": [], "log": ""}
    res["problems"] += audit_sources(prop_id)
    rel = "theories/Props/%s.vo" % prop_id
    vfile = os.path.join(COQ, "theories", "Props", prop_id + ".v")
    if not os.path.exists(vfile):
        res["ok"] = False
        res["problems"].append("missing " + vfile)
        return res
    def forget():
        for ext in (".vo", ".vos", ".vok", ".glob"):
            try:
                os.remove(os.path.join(COQ, "theories", "Props", prop_id + ext))
            except OSError:
                pass
    ok, out = coq_make([rel], before=forget)
    res["log"] = out[-6000:]
    if not ok:
        res["ok"] = False
        m = re.findall(r'File "([^"]+)", line (\d+)[^\n]*\n(Error[^\n]*(?:\n[^\n]+){0,3})', out)
        for f, ln, msg in m[:5]:
            res["problems"].append("coqc: %s:%s: %s" % (f, ln, msg.replace("\n", " ")[:300]))
        if not m:
            res["problems"].append("coqc failed: " + out[-500:])
        return res
    # theorems named by Print Assumptions, in order
    src = strip_comments(open(vfile).read())
    names = re.findall(r"Print\s+Assumptions\s+([A-Za-z0-9_'.]+)\s*\.", src)
    blocks = []
    cur = None
    for line in out.split("\n"):
        if line.startswith("Closed under the global context"):
            blocks.append([])
            cur = None
        elif line.startswith("Axioms:"):
            cur = []
            blocks.append(cur)
        elif cur is not None:
            # an axiom starts at column 0: `name : type` or, for long types, `name` alone with ` : type` below
            m = re.match(r"^([A-Za-z_][A-Za-z0-9_'.]*)\s*(:|$)", line)
            if m:
                cur.append(m.group(1))
            elif line and not line.startswith(" ") and not line.startswith("\t"):
                cur = None
    if len(blocks) != len(names):
        res["ok"] = False
        res["problems"].append("Print Assumptions output (%d blocks) does not match %d commands" % (len(blocks), len(names)))
    allow = allowlist()
    stated = set(re.findall(r"^\s*(?:Theorem|Lemma|Corollary)\s+([A-Za-z0-9_']+)", src, re.M))
    for n, b in zip(names, blocks):
        bad = [a for a in b if a not in allow]
        res["theorems"].append({"name": n, "assumptions": b})
        if bad:
            res["ok"] = False
            res["problems"].append("theorem %s depends on non-allow-listed axioms %s" % (n, bad))
    for s in stated:
        if s not in names:
            res["ok"] = False
            res["problems"].append("theorem %s has no Print Assumptions" % s)
    if res["problems"]:
        res["ok"] = False
    return res


# ----------------------------------------------------------------------------------------
# check context: evidence, violations, known findings
# ----------------------------------------------------------------------------------------
class Check:
    def __init__(self, prop_id, level, argv=None):
        argv = sys.argv[1:] if argv is None else argv
        self.id = prop_id
        self.level = level
        self.tier = os.environ.get("VERIF_TIER", "quick")
        self.replay = None
        i = 0
        while i < len(argv):
            if argv[i] == "--tier":
                self.tier = argv[i + 1]
                i += 2
            elif argv[i] == "--replay":
                self.replay = argv[i + 1]
                i += 2
            else:
                i += 1
        if self.tier not in ("quick", "thorough"):
            self.tier = "quick"
        try:
            self.seed = int(os.environ.get("VERIF_SEED", "1"))
        except ValueError:
            self.seed = 1
        self.rng = SplitMix(self.seed * 1000003 + int(hashlib.sha256(prop_id.encode()).hexdigest()[:8], 16))
        self.t0 = time.time()
        self.cov = {"evaluations": 0, "distinct_nontrivial": 0, "samples": [], "trusted_base": [], "rule": ""}
        self.assumptions = []
        self.violations = []
        self.known_hits = {}
        self.notes = {}
        kf = os.path.join(ROOT, "known", prop_id + ".json")
        self.known = json.load(open(kf)).get("known", []) if os.path.exists(kf) else []
        self.env_tag = _TAG

    @property
    def thorough(self):
        return self.tier == "thorough"

    # -- violations ---------------------------------------------------------------------
    def violation(self, what, replay, no_failing_input=False):
        """Registers a violation (deduplicated by `what`); the replay file is written at once."""
        key = hashlib.sha256((self.id + json.dumps(replay, sort_keys=True, default=str)).encode()).hexdigest()[:12]
        if any(v["key"] == key for v in self.violations):
            return
        os.makedirs(os.path.join(ROOT, "replays"), exist_ok=True)
        path = os.path.join("replays", "%s-%s.json" % (self.id, key))
        json.dump({"property": self.id, "what": what, "replay": replay, "seed": self.seed, "tier": self.tier,
                   "no_failing_input_found": no_failing_input}, open(os.path.join(ROOT, path), "w"), indent=1, default=str)
        self.violations.append({"key": key, "what": what, "path": path, "nfi": no_failing_input})

    def known_finding(self, finding_id, what):
        self.known_hits[finding_id] = what

    def match_known(self, pred):
        """Returns the first known-findings entry for which pred(entry) holds."""
        for k in self.known:
            try:
                if pred(k):
                    return k
            except Exception:
                pass
        return None

    # -- proof ----------------------------------------------------------------------------
    def run_proofs(self):
        pr = prove(self.id)
        self.proof = pr
        n = len(pr["theorems"])
        self.cov["obligations"] = max(n, 1) if not pr["ok"] else n
        self.cov["discharged"] = n if pr["ok"] else 0
        self.cov["theorems"] = pr["theorems"]
        self.cov["checker_cmd"] = "make -C coq theories/Props/%s.vo (coqc 8.16.1, full .vo build, forced recompilation) + Print Assumptions vs tools/axiom_allowlist.txt + forbidden-construct audit" % self.id
        if not pr["ok"]:
            self.cov["proof_problems"] = pr["problems"]
        return pr["ok"]

    # -- finishing ------------------------------------------------------------------------
    def finish(self):
        for fid, what in sorted(self.known_hits.items()):
            print("KNOWN-FINDING: property=%s %s" % (self.id, what))
        for v in self.violations:
            print("VIOLATION property=%s replay=%s%s" % (self.id, v["path"], " no-failing-input-found" if v["nfi"] else ""))
        ev = {"property_id": self.id, "tier": self.tier, "seed": self.seed, "level": self.level,
              "coverage": self.cov, "assumptions": self.assumptions, "wall_s": round(time.time() - self.t0, 2),
              "violations": len(self.violations)}
        if self.notes:
            ev["coverage"]["notes"] = self.notes
        if self.known_hits:
            ev["coverage"]["known_findings_reproduced"] = sorted(self.known_hits)
        os.makedirs(os.path.join(ROOT, "evidence"), exist_ok=True)
        json.dump(ev, open(os.path.join(ROOT, "evidence", self.id + ".json"), "w"), indent=1, default=str)
        sys.stdout.flush()
        sys.exit(1 if self.violations else 0)


TRUSTED_COMMON = [
    "Coq 8.16.1 kernel and its vm_compute bytecode evaluator (no native_compute)",
    "OCaml extraction with ExtrOcamlBasic + ExtrOcamlString directives only (no Extract Constant); OCaml 4.13.1; zarith only for decimal I/O in extract/driver.ml",
    "the correspondence harness (harness/, tools/) - generators, encoders, canonicalisers - and rustc/std",
    "the model is hand-written: it is tied to /repo only on the inputs the correspondence run compares",
]


def corr(chk, name, binname, runner, cases, spec_runner=None, profiles=(False, True), kernel_sample=40,
         nontrivial=None, classify=None, impl_timeout=1800):
    """Standard correspondence: impl (debug + release) vs extracted model vs (sample) kernel.
    Returns dict with per-case outputs; registers nothing by itself except crashes-as-mismatch info."""
    res = {"cases": cases}
    model = run_model(chk.id, runner, cases)
    res["model"] = model
    impl = {}
    for rel in profiles:
        impl[rel] = run_impl(binname, cases, release=rel, timeout=impl_timeout)
    res["impl"] = impl
    mism = []
    for i, c in enumerate(cases):
        for rel in profiles:
            if impl[rel][i] != model[i]:
                mism.append((i, rel))
    res["mismatches"] = mism
    # kernel cross-check of the extraction on a sample
    if kernel_sample and cases:
        step = max(1, len(cases) // kernel_sample)
        idx = list(range(0, len(cases), step))[:kernel_sample]
        # prefer cheap-to-print cases: skip ones with huge numbers
        sample = [cases[i] for i in idx]
        kern = kernel_eval(name, sample, "k_" + chk.id + "_" + runner.replace("-", "_"), imports="Common.Base %s.Runner" % chk.id)
        if kern is None:
            res["kernel_ok"] = False
            res["kernel_checked"] = 0
        else:
            bad = [idx[j] for j in range(len(sample)) if j >= len(kern) or kern[j] != model[idx[j]]]
            res["kernel_ok"] = not bad
            res["kernel_bad"] = bad
            res["kernel_checked"] = len(sample)
    return res
